#ifdef HAVE_CONFIG_H
# include <config.h>
#endif
#include <stdio.h>
#include <stdlib.h>
#include <string.h>
#include <libast.h>
int main(void)
{
    static const char *in[] = { "   ", " ", "\t\n ", " a ", "a", "  ab  c  ", "" };
    int bad = 0; unsigned i;
    for (i = 0; i < sizeof(in) / sizeof(in[0]); i++) {
        spif_str_t s = spif_str_new_from_ptr((spif_charptr_t) in[i]);
        spif_mbuff_t m = spif_mbuff_new_from_buff((spif_byteptr_t) in[i], strlen(in[i]), strlen(in[i]));
        const char *p = in[i], *q = in[i] + strlen(in[i]);
        size_t want;
        while (p < q && strchr(" \t\n", *p)) p++;
        while (q > p && strchr(" \t\n", q[-1])) q--;
        want = (size_t) (q - p);
        spif_str_trim(s);
        spif_mbuff_trim(m);
        printf("\"%s\": str len %ld (want %zu) mbuff len %ld (want %zu)%s\n", in[i], (long) spif_str_get_len(s), want, (long) spif_mbuff_get_len(m), want,
               ((size_t) spif_str_get_len(s) != want || (size_t) spif_mbuff_get_len(m) != want) ? "  MISMATCH" : "");
        if ((size_t) spif_str_get_len(s) != want || (size_t) spif_mbuff_get_len(m) != want) bad = 1;
        if (want && memcmp(SPIF_STR_STR(s), p, want)) { printf("  text differs\n"); bad = 1; }
        spif_str_del(s); spif_mbuff_del(m);
    }
    return bad;
}
