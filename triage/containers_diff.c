/* triage helper (NOT a check): random differential histories over the three list/vector/map classes against an ideal model.
 * usage: triage/asan_run.sh triage/containers_diff.c [seed0 nseeds steps] */
#include <config.h>
#include <libast.h>
#include <string.h>
#include <stdio.h>
#include <stdlib.h>

#define MAXN 64
static const char *model[MAXN];
static int mlen;
static int fails;
static unsigned long rs;
static unsigned rnd(void) { rs = rs * 6364136223846793005UL + 1442695040888963407UL; return (unsigned) (rs >> 33); }
static spif_str_t S(const char *s) { return spif_str_new_from_ptr((spif_charptr_t) s); }
static const char *vals[] = { "a", "b", "c", "d", "e", "f", "g" };
static const char *str_of(spif_obj_t o) { return o ? (const char *) SPIF_STR_STR(SPIF_STR(o)) : "(null)"; }
static char hist[8192];
#define FAIL(...) do { if (fails < 40) { printf("FAIL[%s seed=%lu] ", cls, seed); printf(__VA_ARGS__); printf("   history:%s\n", hist); } fails++; bad = 1; } while (0)

static int same(const char *a, const char *b) { if (!a || !b) return a == b; return !strcmp(a, b); }

static void list_history(const char *cls, int which, unsigned long seed, int steps)
{
    spif_list_t l = which == 0 ? SPIF_LIST_NEW(array) : which == 1 ? SPIF_LIST_NEW(linked_list) : SPIF_LIST_NEW(dlinked_list);
    int bad = 0, s, i;
    rs = seed; mlen = 0; hist[0] = 0;
    for (s = 0; s < steps && !bad; s++) {
        unsigned op = rnd() % 10;
        const char *v = vals[rnd() % 7];
        int idx = (int) (rnd() % (2 * mlen + 7)) - (mlen + 3);
        char b[64];
        switch (op) {
        case 0: snprintf(b, sizeof b, " app(%s)", v); strcat(hist, b);
            if (mlen < MAXN - 8) { SPIF_LIST_APPEND(l, S(v)); model[mlen++] = v; } break;
        case 1: snprintf(b, sizeof b, " pre(%s)", v); strcat(hist, b);
            if (mlen < MAXN - 8) { SPIF_LIST_PREPEND(l, S(v)); memmove(model + 1, model, sizeof(model[0]) * mlen); model[0] = v; mlen++; } break;
        case 2: case 3: {
            int n = idx, ok, r;
            if (idx > mlen + 3) idx = mlen + 3;
            n = idx; if (n < 0) n += mlen;
            snprintf(b, sizeof b, " ins(%s,%d)", v, idx); strcat(hist, b);
            if (mlen >= MAXN - 8) break;
            r = SPIF_LIST_INSERT_AT(l, S(v), idx);
            ok = n >= 0;
            if (ok) {
                if (n > mlen) { while (mlen < n) model[mlen++] = NULL; model[mlen++] = v; }
                else { memmove(model + n + 1, model + n, sizeof(model[0]) * (mlen - n)); model[n] = v; mlen++; }
            }
            if (!!r != ok) FAIL("insert_at(%d) returned %d, ideal %d\n", idx, r, ok);
            break; }
        case 4: {
            int n = idx; spif_obj_t r;
            if (n < 0) n += mlen;
            snprintf(b, sizeof b, " rmat(%d)", idx); strcat(hist, b);
            r = SPIF_LIST_REMOVE_AT(l, idx);
            if (n >= 0 && n < mlen) {
                if (!same(str_of(r), model[n] ? model[n] : "(null)")) FAIL("remove_at(%d) gave %s, ideal %s\n", idx, str_of(r), model[n] ? model[n] : "(null)");
                memmove(model + n, model + n + 1, sizeof(model[0]) * (mlen - n - 1)); mlen--;
            } else if (r) FAIL("remove_at(%d) out of range gave %s\n", idx, str_of(r));
            break; }
        case 5: {
            spif_str_t p = S(v); spif_obj_t r; int j;
            snprintf(b, sizeof b, " rm(%s)", v); strcat(hist, b);
            r = SPIF_LIST_REMOVE(l, p);
            for (j = 0; j < mlen && !(model[j] && !strcmp(model[j], v)); j++);
            if (j < mlen) {
                if (!r || strcmp(str_of(r), v)) FAIL("remove(%s) gave %s\n", v, str_of(r));
                memmove(model + j, model + j + 1, sizeof(model[0]) * (mlen - j - 1)); mlen--;
            } else if (r) FAIL("remove(%s) absent gave %s\n", v, str_of(r));
            break; }
        case 6: strcat(hist, " rev");
            SPIF_LIST_REVERSE(l);
            for (i = 0; i < mlen / 2; i++) { const char *t = model[i]; model[i] = model[mlen - 1 - i]; model[mlen - 1 - i] = t; }
            break;
        case 7: {
            spif_str_t p = S(v); int j, r;
            snprintf(b, sizeof b, " idx(%s)", v); strcat(hist, b);
            r = SPIF_LIST_INDEX(l, p);
            for (j = 0; j < mlen && !(model[j] && !strcmp(model[j], v)); j++);
            if (j == mlen) j = -1;
            if (r != j) FAIL("index(%s) = %d, ideal %d\n", v, r, j);
            if (!!SPIF_LIST_CONTAINS(l, p) != (j >= 0)) FAIL("contains(%s) wrong\n", v);
            break; }
        case 8: {
            spif_list_t d = (spif_list_t) SPIF_LIST_DUP(l);
            strcat(hist, " dup");
            if (SPIF_LIST_COUNT(d) != mlen) FAIL("dup count %d ideal %d\n", (int) SPIF_LIST_COUNT(d), mlen);
            for (i = 0; i < mlen && !bad; i++) if (!same(str_of(SPIF_LIST_GET(d, i)), model[i] ? model[i] : "(null)")) FAIL("dup[%d]\n", i);
            break; }
        default: break;
        }
        /* read back */
        if ((int) SPIF_LIST_COUNT(l) != mlen) FAIL("count %d ideal %d\n", (int) SPIF_LIST_COUNT(l), mlen);
        for (i = -mlen - 1; i <= mlen && !bad; i++) {
            spif_obj_t g = SPIF_LIST_GET(l, i);
            int n = i < 0 ? i + mlen : i;
            const char *want = (n >= 0 && n < mlen) ? (model[n] ? model[n] : "(null)") : "(null)";
            if (!same(str_of(g), want)) FAIL("get(%d) = %s ideal %s\n", i, str_of(g), want);
        }
        if (!bad) {
            spif_iterator_t it = SPIF_LIST_ITERATOR(l);
            for (i = 0; SPIF_ITERATOR_HAS_NEXT(it) && i <= mlen + 1; i++) {
                spif_obj_t g = SPIF_ITERATOR_NEXT(it);
                if (i < mlen && !same(str_of(g), model[i] ? model[i] : "(null)")) FAIL("iter[%d] = %s\n", i, str_of(g));
            }
            if (i != mlen) FAIL("iterator yielded %d ideal %d\n", i, mlen);
        }
    }
}

static int cmps(const void *a, const void *b) { return strcmp(*(const char **) a, *(const char **) b); }

static void vector_history(const char *cls, int which, unsigned long seed, int steps)
{
    spif_vector_t l = which == 0 ? SPIF_VECTOR_NEW(array) : which == 1 ? SPIF_VECTOR_NEW(linked_list) : SPIF_VECTOR_NEW(dlinked_list);
    int bad = 0, s, i;
    rs = seed; mlen = 0; hist[0] = 0;
    for (s = 0; s < steps && !bad; s++) {
        unsigned op = rnd() % 3;
        const char *v = vals[rnd() % 7];
        char b[64];
        if (op == 0 || (op == 1 && (rnd() & 1))) {
            snprintf(b, sizeof b, " ins(%s)", v); strcat(hist, b);
            if (mlen < MAXN - 8) { SPIF_VECTOR_INSERT(l, S(v)); model[mlen++] = v; qsort(model, mlen, sizeof(model[0]), cmps); }
        } else if (op == 1) {
            spif_str_t p = S(v); spif_obj_t r; int j;
            snprintf(b, sizeof b, " rm(%s)", v); strcat(hist, b);
            r = SPIF_VECTOR_REMOVE(l, p);
            for (j = 0; j < mlen && strcmp(model[j], v); j++);
            if (j < mlen) {
                if (!r || strcmp(str_of(r), v)) FAIL("remove(%s) gave %s\n", v, str_of(r));
                memmove(model + j, model + j + 1, sizeof(model[0]) * (mlen - j - 1)); mlen--;
            } else if (r) FAIL("remove(%s) absent gave %s\n", v, str_of(r));
        } else {
            spif_str_t p = S(v); spif_obj_t r; int j;
            snprintf(b, sizeof b, " find(%s)", v); strcat(hist, b);
            r = SPIF_VECTOR_FIND(l, p);
            for (j = 0; j < mlen && strcmp(model[j], v); j++);
            if ((j < mlen) != (r != NULL)) FAIL("find(%s) = %s\n", v, str_of(r));
            if (r && strcmp(str_of(r), v)) FAIL("find(%s) = %s\n", v, str_of(r));
            if (!!SPIF_VECTOR_CONTAINS(l, p) != (j < mlen)) FAIL("contains(%s)\n", v);
        }
        if ((int) SPIF_VECTOR_COUNT(l) != mlen) FAIL("count %d ideal %d\n", (int) SPIF_VECTOR_COUNT(l), mlen);
        if (!bad) {
            spif_iterator_t it = SPIF_VECTOR_ITERATOR(l);
            for (i = 0; SPIF_ITERATOR_HAS_NEXT(it) && i <= mlen + 1; i++) {
                spif_obj_t g = SPIF_ITERATOR_NEXT(it);
                if (i < mlen && !same(str_of(g), model[i])) FAIL("iter[%d] = %s ideal %s\n", i, str_of(g), model[i]);
            }
            if (i != mlen) FAIL("iterator yielded %d ideal %d\n", i, mlen);
        }
        if (!bad && mlen) {
            spif_obj_t *a = SPIF_VECTOR_TO_ARRAY(l);
            for (i = 0; i < mlen; i++) if (!same(str_of(a[i]), model[i])) FAIL("to_array[%d]\n", i);
        }
    }
}

static const char *mk[MAXN], *mv[MAXN];
static void map_history(const char *cls, int which, unsigned long seed, int steps)
{
    spif_map_t l = which == 0 ? SPIF_MAP_NEW(array) : which == 1 ? SPIF_MAP_NEW(linked_list) : SPIF_MAP_NEW(dlinked_list);
    int bad = 0, s, i, j;
    rs = seed; mlen = 0; hist[0] = 0;
    for (s = 0; s < steps && !bad; s++) {
        unsigned op = rnd() % 4;
        const char *k = vals[rnd() % 7], *v = vals[rnd() % 7];
        char b[64];
        for (j = 0; j < mlen && strcmp(mk[j], k); j++);
        if (op <= 1) {
            spif_str_t ko = S(k), vo = S(v); int r;
            snprintf(b, sizeof b, " set(%s,%s)", k, v); strcat(hist, b);
            r = SPIF_MAP_SET(l, ko, vo);
            if (!!r != (j < mlen)) FAIL("set(%s) returned %d\n", k, r);
            if (j < mlen) mv[j] = v; else {
                for (j = 0; j < mlen && strcmp(mk[j], k) < 0; j++);
                memmove(mk + j + 1, mk + j, sizeof(mk[0]) * (mlen - j)); memmove(mv + j + 1, mv + j, sizeof(mv[0]) * (mlen - j));
                mk[j] = k; mv[j] = v; mlen++;
            }
            spif_str_done(ko); spif_str_init_from_ptr(ko, (spif_charptr_t) "zzz"); spif_str_del(vo);
        } else if (op == 2) {
            spif_str_t ko = S(k); spif_obj_t r;
            snprintf(b, sizeof b, " rm(%s)", k); strcat(hist, b);
            r = SPIF_MAP_REMOVE(l, ko);
            if (j < mlen) {
                if (!r) FAIL("remove(%s) present gave NULL\n", k);
                else if (strcmp(str_of(SPIF_OBJPAIR(r)->key), k) || strcmp(str_of(SPIF_OBJPAIR(r)->value), mv[j])) FAIL("remove(%s) wrong pair\n", k);
                memmove(mk + j, mk + j + 1, sizeof(mk[0]) * (mlen - j - 1)); memmove(mv + j, mv + j + 1, sizeof(mv[0]) * (mlen - j - 1)); mlen--;
            } else if (r) FAIL("remove(%s) absent gave non-NULL\n", k);
        } else {
            spif_str_t ko = S(k), vo = S(v); spif_obj_t r;
            snprintf(b, sizeof b, " get(%s)", k); strcat(hist, b);
            r = SPIF_MAP_GET(l, ko);
            if ((j < mlen) != (r != NULL)) FAIL("get(%s) = %s\n", k, str_of(r));
            else if (r && strcmp(str_of(r), mv[j])) FAIL("get(%s) = %s ideal %s\n", k, str_of(r), mv[j]);
            if (!!SPIF_MAP_HAS_KEY(l, ko) != (j < mlen)) FAIL("has_key(%s)\n", k);
            for (i = 0; i < mlen && strcmp(mv[i], v); i++);
            if (!!SPIF_MAP_HAS_VALUE(l, vo) != (i < mlen)) FAIL("has_value(%s)\n", v);
        }
        if ((int) SPIF_MAP_COUNT(l) != mlen) FAIL("count %d ideal %d\n", (int) SPIF_MAP_COUNT(l), mlen);
        if (!bad) {
            spif_iterator_t it = SPIF_MAP_ITERATOR(l);
            for (i = 0; SPIF_ITERATOR_HAS_NEXT(it) && i <= mlen + 1; i++) {
                spif_obj_t g = SPIF_ITERATOR_NEXT(it);
                if (i < mlen && (!g || strcmp(str_of(SPIF_OBJPAIR(g)->key), mk[i]) || strcmp(str_of(SPIF_OBJPAIR(g)->value), mv[i]))) FAIL("iter[%d]\n", i);
            }
            if (i != mlen) FAIL("iterator yielded %d ideal %d\n", i, mlen);
        }
        if (!bad) {
            spif_list_t kl = SPIF_MAP_GET_KEYS(l, (spif_list_t) NULL), vl = SPIF_MAP_GET_VALUES(l, (spif_list_t) NULL), pl = SPIF_MAP_GET_PAIRS(l, (spif_list_t) NULL);
            if ((int) SPIF_LIST_COUNT(kl) != mlen || (int) SPIF_LIST_COUNT(vl) != mlen || (int) SPIF_LIST_COUNT(pl) != mlen) FAIL("keys/values/pairs count\n");
            for (i = 0; i < mlen && !bad; i++) {
                if (strcmp(str_of(SPIF_LIST_GET(kl, i)), mk[i])) FAIL("keys[%d]\n", i);
                if (strcmp(str_of(SPIF_LIST_GET(vl, i)), mv[i])) FAIL("values[%d]\n", i);
            }
        }
    }
}

int main(int argc, char **argv)
{
    unsigned long s0 = argc > 1 ? strtoul(argv[1], 0, 0) : 1, n = argc > 2 ? strtoul(argv[2], 0, 0) : 300, seed;
    int steps = argc > 3 ? atoi(argv[3]) : 25, w;
    const char *what = argc > 4 ? argv[4] : "lvm";
    static const char *names[] = { "array", "linked_list", "dlinked_list" };
    libast_set_program_name("t");
    for (seed = s0; seed < s0 + n; seed++)
        for (w = 0; w < 3; w++) {
            char cls[40];
            if (strchr(what, 'l')) { snprintf(cls, sizeof cls, "list/%s", names[w]); list_history(cls, w, seed, steps); }
            if (strchr(what, 'v')) { snprintf(cls, sizeof cls, "vector/%s", names[w]); vector_history(cls, w, seed, steps); }
            if (strchr(what, 'm')) { snprintf(cls, sizeof cls, "map/%s", names[w]); map_history(cls, w, seed, steps); }
        }
    printf("fails=%d\n", fails);
    return fails != 0;
}
