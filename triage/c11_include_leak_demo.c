#ifdef HAVE_CONFIG_H
# include <config.h>
#endif
#include <stdio.h>
#include <stdlib.h>
#include <string.h>
#include <unistd.h>
#include <libast.h>
static void *ctx_any(spif_charptr_t buff, void *state) { (void) buff; return state; }
int main(void)
{
    char fname[] = "/tmp/c11leak-XXXXXX", inc[] = "/tmp/c11inc-XXXXXX";
    char body[256];
    FILE *fp; int fd; spif_charptr_t r;
    libast_set_program_name("c11leak"); libast_set_program_version("1.0");
    fd = mkstemp(inc); fp = fdopen(fd, "w"); fputs("<c11leak-1.0>\nbegin demo\n  k v\nend\n", fp); fclose(fp);
    snprintf(body, sizeof(body), "<c11leak-1.0>\n%%include %s\nbegin demo\n  key val\nend\n", inc);
    fd = mkstemp(fname); fp = fdopen(fd, "w"); fputs(body, fp); fclose(fp);
    spifconf_init_subsystem();
    spifconf_register_context((spif_charptr_t) "demo", ctx_any);
    r = spifconf_parse((spif_charptr_t) fname, NULL, NULL);
    if (r) free(r);
    spifconf_free_subsystem();
    unlink(fname); unlink(inc);
    puts("done");
    return 0;
}
