#ifdef HAVE_CONFIG_H
# include <config.h>
#endif
#include <stdio.h>
#include <stdlib.h>
#include <string.h>
#include <unistd.h>
#include <libast.h>
static int got;
static void *ctx_any(spif_charptr_t buff, void *state)
{
    if (*buff != SPIFCONF_BEGIN_CHAR && *buff != SPIFCONF_END_CHAR) { printf("line: \"%s\"\n", buff); got++; }
    return state;
}
int main(void)
{
    char fname[] = "/tmp/c09nl-XXXXXX";
    static const char body[] = "<c09nl-1.0>\nbegin demo\n  first 1\n  last 2";   /* no final newline */
    FILE *fp; int fd; spif_charptr_t r;
    libast_set_program_name("c09nl"); libast_set_program_version("1.0");
    fd = mkstemp(fname); fp = fdopen(fd, "w"); fputs(body, fp); fclose(fp);
    spifconf_init_subsystem();
    spifconf_register_context((spif_charptr_t) "demo", ctx_any);
    r = spifconf_parse((spif_charptr_t) fname, NULL, NULL);
    if (r) free(r);
    spifconf_free_subsystem();
    unlink(fname);
    printf("%d ordinary line(s) delivered, expected 2\n", got);
    return got != 2;
}
