#ifdef HAVE_CONFIG_H
# include <config.h>
#endif
#include <stdio.h>
#include <stdlib.h>
#include <string.h>
#include <unistd.h>
#include <libast.h>
static void *ctx_any(spif_charptr_t buff, void *state) { (void) buff; return state; }
int main(void)
{
    char fname[] = "/tmp/c11leak-XXXXXX";
    static const char body[] = "<c11leak-1.0>\n%include /nonexistent/c11leak.cfg\nbegin demo\n  key %dirscan(/etc)\nend\n";
    FILE *fp; int fd; spif_charptr_t r;
    libast_set_program_name("c11leak"); libast_set_program_version("1.0");
    fd = mkstemp(fname); fp = fdopen(fd, "w"); fputs(body, fp); fclose(fp);
    spifconf_init_subsystem();
    spifconf_register_context((spif_charptr_t) "demo", ctx_any);
    r = spifconf_parse((spif_charptr_t) fname, NULL, NULL);
    if (r) free(r);
    spifconf_free_subsystem();
    unlink(fname);
    puts("done");
    return 0;
}
