#include "config.h"
#include <libast.h>
#include <stdio.h>
#include <string.h>
static char *mk(const char *s) { char *p = malloc(strlen(s) + 1); strcpy(p, s); return p; } /* exact-size heap copy so ASan sees over-reads */
int main(int argc, char **argv) {
    int t = atoi(argv[1]);
    switch (t) {
    case 1: { spif_str_t s = spif_str_new(); spif_str_append_from_ptr(s, "abc"); printf("%s %ld %ld\n", SPIF_STR_STR(s), (long)s->len, (long)s->size); break; }
    case 2: { spif_str_t s = spif_str_new(); spif_str_append_char(s, 'x'); printf("ok\n"); break; }
    case 3: { spif_str_t s = spif_str_new(), o = spif_str_new_from_ptr("abc"); spif_str_append(s, o); printf("ok\n"); break; }
    case 4: { spif_str_t s = spif_str_new_from_ptr("abc"); spif_str_prepend_char(s, 'x'); printf("%s\n", SPIF_STR_STR(s)); break; }
    case 5: { spif_str_t s = spif_str_new_from_ptr(""); spif_str_trim(s); printf("ok\n"); break; }
    case 6: { spif_str_t s = spif_str_new(); spif_str_t d = spif_str_dup(s); printf("ok %p\n", d); break; }
    case 7: { spif_mbuff_t m = spif_mbuff_new_from_ptr((spif_byteptr_t)"abc", 3); printf("%ld\n", (long) spif_mbuff_index(m, 'z')); break; }
    case 8: { spif_mbuff_t m = spif_mbuff_new_from_ptr((spif_byteptr_t)"abc", 3); printf("%ld\n", (long) spif_mbuff_rindex(m, 'z')); break; }
    case 9: { spif_mbuff_t m = spif_mbuff_new_from_ptr((spif_byteptr_t)"abcdef", 6), o = spif_mbuff_new_from_ptr((spif_byteptr_t)"XY", 2); spif_mbuff_splice(m, 1, 2, o); printf("ok\n"); break; }
    case 10: { spif_mbuff_t a = spif_mbuff_new_from_ptr((spif_byteptr_t)"abc", 3), b = spif_mbuff_new_from_ptr((spif_byteptr_t)"abcd", 4); printf("cmp=%d\n", spif_mbuff_cmp(a, b)); break; }
    case 11: { FILE *f = fopen("/tmp/scratch/f.bin", "wb"); fwrite("hello", 5, 1, f); fclose(f); int fd = open("/tmp/scratch/f.bin", O_RDONLY); spif_mbuff_t m = spif_mbuff_new_from_fd(fd); printf("%p\n", m); break; }
    case 12: { char *a = mk("1.aaaaaaaaaaaaaaaaaaaaaaaaaaaaaaaaaaaaaaaaaaaaaaaaaaaaaaaaaaaaaaaaaaaaaaaaaaaaaaaaaaaaaaaaaaaaaaaaaaaaaaaaaaaaaaaaaaaaaaaaaaaaaaaaaaaaaaaaaaaaaaaaaaaaaaaaaaaaaa"); printf("%d\n", spiftool_version_compare(a, a)); break; }
    case 13: { char *d = mk(":"), *s = mk("a\\"); spif_charptr_t *l = spiftool_split(d, s); printf("ok %p\n", l); break; }
    case 14: { char *s = mk("\"a'"); spif_charptr_t *l = spiftool_split(NULL, s); printf("ok %p\n", l); break; }
    case 15: { char *s = mk(""); s = spiftool_condense_whitespace(s); printf("ok\n"); break; }
    case 16: { spif_url_t u = spif_url_new_from_ptr("tcp://host/path"); printf("%p\n", u); break; }
    case 17: { spif_list_t l = SPIF_LIST_NEW(array); spif_str_t a = spif_str_new_from_ptr("a"); SPIF_LIST_APPEND(l, a); SPIF_LIST_INSERT_AT(l, spif_str_new_from_ptr("b"), -2); printf("ok\n"); break; }
    case 18: { spif_list_t l = SPIF_LIST_NEW(linked_list); SPIF_LIST_REVERSE(l); SPIF_LIST_APPEND(l, spif_str_new_from_ptr("a")); printf("ok\n"); break; }
    case 19: { spif_list_t l = SPIF_LIST_NEW(dlinked_list); SPIF_LIST_APPEND(l, spif_str_new_from_ptr("a")); SPIF_LIST_APPEND(l, spif_str_new_from_ptr("b")); SPIF_LIST_REVERSE(l); SPIF_LIST_APPEND(l, spif_str_new_from_ptr("c")); printf("count=%d first=%s last=%s\n", SPIF_LIST_COUNT(l), SPIF_STR_STR(SPIF_LIST_GET(l,0)), SPIF_STR_STR(SPIF_LIST_GET(l,-1))); break; }
    case 20: { spif_list_t l = SPIF_LIST_NEW(linked_list), m = SPIF_LIST_NEW(linked_list); SPIF_LIST_APPEND(l, spif_str_new_from_ptr("a")); SPIF_LIST_APPEND(m, spif_str_new_from_ptr("a")); printf("%d\n", SPIF_LIST_COMP(l, m)); break; }
    case 21: { spif_list_t l = SPIF_LIST_NEW(dlinked_list); SPIF_LIST_APPEND(l, spif_str_new_from_ptr("a")); spif_list_t d = SPIF_LIST_DUP(l); SPIF_LIST_APPEND(d, spif_str_new_from_ptr("b")); printf("count=%d get0=%s\n", SPIF_LIST_COUNT(d), SPIF_STR_STR(SPIF_LIST_GET(d,0))); break; }
    case 22: { spif_list_t l = SPIF_LIST_NEW(array); spif_list_t d = SPIF_LIST_DUP(l); SPIF_LIST_INSERT_AT(l, spif_str_new_from_ptr("b"), 2); d = SPIF_LIST_DUP(l); printf("ok\n"); break; }
    case 23: { spif_objpair_t p = spif_objpair_new(); spif_objpair_del(p); printf("ok\n"); break; }
    case 24: { spif_map_t m = SPIF_MAP_NEW(dlinked_list); spif_str_t k1 = spif_str_new_from_ptr("a"), k2 = spif_str_new_from_ptr("b"); SPIF_MAP_SET(m, k1, k1); SPIF_MAP_SET(m, k2, k2); spif_obj_t r = SPIF_MAP_REMOVE(m, k2); SPIF_MAP_SET(m, spif_str_new_from_ptr("c"), k1); printf("count=%d has_b=%d\n", (int)SPIF_MAP_COUNT(m), SPIF_MAP_HAS_KEY(m, k2)); break; }
    case 25: { spifconf_init_subsystem(); char *b = mk("#x\n"); spifconf_parse_line(NULL, b); printf("fstate_idx=%d\n", fstate_idx); break; }
    case 26: { spifconf_init_subsystem(); char *b = malloc(CONFIG_BUFF); strcpy(b, "abc\\"); spifconf_shell_expand(b); printf("[%s]\n", b); break; }
    case 27: { spifconf_init_subsystem(); unsetenv("NOPE"); char *b = malloc(CONFIG_BUFF); strcpy(b, "a$NOPE.b"); spifconf_shell_expand(b); printf("[%s]\n", b); break; }
    case 28: { spifconf_init_subsystem(); setenv("YES", "val", 1); char *b = malloc(CONFIG_BUFF); strcpy(b, "ab$YES.c"); spifconf_shell_expand(b); printf("[%s]\n", b); break; }
    case 29: { spifconf_init_subsystem(); char *b = malloc(CONFIG_BUFF); strcpy(b, "x %get("); spifconf_shell_expand(b); printf("ok\n"); break; }
    case 30: { spifconf_init_subsystem(); int i; for (i = 0; i < 200; i++) spifconf_register_context_state(0); printf("ok\n"); break; }
    case 31: { spif_tok_t t = spif_tok_new_from_ptr("a b"); spif_tok_t d = spif_tok_dup(t); printf("%p\n", d); break; }
    case 32: { spif_mbuff_t m = spif_mbuff_new(); spif_mbuff_reverse(NULL); printf("ok\n"); break; }
    case 33: { char *av[] = { "prog", "-", NULL }; int v = 0; spifopt_t o[] = { SPIFOPT_BOOL('a', "aa", "d", v, 1) }; SPIFOPT_OPTLIST_SET(o); SPIFOPT_NUMOPTS_SET(1); SPIFOPT_ALLOWBAD_SET(5); char **a2 = malloc(3 * sizeof(char*)); a2[0] = mk("prog"); a2[1] = mk("-"); a2[2] = NULL; spifopt_parse(2, a2); printf("ok\n"); break; }
    }
    return 0;
}
