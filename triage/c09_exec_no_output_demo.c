/* C09 "when parsing returns all files are closed": a %exec (or backquote) whose command prints nothing left the stream of its
 * temporary file open and the file itself behind.  Counts the open descriptors and the Eterm-exec-* files before / after. */
#ifdef HAVE_CONFIG_H
# include <config.h>
#endif
#include <stdio.h>
#include <stdlib.h>
#include <string.h>
#include <unistd.h>
#include <dirent.h>
#include <libast.h>
static void *ctx_any(spif_charptr_t buff, void *state) { (void) buff; return state; }
static int open_fds(void)
{
    int n = 0; DIR *d = opendir("/proc/self/fd"); struct dirent *e;
    while ((e = readdir(d))) if (e->d_name[0] != '.') n++;
    closedir(d);
    return n - 1;       /* the directory stream itself */
}
int main(void)
{
    char fname[] = "/tmp/c09exec-XXXXXX";
    static const char body[] = "<c09exec-1.0>\nbegin demo\n  a %exec(true)\n  b `true`\n  c %exec(true)\nend\n";
    FILE *fp; int fd, before, after; spif_charptr_t r;
    libast_set_program_name("c09exec"); libast_set_program_version("1.0");
    fd = mkstemp(fname); fp = fdopen(fd, "w"); fputs(body, fp); fclose(fp);
    spifconf_init_subsystem();
    spifconf_register_context((spif_charptr_t) "demo", ctx_any);
    before = open_fds();
    r = spifconf_parse((spif_charptr_t) fname, NULL, NULL);
    after = open_fds();
    if (r) free(r);
    spifconf_free_subsystem();
    unlink(fname);
    printf("open descriptors before %d, after %d\n", before, after);
    if (after != before) { puts("FAIL: parsing returned with files still open"); return 1; }
    puts("PASS");
    return 0;
}
