/* C06 "every allocation is released exactly once": an mbuff created with size 0 holds a malloc(0) block that
 * spif_mbuff_done() never frees (it releases the buffer only under `if (self->size)`).  Run with ASAN_OPTIONS=detect_leaks=1. */
#ifdef HAVE_CONFIG_H
# include <config.h>
#endif
#include <stdio.h>
#include <stdlib.h>
#include <libast.h>
int main(void)
{
    spif_mbuff_t m, sub;
    int i;
    for (i = 0; i < 50; i++) {
        m = spif_mbuff_new_from_buff((spif_byteptr_t) "", 0, 0);
        spif_mbuff_del(m);
    }
    m = spif_mbuff_new_from_ptr((spif_byteptr_t) "abcdefgh", 8);
    sub = spif_mbuff_subbuff(m, 3, -5);          /* a zero-length slice */
    if (sub) spif_mbuff_del(sub);
    spif_mbuff_del(m);
    puts("done");
    return 0;
}
