#!/bin/sh
# triage helper (NOT a check): build /repo's sources (or $LA_SRC) with ASan+UBSan in a scratch dir, link one demo, run it.
# usage: triage/asan_run.sh demo.c [args...]
SRC=${LA_SRC:-/repo}
D=$1; shift
S=$(mktemp -d /tmp/la_asan.XXXXXX)
trap 'rm -rf "$S"' EXIT
SAN=${NOSAN:+}; [ -z "$NOSAN" ] && SAN="-fsanitize=address,undefined"; CF="-g -O0 $SAN -w -DHAVE_CONFIG_H -I. -I.. -I../include/libast -I../include"
(cd "$SRC/src" && ls *.c | grep -v avl_tree | xargs -P16 -I{} sh -c "clang $CF -c {} -o $S/{}.o") || exit 2
clang -g -O0 $SAN -w -DHAVE_CONFIG_H -I"$SRC" -I"$SRC/include" -I"$SRC/include/libast" "$D" "$S"/*.o -lpcre -lX11 -ldl -lm -o "$S/demo" || exit 2
ASAN_OPTIONS=${ASAN_OPTIONS:-detect_leaks=0} "$S/demo" "$@"
