#ifdef HAVE_CONFIG_H
# include <config.h>
#endif
#include <stdio.h>
#include <stdlib.h>
#include <string.h>
#include <libast.h>
extern spif_charptr_t spifconf_shell_expand(spif_charptr_t);
int main(void)
{
    static const char *in[] = { "<${C10V8}>", "<$(C10V8)>", "<$C10V8>", "a${C10V8}b$(C10V8)c", "<${UNSET_C10V8}>" };
    static const char *want[] = { "<val>", "<val>", "<val>", "avalbvalc", "<>" };
    int bad = 0;
    unsigned i;
    setenv("C10V8", "val", 1);
    unsetenv("UNSET_C10V8");
    spifconf_init_subsystem();
    for (i = 0; i < 5; i++) {
        char *buf = malloc(20480);
        strcpy(buf, in[i]);
        spifconf_shell_expand((spif_charptr_t) buf);
        printf("%-24s -> %-16s %s\n", in[i], buf, strcmp(buf, want[i]) ? "MISMATCH" : "ok");
        bad |= strcmp(buf, want[i]) != 0;
        free(buf);
    }
    return bad;
}
