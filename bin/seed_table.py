#!/usr/bin/env python3
"""Markdown table of seeded/RESULTS.json (which check catches which seeded change) for DESIGN.md section 9.4."""
import json, os, sys
HERE = os.path.dirname(os.path.dirname(os.path.abspath(__file__)))
r = json.load(open(os.path.join(HERE, "seeded", "RESULTS.json")))
rows = []
caught = 0
for k in sorted(r):
    v = r[k]
    meta = json.load(open(os.path.join(HERE, "seeded", k, "meta.json")))
    own = v.get(k[:3], {})
    others = sorted(c for c, x in v.items() if isinstance(x, dict) and x.get("rc") == 1 and c != k[:3])
    ok = own.get("rc") == 1
    caught += 1 if (ok or others) else 0
    what = (meta.get("summary") or "").split(":")[0][:110].replace("|", "/")
    rows.append("| %s | %s | %s | %s | %s |" % (k, what, ("**caught** by %s" % ", ".join(own.get("rules", []))) if ok else "missed",
                                           ", ".join(others) or "-", "rebased" if meta.get("rebased") else ""))
print("| Change | What it does (author's summary, abridged) | Own check | Also reported by | |")
print("|---|---|---|---|---|")
print("\n".join(rows))
print()
print("%d of %d seeded changes are reported by at least one check." % (caught, len(rows)))
