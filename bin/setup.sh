#!/bin/sh
# Build the framework from files on disk only (offline): the clang-14 frontend plugin.
set -e
cd "$(dirname "$0")/.."
mkdir -p build evidence/replay
if [ ! -f build/lafacts.so ] || [ fe/lafacts.cc -nt build/lafacts.so ]; then
  clang++ $(llvm-config-14 --cxxflags) -fno-rtti -fPIC -shared fe/lafacts.cc -o build/lafacts.so
fi
echo "setup ok"
