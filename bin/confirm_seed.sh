#!/bin/sh
# Confirm one seeded change against the CURRENT /repo head, entirely in scratch copies (never touches /repo):
#   applies, builds, the repository's suite still passes, the demonstration passes without the change and fails with it.
# usage: bin/confirm_seed.sh <dir with patch.diff + demo.c>   -> prints one JSON line
D=$1
P=$D/patch.diff
[ -f "$D/patch_rebased.diff" ] && P=$D/patch_rebased.diff
S=$(mktemp -d /tmp/la_seed.XXXXXX)
trap 'rm -rf "$S"' EXIT
rsync -a --exclude .git /repo/ "$S/base/"
rsync -a --exclude .git /repo/ "$S/mut/"
applies=no; suite=skipped; demo_base=skipped; demo_mut=skipped
if (cd "$S/mut" && patch -p1 --dry-run -s <"$P" >/dev/null 2>&1); then
  applies=yes
  (cd "$S/mut" && patch -p1 -s <"$P")
  out=$(LA_REPO="$S/mut" /verif/bin/baseline_off.sh 2>&1 | tail -1)
  case "$out" in *"missing: 0"*) suite=pass;; *) suite="FAIL($out)";; esac
  if [ -f "$D/demo.sh" ]; then          # demonstrations that need their own build configuration: demo.sh <tree root>
    timeout 600 sh "$D/demo.sh" "$S/base" >"$S/base.out" 2>&1; demo_base=$?
    timeout 600 sh "$D/demo.sh" "$S/mut" >"$S/mut.out" 2>&1; demo_mut=$?
  else
    [ -f "$D/nosan" ] && export NOSAN=1
    LA_SRC="$S/base" timeout 300 /verif/triage/asan_run.sh "$D/demo.c" >"$S/base.out" 2>&1; demo_base=$?
    LA_SRC="$S/mut" timeout 300 /verif/triage/asan_run.sh "$D/demo.c" >"$S/mut.out" 2>&1; demo_mut=$?
  fi
  tail -3 "$S/mut.out" | cut -c1-200 >"$D/.last_mut_tail" 2>/dev/null
fi
printf '{"id":"%s","patch":"%s","applies":"%s","suite":"%s","demo_without_change":%s,"demo_with_change":%s}\n' \
  "$(basename "$D")" "$(basename "$P")" "$applies" "$suite" "\"$demo_base\"" "\"$demo_mut\""
