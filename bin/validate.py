#!/usr/bin/env python3-vt
import json, jsonschema, glob, sys
ok=True
jsonschema.validate(json.load(open('/verif/MANIFEST.json')), json.load(open('/root/.vp/MANIFEST.schema.json')))
sch=json.load(open('/root/.vp/EVIDENCE.schema.json'))
for f in sorted(glob.glob('/verif/evidence/C*.json')):
    try:
        jsonschema.validate(json.load(open(f)), sch)
    except Exception as e:
        ok=False; print("INVALID", f, str(e)[:300])
print("valid" if ok else "invalid")
