#!/usr/bin/env python3
"""Derive the sub-agent prompts of the next round from the previous round's prompt files (the prompts themselves contain only the
property text, the agent's own worktree and the summaries of earlier changes - nothing from /verif).
usage: bin/mkprompts.py benign <prev dir> <prev tag> <new dir> <new tag> <old ids 'b5,b6'> <new ids 'b7,b8'>
       bin/mkprompts.py seeded <prev dir> <prev tag> <new dir> <new tag> <old id '5'> <new id '6'>"""
import json
import os
import re
import sys

kind, pdir, ptag, ndir, ntag, oids, nids = sys.argv[1:8]
oids, nids = oids.split(","), nids.split(",")
os.makedirs(ndir, exist_ok=True)
for i in range(1, 21):
    c = "C%02d" % i
    src = os.path.join(pdir, "prompt_%s_%s.txt" % (ptag, c))
    t = open(src).read()
    t = t.replace("/tmp/wt/%s_%s" % (ptag, c), "/tmp/wt/%s_%s" % (ntag, c)).replace(pdir, ndir)
    extra = []
    for o, n in zip(oids, nids):
        old = "%s-%s" % (c, o)
        t = t.replace(old, "%s-%s" % (c, n))
        m = os.path.join("/verif", "benign" if kind == "benign" else "seeded", old, "meta.json")
        if os.path.exists(m):
            s = json.load(open(m)).get("summary", "")
            extra.append("   * " + re.sub(r"\s+", " ", s)[:200])
    # append the summaries of the previous round to the list of earlier changes
    lines = t.split("\n")
    last = max((k for k, l in enumerate(lines) if l.startswith("   * ")), default=None)
    if last is not None and extra:
        lines[last + 1:last + 1] = extra
    open(os.path.join(ndir, "prompt_%s_%s.txt" % (ntag, c)), "w").write("\n".join(lines))
print("ok")
