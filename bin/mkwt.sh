#!/bin/sh
# scratch git worktree of /repo's HEAD, configured (ignored configure outputs copied, no objects); remove with
#   git -C /repo worktree remove --force <dir>
D=$1
git -C /repo worktree add -q --detach "$D" HEAD || exit 1
rsync -a --ignore-existing --exclude .git --exclude '*.o' --exclude '*.lo' --exclude '*.la' --exclude .libs --exclude .deps /repo/ "$D"/
mkdir -p "$D/src/.deps" "$D/test/.deps"
for f in /repo/src/.deps/*.Plo /repo/test/.deps/*.Po; do [ -f "$f" ] && echo '# dummy' > "$D/${f#/repo/}"; done
echo "$D"
