#!/bin/sh
# scratch tree = /repo's working tree taken back to revision <rev> (tracked files only), plus the patch of <dir>:
#   bin/mktree_at.sh <abs dir with patch.diff> <rev> [name]   -> /tmp/bn/<name>
D=$(cd "$1" && pwd); REV=$2; N=${3:-$(basename "$D")}
T=/tmp/bn/$N
rm -rf "$T"; mkdir -p /tmp/bn
rsync -a --exclude .git /repo/ "$T/"
git -C /repo diff HEAD "$REV" | (cd "$T" && patch -p1 -s) || { echo "cannot go back to $REV"; exit 1; }
(cd "$T" && patch -p1 -s <"$D/patch.diff") || { echo "patch does not apply at $REV"; exit 1; }
echo "$T"
