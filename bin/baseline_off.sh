#!/bin/sh
# Guard-off baseline: build a scratch copy of /repo (never /repo itself) without LIBAST_VERIF and run
# the repository's own suite; compare the "Testing ... passed" lines with BASELINE.json's stable_pass.
REPO=${LA_REPO:-/repo}
S=$(mktemp -d /tmp/la_base.XXXXXX)
trap 'rm -rf "$S"' EXIT
rsync -a --exclude .git "$REPO"/ "$S"/libast/
cd "$S/libast" || exit 2
find . -name '*.o' -o -name '*.lo' -o -name '*.la' | xargs rm -f
rm -rf src/.libs test/.libs
make -s -j16 >"$S/build.log" 2>&1 || { tail -30 "$S/build.log"; echo "BUILD FAILED"; exit 1; }
make -s test >"$S/test.log" 2>&1
python3 - "$S/test.log" <<'PY'
import json, re, sys
log = open(sys.argv[1], errors="replace").read()
base = json.load(open("/root/.vp/BASELINE.json"))["stable_pass"]
passed = set()
for m in re.finditer(r"(Testing .*?)\.\.\.\s*(passed|ok|PASS)", log):
    passed.add(m.group(1).strip())
missing = [t for t in base if t not in passed]
print("baseline tests: %d, passed in this run: %d, missing: %d" % (len(base), len(passed & set(base)), len(missing)))
for t in missing[:20]:
    print("  MISSING:", t)
sys.exit(1 if missing else 0)
PY
