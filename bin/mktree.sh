#!/bin/sh
# bin/mktree.sh <dir containing patch.diff> [name]  -> scratch copy of /repo with the patch applied at /tmp/bn/<name>; prints the path
D=$(cd "$1" && pwd); N=${2:-$(basename "$D")}
mkdir -p /tmp/bn; rm -rf "/tmp/bn/$N"
rsync -a --exclude .git /repo/ "/tmp/bn/$N/" || exit 2
(cd "/tmp/bn/$N" && patch -p1 -s < "$D/patch.diff" >/dev/null 2>&1) || { echo "PATCH FAILED: $D" >&2; exit 3; }
echo "/tmp/bn/$N"
