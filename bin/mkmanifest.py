import json
props=[json.loads(l) for l in open('/verif/properties.jsonl')]
claimed = json.load(open('/verif/tables/claims.json'))
checks=[]; na=[]
for p in props:
    pid=p['id']
    if pid in claimed:
        c=claimed[pid]
        checks.append({"property_id":pid,"quick_cmd":"bin/check %s --tier quick"%pid,"thorough_cmd":"bin/check %s --tier thorough"%pid,
          "evidence_file":"/verif/evidence/%s.json"%pid,"replay_cmd_template":"bin/check --replay {path}","engine":"la",
          "level_claimed":{"category":c.get("category","other"),"text":c["text"],"design_ref":c.get("design_ref","DESIGN.md §4 "+pid)},
          "level_note":c["note"],"technique":c["technique"]})
    else:
        na.append({"property_id":pid,"reason":claimed.get("_na",{}).get(pid,"static rules for this property are designed (DESIGN.md §4) but not yet built; nothing is claimed until the check exists")})
m={"version":1,"setup_cmd":"bin/setup.sh",
 "hooks":{"guard":"LIBAST_VERIF","enable":"none needed: static analysis reads /repo's source directly; no hook is compiled in","baseline_off_cmd":"bin/baseline_off.sh","source_commits":[],"add_only":True},
 "engines":[{"name":"la","path":"/verif/la","serves_properties":sorted(k for k in claimed if not k.startswith('_')),"kind_free_text":"custom static analyser: clang-14 frontend plugin (fe/lafacts.cc) emitting the type-resolved AST + clang CFG as facts; Python dataflow / typestate / abstract-interpretation rules per property (la/props)"}],
 "checks":checks,"not_applicable":na,
 "notes":"All checks are static: they never execute libast. Exit 0 = all obligations discharged or listed in known_findings.json; 1 = unlisted violation; 2 = analysis broken (never on the unchanged tree)."}
json.dump(m,open('/verif/MANIFEST.json','w'),indent=1)
print(len(checks),"claimed",len(na),"n/a")
