#!/usr/bin/env python3
"""Evaluate patches that no longer apply to /repo's head (later `fix:` commits touch the same lines) on the newest revision
they do apply to: the related checks are run on that revision's tree with and without the patch, and the patch counts as
silent when it adds no (function, rule, site) report to those of the clean tree of that revision (an old revision still
has the defects that were repaired later, so the clean tree is not silent itself).
usage: bin/sweep_at_base.py --dir D --out F [--jobs N] ids...      (never touches /repo: scratch copies under a temp dir)"""
import concurrent.futures
import json
import os
import re
import shutil
import subprocess
import sys
import tempfile

HERE = os.path.dirname(os.path.dirname(os.path.abspath(__file__)))
sys.path.insert(0, os.path.join(HERE, "bin"))
import sweep_seeded as SS


def tree_at(rev, dst):
    subprocess.check_call(["rsync", "-a", "--exclude", ".git", "/repo/", dst + "/"])
    d = subprocess.run(["git", "-C", "/repo", "diff", "HEAD", rev], stdout=subprocess.PIPE).stdout
    if d.strip():
        subprocess.run(["patch", "-p1", "-s"], cwd=dst, input=d, check=True, stdout=subprocess.PIPE, stderr=subprocess.STDOUT)


def applies(patch, tree):
    p = subprocess.run(["patch", "-p1", "-s", "--dry-run", "-i", patch], cwd=tree, stdout=subprocess.PIPE, stderr=subprocess.STDOUT)
    return p.returncode == 0


KEY = re.compile(r"^\S+:\d+: (\w+): rule (\w+) \(([^)]*)\)", re.M)


def run_checks(tree, checks, evdir):
    env = dict(os.environ, LA_REPO=tree, LA_EVIDENCE_DIR=evdir)
    os.makedirs(evdir, exist_ok=True)
    out = {}
    for c in checks:
        q = subprocess.run(["timeout", "1200", os.path.join(HERE, "bin", "check"), c], env=env, stdout=subprocess.PIPE, stderr=subprocess.STDOUT, text=True)
        out[c] = {"rc": q.returncode, "keys": sorted(set("%s/%s/%s" % m for m in KEY.findall(q.stdout)))}
    return out


def one(seed, sdir, revs):
    patch = os.path.join(sdir, seed, "patch.diff")
    s = tempfile.mkdtemp(prefix="la_base.")
    try:
        base = None
        for rev in revs:
            t = os.path.join(s, "t")
            shutil.rmtree(t, ignore_errors=True)
            tree_at(rev, t)
            if applies(patch, t):
                base = rev
                break
        if base is None:
            return seed, {"error": "applies to no revision"}
        SS.SEEDED = sdir
        checks = SS.related_checks(seed)
        clean = run_checks(t, checks, os.path.join(s, "ev0"))
        subprocess.check_call(["patch", "-p1", "-s", "-i", patch], cwd=t)
        patched = run_checks(t, checks, os.path.join(s, "ev1"))
        res = {"base": base, "checks": {}}
        silent = True
        for c in checks:
            # a report counts as the clean tree's own when the same rule reports the same site there, whichever function the
            # patch moved the code into
            rs = lambda k: tuple(k.split("/", 2)[1:])
            clean_rs = set(rs(k) for k in clean[c]["keys"])
            added = sorted(k for k in set(patched[c]["keys"]) - set(clean[c]["keys"]) if rs(k) not in clean_rs)
            moved = sorted(k for k in set(patched[c]["keys"]) - set(clean[c]["keys"]) if rs(k) in clean_rs)
            broke = patched[c]["rc"] == 2 and clean[c]["rc"] != 2
            res["checks"][c] = {"rc_clean": clean[c]["rc"], "rc_patched": patched[c]["rc"], "added": added, "moved_with_the_code": moved,
                                "clean_reports": clean[c]["keys"]}
            if added or broke or patched[c]["rc"] not in (0, 1, 2):
                silent = False
        res["silent"] = silent
        return seed, res
    finally:
        shutil.rmtree(s, ignore_errors=True)


def main():
    a = sys.argv[1:]
    def opt(name, default=None):
        if name in a:
            i = a.index(name)
            v = a[i + 1]
            del a[i:i + 2]
            return v
        return default
    sdir = opt("--dir", os.path.join(HERE, "benign"))
    outp = opt("--out", os.path.join(sdir, "RESULTS_AT_BASE.json"))
    jobs = int(opt("--jobs", "6"))
    revs = subprocess.run(["git", "-C", "/repo", "log", "--format=%h"], stdout=subprocess.PIPE, text=True).stdout.split()
    results = json.load(open(outp)) if os.path.exists(outp) else {}
    with concurrent.futures.ThreadPoolExecutor(max_workers=jobs) as ex:
        futs = [ex.submit(one, s_, sdir, revs) for s_ in a]
        for f in concurrent.futures.as_completed(futs):
            seed, res = f.result()
            results[seed] = res
            print(seed, "base=%s silent=%s" % (res.get("base"), res.get("silent")), {c: v["added"] for c, v in res.get("checks", {}).items() if v["added"] or v["rc_patched"] == 2} or "", res.get("error", ""), flush=True)
    json.dump(results, open(outp, "w"), indent=1, sort_keys=True)


if __name__ == "__main__":
    main()
