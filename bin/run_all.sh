#!/bin/sh
# bin/run_all.sh [quick|thorough]  -- every property check in parallel; prints exit code and summary per property
tier=${1:-quick}
cd "$(dirname "$0")/.."
out=$(mktemp -d /tmp/la_all.XXXXXX)
for i in 01 02 03 04 05 06 07 08 09 10 11 12 13 14 15 16 17 18 19 20; do
  ( timeout 1500 bin/check C$i --tier $tier > $out/C$i.log 2>&1; echo $? > $out/C$i.rc ) &
done
wait
rc=0
for i in 01 02 03 04 05 06 07 08 09 10 11 12 13 14 15 16 17 18 19 20; do
  r=$(cat $out/C$i.rc)
  [ "$r" != 0 ] && rc=1
  printf "C%s exit=%s %s\n" $i $r "$(grep -E '^(VIOLATION|ANALYSIS-BROKEN|KNOWN-FINDING)' $out/C$i.log | head -3 | tr '\n' ' ')"
  [ "$r" != 0 ] && grep -E "rule |Traceback|Error" $out/C$i.log | head -8
done
rm -rf $out
exit $rc
