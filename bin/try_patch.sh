#!/bin/sh
# usage: bin/try_patch.sh <patch.diff> <Cnn>...   (applies to /repo, runs the quick checks, reverts)
P=$1; shift
cd /repo || exit 2
git apply --check "$P" 2>/dev/null || { git apply --3way "$P" >/dev/null 2>&1 || { echo "PATCH DOES NOT APPLY: $P"; git checkout -- . ; exit 3; }; git reset -q; }
git apply "$P" 2>/dev/null
for c in "$@"; do
  out=$(timeout 300 /verif/bin/check $c 2>&1); rc=$?
  echo "== $c rc=$rc: $(echo "$out" | grep -c '^VIOLATION') violation(s)"
  echo "$out" | grep -v '^VIOLATION\|^KNOWN-FINDING' | grep -v "^$c:" | head -${TRYN:-4}
done
git checkout -- . ; git status --short | head -3
