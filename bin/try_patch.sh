#!/bin/sh
# usage: bin/try_patch.sh <patch.diff> <Cnn>...   (applies to /repo, runs the quick checks, reverts)
P=$1; shift
cd /repo || exit 2
if ! git apply --check "$P" 2>/dev/null; then echo "PATCH DOES NOT APPLY: $P"; exit 3; fi
git apply "$P"
for c in "$@"; do
  out=$(timeout 300 /verif/bin/check $c 2>&1); rc=$?
  echo "== $c rc=$rc: $(echo "$out" | grep -c '^VIOLATION') violation(s)"
  echo "$out" | grep -v '^VIOLATION\|^KNOWN-FINDING' | grep -v "^$c:" | cut -c1-400 | head -${TRYN:-4}
done
git checkout -- . ; git status --short | head -3
