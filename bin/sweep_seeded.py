#!/usr/bin/env python3
"""Run checks against every seeded change, each in its own scratch copy of /repo (LA_REPO), never touching /repo.
usage: bin/sweep_seeded.py [--all] [--jobs N] [ids...]      -> writes seeded/RESULTS.json (merged) and prints a table
Without --all each change is run against the check of its own property only."""
import concurrent.futures
import json
import os
import re
import shutil
import subprocess
import sys
import tempfile

HERE = os.path.dirname(os.path.dirname(os.path.abspath(__file__)))
SEEDED = os.path.join(HERE, "seeded")
ALL = ["C%02d" % i for i in range(1, 21)]


def one(seed, checks):
    d = os.path.join(SEEDED, seed)
    s = tempfile.mkdtemp(prefix="la_sweep.")
    try:
        repo = os.path.join(s, "repo")
        subprocess.check_call(["rsync", "-a", "--exclude", ".git", "/repo/", repo + "/"])
        p = subprocess.run(["patch", "-p1", "-s", "-i", os.path.join(d, "patch.diff")], cwd=repo, stdout=subprocess.PIPE, stderr=subprocess.STDOUT, text=True)
        if p.returncode != 0:
            return seed, {"error": "patch does not apply: " + p.stdout[:200]}
        res = {}
        env = dict(os.environ, LA_REPO=repo, LA_EVIDENCE_DIR=os.path.join(s, "ev"))
        os.makedirs(env["LA_EVIDENCE_DIR"], exist_ok=True)
        for c in checks:
            q = subprocess.run(["timeout", "900", os.path.join(HERE, "bin", "check"), c], env=env, stdout=subprocess.PIPE, stderr=subprocess.STDOUT, text=True)
            rules = sorted(set(re.findall(r": rule (\w+) \(", q.stdout)))
            first = ""
            for line in q.stdout.splitlines():
                if ": rule " in line:
                    first = line[:260]
                    break
            res[c] = {"rc": q.returncode, "violations": q.stdout.count("\nVIOLATION ") + (1 if q.stdout.startswith("VIOLATION ") else 0),
                      "rules": rules, "first": first}
            if q.returncode == 2:
                res[c]["broken"] = [l for l in q.stdout.splitlines() if "ANALYSIS-BROKEN" in l][:2]
        return seed, res
    finally:
        shutil.rmtree(s, ignore_errors=True)


# which checks analyse which source file (generous: a check is listed for every file it reads, directly or through callees)
FILE_CHECKS = {
    "str.c": ["C01", "C05", "C06", "C12", "C14", "C16", "C19"], "ustr.c": ["C01", "C05", "C06", "C16"],
    "mbuff.c": ["C05", "C06", "C07", "C16"], "obj.c": ["C05", "C06", "C16"], "objpair.c": ["C03", "C05", "C06", "C16"],
    "array.c": ["C02", "C03", "C04", "C05", "C06", "C16"], "linked_list.c": ["C02", "C03", "C04", "C05", "C06", "C16"],
    "dlinked_list.c": ["C02", "C03", "C04", "C05", "C06", "C16"], "conf.c": ["C09", "C10", "C11", "C16", "C17"],
    "file.c": ["C11", "C16"], "strings.c": ["C01", "C10", "C11", "C12", "C13", "C16", "C17"], "options.c": ["C08", "C16"],
    "mem.c": ["C15", "C16", "C20"], "socket.c": ["C05", "C06", "C16", "C19"], "url.c": ["C05", "C06", "C14", "C16", "C19"],
    "tok.c": ["C05", "C06", "C12", "C16"], "regexp.c": ["C05", "C06", "C16"], "builtin_hashes.c": ["C18"],
    "msgs.c": ["C16", "C17", "C20"], "debug.c": ["C20"], "module.c": ["C05", "C06", "C16"], "snprintf.c": [], "avl_tree.c": [],
}


def related_checks(seed):
    d = os.path.join(SEEDED, seed)
    out = {seed[:3]}
    try:
        txt = open(os.path.join(d, "patch.diff"), errors="replace").read()
    except OSError:
        return sorted(out)
    for m in re.finditer(r"^\+\+\+ \S*?([\w.]+)\s*$", txt, re.M):
        fn = m.group(1)
        if fn.endswith(".h") or fn.endswith(".h.in"):
            return ALL                      # a header reaches every unit
        out.update(FILE_CHECKS.get(fn, ALL))
    return sorted(out)


def main():
    global SEEDED
    args = sys.argv[1:]
    allc = "--all" in args
    jobs = 6
    if "--jobs" in args:
        i = args.index("--jobs")
        jobs = int(args[i + 1])
        del args[i:i + 2]
    out_path = os.path.join(SEEDED, "RESULTS.json")
    if "--out" in args:
        i = args.index("--out")
        out_path = args[i + 1]
        del args[i:i + 2]
    related = "--related" in args       # the property's own check plus every check that analyses a file the patch touches
    if related:
        args.remove("--related")
    only = None
    if "--checks" in args:
        i = args.index("--checks")
        only = args[i + 1].split(",")
        del args[i:i + 2]
    if "--dir" in args:
        i = args.index("--dir")
        SEEDED = args[i + 1]
        del args[i:i + 2]
        if out_path == os.path.join(HERE, "seeded", "RESULTS.json"):
            out_path = os.path.join(SEEDED, "RESULTS.json")
    ids = [a for a in args if not a.startswith("--")] or sorted(x for x in os.listdir(SEEDED) if re.match(r"C\d\d-b?\d+$", x))
    results = {}
    if os.path.exists(out_path):
        results = json.load(open(out_path))
    with concurrent.futures.ThreadPoolExecutor(max_workers=jobs) as ex:
        futs = [ex.submit(one, s, only or (ALL if allc else (related_checks(s) if related else [s[:3]]))) for s in ids]
        for f in concurrent.futures.as_completed(futs):
            seed, res = f.result()
            results.setdefault(seed, {}).update(res)
            own = res.get(seed[:3], {})
            others = [c for c, r in res.items() if isinstance(r, dict) and r.get("rc") == 1 and c != seed[:3]]
            print("%s own-check rc=%s rules=%s %s" % (seed, own.get("rc"), ",".join(own.get("rules", [])), ("also: " + ",".join(others)) if others else ""), flush=True)
    json.dump(results, open(out_path, "w"), indent=1, sort_keys=True)


if __name__ == "__main__":
    main()
