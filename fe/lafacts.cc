// lafacts: clang-14 frontend plugin that serialises the type-resolved program of one
// translation unit as JSON facts: structured statement trees (every DeclRefExpr resolved,
// constant expressions evaluated, macro provenance attached), the clang CFG of every
// function body (all sub-expressions as elements), global initialisers (class tables),
// record layouts and prototypes with the header they were declared in.
//
// Usage: clang -fsyntax-only -fplugin=lafacts.so -Xclang -plugin -Xclang lafacts
//              -Xclang -plugin-arg-lafacts -Xclang out=<file.json> <flags> unit.c
#include "clang/AST/ASTConsumer.h"
#include "clang/AST/ASTContext.h"
#include "clang/AST/Attr.h"
#include "clang/AST/Decl.h"
#include "clang/AST/Expr.h"
#include "clang/AST/RecordLayout.h"
#include "clang/AST/Stmt.h"
#include "clang/Analysis/CFG.h"
#include "clang/Basic/SourceManager.h"
#include "clang/Frontend/CompilerInstance.h"
#include "clang/Frontend/FrontendPluginRegistry.h"
#include "clang/Lex/Lexer.h"
#include "llvm/Support/JSON.h"
#include "llvm/Support/raw_ostream.h"
#include <map>
#include <set>
#include <string>
#include <vector>

using namespace clang;

namespace {

class Emitter {
public:
  Emitter(ASTContext &C, llvm::json::OStream &J) : Ctx(C), SM(C.getSourceManager()), J(J) {}

  ASTContext &Ctx;
  SourceManager &SM;
  llvm::json::OStream &J;
  std::map<const Stmt *, int> StmtId;
  std::map<const Decl *, int> DeclStmtOf;   // VarDecl -> id of the DeclStmt that declares it
  std::map<const Decl *, int> DeclId;
  std::map<std::string, int> FileId;
  std::vector<std::string> Files;
  int NextStmt = 0;
  int NextDecl = 1;

  int declId(const Decl *D) {
    if (!D) return 0;
    D = D->getCanonicalDecl();
    auto It = DeclId.find(D);
    if (It != DeclId.end()) return It->second;
    int Id = NextDecl++;
    DeclId[D] = Id;
    return Id;
  }

  int fileId(StringRef Name) {
    std::string S = Name.str();
    auto It = FileId.find(S);
    if (It != FileId.end()) return It->second;
    int Id = Files.size();
    Files.push_back(S);
    FileId[S] = Id;
    return Id;
  }

  void emitLoc(SourceLocation L) {
    if (L.isInvalid()) return;
    SourceLocation E = SM.getExpansionLoc(L);
    PresumedLoc P = SM.getPresumedLoc(E);
    if (P.isValid()) {
      J.attribute("f", fileId(P.getFilename()));
      J.attribute("l", (int64_t)P.getLine());
      J.attribute("c", (int64_t)P.getColumn());
    }
    if (L.isMacroID()) {
      // spelling position too (where the token text lives), for diagnostics
      PresumedLoc S = SM.getPresumedLoc(SM.getSpellingLoc(L));
      if (S.isValid()) {
        J.attribute("sf", fileId(S.getFilename()));
        J.attribute("sl", (int64_t)S.getLine());
      }
      J.attributeArray("m", [&] {
        SourceLocation Cur = L;
        int Guard = 0;
        while (Cur.isMacroID() && Guard++ < 64) {
          if (SM.isMacroArgExpansion(Cur)) {
            SourceLocation In = SM.getImmediateExpansionRange(Cur).getBegin();
            StringRef N = Lexer::getImmediateMacroName(In, SM, Ctx.getLangOpts());
            J.value(("a:" + N).str());
            Cur = SM.getImmediateSpellingLoc(Cur);
          } else {
            StringRef N = Lexer::getImmediateMacroName(Cur, SM, Ctx.getLangOpts());
            J.value(("b:" + N).str());
            Cur = SM.getImmediateExpansionRange(Cur).getBegin();
          }
        }
      });
    }
  }

  void emitType(QualType T, const char *Key = "t") {
    if (T.isNull()) return;
    J.attribute(Key, T.getAsString());
    QualType CT = T.getCanonicalType();
    std::string CS = CT.getAsString();
    if (CS != T.getAsString()) J.attribute(std::string(Key) + "c", CS);
    if (CT->isPointerType() || CT->isArrayType()) {
      J.attribute(std::string(Key) + "p", 1);
    } else if (CT->isIntegralOrEnumerationType() && !CT->isDependentType() && !CT->isIncompleteType()) {
      J.attribute(std::string(Key) + "w", (int64_t)Ctx.getTypeSize(CT));
      J.attribute(std::string(Key) + "s", CT->isSignedIntegerOrEnumerationType() ? 1 : 0);
    }
  }

  void emitDeclRef(const ValueDecl *D) {
    if (!D) return;
    J.attribute("n", D->getNameAsString());
    J.attribute("d", declId(D));
    if (isa<ParmVarDecl>(D)) {
      J.attribute("rk", "param");
      J.attribute("pi", (int64_t)cast<ParmVarDecl>(D)->getFunctionScopeIndex());
    } else if (auto *V = dyn_cast<VarDecl>(D)) {
      if (V->isLocalVarDecl())
        J.attribute("rk", V->isStaticLocal() ? "slocal" : "local");
      else
        J.attribute("rk", "global");
    } else if (isa<FunctionDecl>(D)) {
      J.attribute("rk", "func");
    } else if (isa<EnumConstantDecl>(D)) {
      J.attribute("rk", "enum");
    } else {
      J.attribute("rk", "other");
    }
  }

  void emitVarDecl(const VarDecl *V) {
    J.object([&] {
      J.attribute("k", "var");
      J.attribute("n", V->getNameAsString());
      J.attribute("d", declId(V));
      emitType(V->getType());
      emitLoc(V->getLocation());
      if (V->isStaticLocal()) J.attribute("static", 1);
      if (auto *AT = Ctx.getAsConstantArrayType(V->getType())) {
        J.attribute("alen", (int64_t)AT->getSize().getZExtValue());
        J.attribute("esz", (int64_t)Ctx.getTypeSizeInChars(AT->getElementType()).getQuantity());
      }
      if (V->hasInit()) {
        J.attributeBegin("init");
        emitStmt(V->getInit());
        J.attributeEnd();
      }
    });
  }

  void emitStmt(const Stmt *S) {
    if (!S) {
      J.value(nullptr);
      return;
    }
    int Id = NextStmt++;
    StmtId[S] = Id;
    J.object([&] {
      J.attribute("i", Id);
      emitLoc(S->getBeginLoc());
      if (auto *E = dyn_cast<Expr>(S)) {
        emitType(E->getType());
        if (!E->isValueDependent() && !isa<InitListExpr>(E)) {
          Expr::EvalResult R;
          if (E->getType()->isIntegralOrEnumerationType() && E->EvaluateAsInt(R, Ctx, Expr::SE_NoSideEffects)) {
            J.attribute("cv", R.Val.getInt().getExtValue());
          } else if (E->getType()->isPointerType() &&
                     E->isNullPointerConstant(Ctx, Expr::NPC_ValueDependentIsNotNull) != Expr::NPCK_NotNull) {
            J.attribute("null", 1);
          }
        }
      }
      bool Generic = false;
      switch (S->getStmtClass()) {
      case Stmt::DeclRefExprClass: {
        J.attribute("k", "ref");
        emitDeclRef(cast<DeclRefExpr>(S)->getDecl());
        break;
      }
      case Stmt::MemberExprClass: {
        auto *M = cast<MemberExpr>(S);
        J.attribute("k", "member");
        J.attribute("n", M->getMemberDecl()->getNameAsString());
        J.attribute("arrow", M->isArrow() ? 1 : 0);
        if (auto *FD = dyn_cast<FieldDecl>(M->getMemberDecl())) {
          const RecordDecl *RD = FD->getParent();
          std::string RN = RD->getNameAsString();
          if (RN.empty())
            if (auto *TD = RD->getTypedefNameForAnonDecl()) RN = TD->getNameAsString();
          J.attribute("rec", RN);
        }
        Generic = true;
        break;
      }
      case Stmt::CallExprClass: {
        auto *C = cast<CallExpr>(S);
        J.attribute("k", "call");
        if (auto *FD = C->getDirectCallee()) {
          J.attribute("callee", FD->getNameAsString());
          J.attribute("cd", declId(FD));
          if (FD->isNoReturn() || FD->hasAttr<NoReturnAttr>()) J.attribute("noret", 1);
          if (FD->getBuiltinID()) J.attribute("builtin", 1);
        }
        Generic = true;
        break;
      }
      case Stmt::BinaryOperatorClass:
      case Stmt::CompoundAssignOperatorClass: {
        auto *B = cast<BinaryOperator>(S);
        J.attribute("k", B->isAssignmentOp() ? "assign" : "bin");
        J.attribute("op", B->getOpcodeStr());
        if (auto *CA = dyn_cast<CompoundAssignOperator>(S)) emitType(CA->getComputationResultType(), "crt");
        Generic = true;
        break;
      }
      case Stmt::UnaryOperatorClass: {
        auto *U = cast<UnaryOperator>(S);
        J.attribute("k", "un");
        J.attribute("op", UnaryOperator::getOpcodeStr(U->getOpcode()));
        if (U->isPostfix()) J.attribute("post", 1);
        Generic = true;
        break;
      }
      case Stmt::IntegerLiteralClass:
        J.attribute("k", "int");
        break;
      case Stmt::CharacterLiteralClass:
        J.attribute("k", "char");
        break;
      case Stmt::FloatingLiteralClass:
        J.attribute("k", "float");
        J.attribute("fv", cast<FloatingLiteral>(S)->getValueAsApproximateDouble());
        break;
      case Stmt::StringLiteralClass: {
        auto *SL = cast<StringLiteral>(S);
        J.attribute("k", "str");
        if (SL->getCharByteWidth() == 1) J.attribute("sv", SL->getBytes());
        J.attribute("slen", (int64_t)SL->getLength());
        break;
      }
      case Stmt::PredefinedExprClass:
        J.attribute("k", "predef");
        break;
      case Stmt::ImplicitCastExprClass: {
        auto *C = cast<CastExpr>(S);
        J.attribute("k", "icast");
        J.attribute("ck", C->getCastKindName());
        Generic = true;
        break;
      }
      case Stmt::CStyleCastExprClass: {
        auto *C = cast<CastExpr>(S);
        J.attribute("k", "cast");
        J.attribute("ck", C->getCastKindName());
        Generic = true;
        break;
      }
      case Stmt::ParenExprClass:
        J.attribute("k", "paren");
        Generic = true;
        break;
      case Stmt::ConditionalOperatorClass:
        J.attribute("k", "cond");
        Generic = true;
        break;
      case Stmt::BinaryConditionalOperatorClass:
        J.attribute("k", "bcond");
        Generic = true;
        break;
      case Stmt::ArraySubscriptExprClass:
        J.attribute("k", "index");
        Generic = true;
        break;
      case Stmt::StmtExprClass:
        J.attribute("k", "stmtexpr");
        Generic = true;
        break;
      case Stmt::InitListExprClass: {
        J.attribute("k", "initlist");
        auto *IL = cast<InitListExpr>(S);
        if (IL->isSemanticForm() || !IL->getSemanticForm()) {
          Generic = true;
        } else {
          J.attributeArray("ch", [&] { emitStmt(IL->getSemanticForm()); });
        }
        break;
      }
      case Stmt::ImplicitValueInitExprClass:
        J.attribute("k", "zeroinit");
        break;
      case Stmt::UnaryExprOrTypeTraitExprClass: {
        auto *U = cast<UnaryExprOrTypeTraitExpr>(S);
        J.attribute("k", "sizeof");
        if (U->isArgumentType())
          J.attribute("of", U->getArgumentType().getAsString());
        else {
          J.attributeBegin("arg");
          emitStmt(U->getArgumentExpr());
          J.attributeEnd();
        }
        break;
      }
      case Stmt::VAArgExprClass:
        J.attribute("k", "vaarg");
        Generic = true;
        break;
      case Stmt::CompoundLiteralExprClass:
        J.attribute("k", "compoundlit");
        Generic = true;
        break;
      case Stmt::OffsetOfExprClass:
        J.attribute("k", "offsetof");
        break;
      // ---- statements
      case Stmt::CompoundStmtClass:
        J.attribute("k", "block");
        Generic = true;
        break;
      case Stmt::DeclStmtClass: {
        J.attribute("k", "decl");
        for (auto *D : cast<DeclStmt>(S)->decls()) DeclStmtOf[D] = Id;
        J.attributeArray("decls", [&] {
          for (auto *D : cast<DeclStmt>(S)->decls())
            if (auto *V = dyn_cast<VarDecl>(D)) emitVarDecl(V);
        });
        break;
      }
      case Stmt::IfStmtClass: {
        auto *I = cast<IfStmt>(S);
        J.attribute("k", "if");
        J.attributeBegin("cond"); emitStmt(I->getCond()); J.attributeEnd();
        J.attributeBegin("then"); emitStmt(I->getThen()); J.attributeEnd();
        if (I->getElse()) { J.attributeBegin("else"); emitStmt(I->getElse()); J.attributeEnd(); }
        break;
      }
      case Stmt::WhileStmtClass: {
        auto *W = cast<WhileStmt>(S);
        J.attribute("k", "while");
        J.attributeBegin("cond"); emitStmt(W->getCond()); J.attributeEnd();
        J.attributeBegin("body"); emitStmt(W->getBody()); J.attributeEnd();
        break;
      }
      case Stmt::DoStmtClass: {
        auto *W = cast<DoStmt>(S);
        J.attribute("k", "do");
        J.attributeBegin("body"); emitStmt(W->getBody()); J.attributeEnd();
        J.attributeBegin("cond"); emitStmt(W->getCond()); J.attributeEnd();
        break;
      }
      case Stmt::ForStmtClass: {
        auto *F = cast<ForStmt>(S);
        J.attribute("k", "for");
        if (F->getInit()) { J.attributeBegin("init"); emitStmt(F->getInit()); J.attributeEnd(); }
        if (F->getCond()) { J.attributeBegin("cond"); emitStmt(F->getCond()); J.attributeEnd(); }
        if (F->getInc()) { J.attributeBegin("inc"); emitStmt(F->getInc()); J.attributeEnd(); }
        J.attributeBegin("body"); emitStmt(F->getBody()); J.attributeEnd();
        break;
      }
      case Stmt::SwitchStmtClass: {
        auto *W = cast<SwitchStmt>(S);
        J.attribute("k", "switch");
        J.attributeBegin("cond"); emitStmt(W->getCond()); J.attributeEnd();
        J.attributeBegin("body"); emitStmt(W->getBody()); J.attributeEnd();
        break;
      }
      case Stmt::CaseStmtClass: {
        auto *C = cast<CaseStmt>(S);
        J.attribute("k", "case");
        J.attributeBegin("val"); emitStmt(C->getLHS()); J.attributeEnd();
        J.attributeBegin("sub"); emitStmt(C->getSubStmt()); J.attributeEnd();
        break;
      }
      case Stmt::DefaultStmtClass: {
        J.attribute("k", "default");
        J.attributeBegin("sub"); emitStmt(cast<DefaultStmt>(S)->getSubStmt()); J.attributeEnd();
        break;
      }
      case Stmt::BreakStmtClass: J.attribute("k", "break"); break;
      case Stmt::ContinueStmtClass: J.attribute("k", "continue"); break;
      case Stmt::NullStmtClass: J.attribute("k", "null"); break;
      case Stmt::ReturnStmtClass: {
        J.attribute("k", "return");
        if (auto *V = cast<ReturnStmt>(S)->getRetValue()) { J.attributeBegin("val"); emitStmt(V); J.attributeEnd(); }
        break;
      }
      case Stmt::GotoStmtClass:
        J.attribute("k", "goto");
        J.attribute("n", cast<GotoStmt>(S)->getLabel()->getNameAsString());
        break;
      case Stmt::LabelStmtClass: {
        J.attribute("k", "label");
        J.attribute("n", cast<LabelStmt>(S)->getDecl()->getNameAsString());
        J.attributeBegin("sub"); emitStmt(cast<LabelStmt>(S)->getSubStmt()); J.attributeEnd();
        break;
      }
      default:
        J.attribute("k", std::string("other:") + S->getStmtClassName());
        Generic = true;
        break;
      }
      if (Generic) {
        J.attributeArray("ch", [&] {
          for (const Stmt *C : S->children()) emitStmt(C);
        });
      }
    });
  }

  void emitCFG(const FunctionDecl *FD) {
    CFG::BuildOptions BO;
    BO.setAllAlwaysAdd();
    BO.PruneTriviallyFalseEdges = false;
    std::unique_ptr<CFG> G = CFG::buildCFG(FD, FD->getBody(), &Ctx, BO);
    if (!G) return;
    J.attributeObject("cfg", [&] {
      J.attribute("entry", (int64_t)G->getEntry().getBlockID());
      J.attribute("exit", (int64_t)G->getExit().getBlockID());
      J.attributeArray("blocks", [&] {
        for (const CFGBlock *B : *G) {
          J.object([&] {
            J.attribute("id", (int64_t)B->getBlockID());
            J.attributeArray("el", [&] {
              for (const CFGElement &E : *B) {
                if (auto CS = E.getAs<CFGStmt>()) {
                  auto It = StmtId.find(CS->getStmt());
                  int V = It == StmtId.end() ? -1 : It->second;
                  if (V < 0) {
                    // clang splits `T a = x, b;` into synthetic one-variable DeclStmts: map them back to the original
                    if (auto *DS = dyn_cast<DeclStmt>(CS->getStmt()))
                      if (DS->isSingleDecl()) {
                        auto Jt = DeclStmtOf.find(DS->getSingleDecl());
                        if (Jt != DeclStmtOf.end()) V = Jt->second;
                      }
                  }
                  J.value(V);
                }
              }
            });
            if (const Stmt *T = B->getTerminatorStmt()) {
              auto It = StmtId.find(T);
              J.attribute("term", It == StmtId.end() ? -1 : It->second);
              J.attribute("termk", T->getStmtClassName());
            }
            if (const Stmt *TC = B->getTerminatorCondition(false)) {
              auto It = StmtId.find(TC);
              J.attribute("cond", It == StmtId.end() ? -1 : It->second);
            }
            if (const Stmt *L = B->getLabel()) {
              auto It = StmtId.find(L);
              J.attribute("label", It == StmtId.end() ? -1 : It->second);
            }
            if (B->hasNoReturnElement()) J.attribute("noret", 1);
            J.attributeArray("succ", [&] {
              for (auto SI = B->succ_begin(); SI != B->succ_end(); ++SI) {
                const CFGBlock *SB = SI->getReachableBlock();
                if (!SB) SB = SI->getPossiblyUnreachableBlock();
                if (SB)
                  J.value((int64_t)SB->getBlockID());
                else
                  J.value(nullptr);
              }
            });
          });
        }
      });
    });
  }

  std::string fileOf(SourceLocation L) {
    PresumedLoc P = SM.getPresumedLoc(SM.getExpansionLoc(L));
    return P.isValid() ? std::string(P.getFilename()) : std::string();
  }

  void emitFunctionHeader(const FunctionDecl *FD) {
    J.attribute("n", FD->getNameAsString());
    J.attribute("d", declId(FD));
    emitLoc(FD->getLocation());
    J.attribute("static", FD->getStorageClass() == SC_Static ? 1 : 0);
    J.attribute("inmain", SM.isInMainFile(SM.getExpansionLoc(FD->getLocation())) ? 1 : 0);
    emitType(FD->getReturnType(), "ret");
    if (FD->isVariadic()) J.attribute("variadic", 1);
    if (FD->isNoReturn()) J.attribute("noret", 1);
    J.attributeArray("params", [&] {
      for (const ParmVarDecl *P : FD->parameters()) {
        J.object([&] {
          J.attribute("n", P->getNameAsString());
          J.attribute("d", declId(P));
          emitType(P->getType());
        });
      }
    });
  }
};

class Consumer : public ASTConsumer {
  std::string Out;

public:
  explicit Consumer(std::string O) : Out(std::move(O)) {}

  void HandleTranslationUnit(ASTContext &Ctx) override {
    std::error_code EC;
    llvm::raw_fd_ostream OS(Out, EC);
    if (EC) {
      llvm::errs() << "lafacts: cannot open " << Out << "\n";
      return;
    }
    llvm::json::OStream J(OS, 0);
    Emitter E(Ctx, J);
    SourceManager &SM = Ctx.getSourceManager();
    TranslationUnitDecl *TU = Ctx.getTranslationUnitDecl();
    J.object([&] {
      if (const FileEntry *FE = SM.getFileEntryForID(SM.getMainFileID())) J.attribute("main", FE->getName());
      J.attributeArray("functions", [&] {
        for (Decl *D : TU->decls()) {
          auto *FD = dyn_cast<FunctionDecl>(D);
          if (!FD || !FD->doesThisDeclarationHaveABody()) continue;
          J.object([&] {
            E.emitFunctionHeader(FD);
            J.attribute("endl", (int64_t)SM.getPresumedLoc(SM.getExpansionLoc(FD->getEndLoc())).getLine());
            J.attributeBegin("body");
            E.emitStmt(FD->getBody());
            J.attributeEnd();
            E.emitCFG(FD);
          });
        }
      });
      J.attributeArray("protos", [&] {
        for (Decl *D : TU->decls()) {
          auto *FD = dyn_cast<FunctionDecl>(D);
          if (!FD) continue;
          if (SM.isInSystemHeader(SM.getExpansionLoc(FD->getLocation()))) continue;
          J.object([&] {
            E.emitFunctionHeader(FD);
            J.attribute("def", FD->doesThisDeclarationHaveABody() ? 1 : 0);
            J.attribute("extern", FD->getStorageClass() == SC_Extern ? 1 : 0);
          });
        }
      });
      J.attributeArray("globals", [&] {
        for (Decl *D : TU->decls()) {
          auto *VD = dyn_cast<VarDecl>(D);
          if (!VD) continue;
          J.object([&] {
            J.attribute("n", VD->getNameAsString());
            J.attribute("d", E.declId(VD));
            E.emitType(VD->getType());
            E.emitLoc(VD->getLocation());
            J.attribute("static", VD->getStorageClass() == SC_Static ? 1 : 0);
            J.attribute("extern", VD->getStorageClass() == SC_Extern ? 1 : 0);
            J.attribute("inmain", SM.isInMainFile(SM.getExpansionLoc(VD->getLocation())) ? 1 : 0);
            if (VD->hasInit()) {
              J.attributeBegin("init");
              E.emitStmt(VD->getInit());
              J.attributeEnd();
            }
          });
        }
      });
      J.attributeArray("records", [&] {
        std::set<const RecordDecl *> Seen;
        std::function<void(const DeclContext *)> Walk = [&](const DeclContext *DC) {
          for (Decl *D : DC->decls()) {
            const RecordDecl *RD = dyn_cast<RecordDecl>(D);
            if (!RD) {
              if (auto *TD = dyn_cast<TypedefNameDecl>(D)) {
                if (auto *RT = TD->getUnderlyingType()->getAs<RecordType>()) RD = RT->getDecl();
              }
            }
            if (!RD) continue;
            RD = RD->getDefinition();
            if (!RD || Seen.count(RD) || RD->isInvalidDecl()) continue;
            if (SM.isInSystemHeader(SM.getExpansionLoc(RD->getLocation()))) continue;
            Seen.insert(RD);
            std::string RN = RD->getNameAsString();
            if (RN.empty())
              if (auto *TD = RD->getTypedefNameForAnonDecl()) RN = TD->getNameAsString();
            if (RN.empty()) continue;
            J.object([&] {
              J.attribute("n", RN);
              J.attribute("union", RD->isUnion() ? 1 : 0);
              E.emitLoc(RD->getLocation());
              const ASTRecordLayout &L = Ctx.getASTRecordLayout(RD);
              J.attribute("size", (int64_t)L.getSize().getQuantity());
              J.attributeArray("fields", [&] {
                unsigned I = 0;
                for (const FieldDecl *F : RD->fields()) {
                  J.object([&] {
                    J.attribute("n", F->getNameAsString());
                    E.emitType(F->getType());
                    J.attribute("off", (int64_t)L.getFieldOffset(I));
                    if (auto *RT = F->getType()->getAs<RecordType>()) {
                      std::string SN = RT->getDecl()->getNameAsString();
                      if (SN.empty())
                        if (auto *TD = RT->getDecl()->getTypedefNameForAnonDecl()) SN = TD->getNameAsString();
                      J.attribute("rec", SN);
                    }
                  });
                  ++I;
                }
              });
            });
          }
        };
        Walk(TU);
      });
      J.attributeArray("files", [&] {
        for (auto &F : E.Files) J.value(F);
      });
    });
    OS << "\n";
  }
};

class Action : public PluginASTAction {
  std::string Out = "lafacts.json";

protected:
  std::unique_ptr<ASTConsumer> CreateASTConsumer(CompilerInstance &, llvm::StringRef) override {
    return std::make_unique<Consumer>(Out);
  }
  bool ParseArgs(const CompilerInstance &, const std::vector<std::string> &Args) override {
    for (auto &A : Args)
      if (A.rfind("out=", 0) == 0) Out = A.substr(4);
    return true;
  }
};

} // namespace

static FrontendPluginRegistry::Add<Action> X("lafacts", "emit libast analysis facts as JSON");
