/* Reference definitions of libast's built-in hashes, written from the published algorithms the
 * source comments cite.  Parsed by the same front end as libast and compared in normal form by
 * la/props/C18.py; never compiled into anything and never executed.
 *
 *  - Bob Jenkins, "Hash Functions", Dr. Dobb's Journal, Sept. 1997 (lookup2, December 1996):
 *    12-byte blocks assembled little-endian, mix() with shifts 13,8,13,12,16,5,3,10,15, length added
 *    to c, fall-through tail, final mix, returns c.  libast's documented choice for the arbitrary
 *    initial value of a and b is 0xf721b64d ("can be any 32-bit value").
 *  - Jenkins' one-at-a-time and rotating hashes (same article); libast replaces a zero seed by 0xf721b64d.
 *  - FNV-1a 32 bit (Fowler/Noll/Vo): offset basis 0x811c9dc5 substituted for a zero seed, prime 0x01000193.
 */
typedef unsigned int u32;
typedef unsigned char u8;

#define REF_GOLDEN 0xf721b64dU

#define ref_mix(a, b, c) \
    { \
        a -= b; a -= c; a ^= (c >> 13); \
        b -= c; b -= a; b ^= (a << 8); \
        c -= a; c -= b; c ^= (b >> 13); \
        a -= b; a -= c; a ^= (c >> 12); \
        b -= c; b -= a; b ^= (a << 16); \
        c -= a; c -= b; c ^= (b >> 5); \
        a -= b; a -= c; a ^= (c >> 3); \
        b -= c; b -= a; b ^= (a << 10); \
        c -= a; c -= b; c ^= (b >> 15); \
    }

u32
ref_jenkins(u8 *k, u32 length, u32 initval)
{
    u32 a, b, c, len;

    len = length;
    a = b = REF_GOLDEN;
    c = initval;
    while (len >= 12) {
        a += (k[0] + ((u32) k[1] << 8) + ((u32) k[2] << 16) + ((u32) k[3] << 24));
        b += (k[4] + ((u32) k[5] << 8) + ((u32) k[6] << 16) + ((u32) k[7] << 24));
        c += (k[8] + ((u32) k[9] << 8) + ((u32) k[10] << 16) + ((u32) k[11] << 24));
        ref_mix(a, b, c);
        k += 12;
        len -= 12;
    }
    c += length;
    switch (len) {
        case 11: c += ((u32) k[10] << 24);
        case 10: c += ((u32) k[9] << 16);
        case 9: c += ((u32) k[8] << 8);
        case 8: b += ((u32) k[7] << 24);
        case 7: b += ((u32) k[6] << 16);
        case 6: b += ((u32) k[5] << 8);
        case 5: b += k[4];
        case 4: a += ((u32) k[3] << 24);
        case 3: a += ((u32) k[2] << 16);
        case 2: a += ((u32) k[1] << 8);
        case 1: a += k[0];
    }
    ref_mix(a, b, c);
    return c;
}

/* lookup2's hash2(): keys are arrays of 32-bit words, length counted in words */
u32
ref_jenkins32(u8 *key, u32 length, u32 initval)
{
    u32 a, b, c, len;
    u32 *k = (u32 *) key;

    len = length;
    a = b = REF_GOLDEN;
    c = initval;
    while (len >= 3) {
        a += k[0];
        b += k[1];
        c += k[2];
        ref_mix(a, b, c);
        k += 3;
        len -= 3;
    }
    c += length;
    switch (len) {
        case 2: b += k[1];
        case 1: a += k[0];
    }
    ref_mix(a, b, c);
    return c;
}

u32
ref_rotating(u8 *key, u32 len, u32 seed)
{
    u32 hash, i;

    if (seed == 0) {
        seed = REF_GOLDEN;
    }
    for (hash = seed, i = 0; i < len; i++) {
        hash = (hash << 4) ^ (hash >> 28) ^ key[i];
    }
    return (hash ^ (hash >> 10) ^ (hash >> 20));
}

u32
ref_one_at_a_time(u8 *key, u32 len, u32 seed)
{
    u32 hash, i;

    if (seed == 0) {
        seed = REF_GOLDEN;
    }
    for (hash = seed, i = 0; i < len; i++) {
        hash += key[i];
        hash += (hash << 10);
        hash ^= (hash >> 6);
    }
    hash += (hash << 3);
    hash ^= (hash >> 11);
    hash += (hash << 15);
    return hash;
}

u32
ref_fnv(u8 *key, u32 len, u32 seed)
{
    u8 *end = key + len;
    u32 hash;

    if (seed == 0) {
        seed = 0x811c9dc5U;
    }
    for (hash = seed; key < end; key++) {
        hash ^= (u32) *key;
        hash *= 0x01000193U;
    }
    return hash;
}
