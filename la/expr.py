"""Expression utilities over the fact tree: cast/paren stripping, access paths, nullness
implications of branch conditions, constant folding helpers, rendering."""
from .facts import kids, walk

TRANSPARENT_CASTS = {"NoOp", "BitCast", "LValueToRValue", "LValueBitCast", "FunctionToPointerDecay",
                     "ArrayToPointerDecay", "NullToPointer", "IntegralCast", "PointerToIntegral",
                     "IntegralToPointer", "IntegralToBoolean", "PointerToBoolean", "ToVoid",
                     "BuiltinFnToFnPtr", "FloatingCast", "IntegralToFloating", "FloatingToIntegral"}


def strip(n, keep_int_casts=False):
    """Fold parens and value-preserving casts."""
    while n is not None:
        k = n.get("k")
        if k == "paren":
            n = n["ch"][0]
        elif k in ("icast", "cast"):
            if keep_int_casts and n.get("ck") in ("IntegralCast", "FloatingToIntegral", "PointerToIntegral"):
                return n
            n = n["ch"][0]
        elif k == "stmtexpr":
            # ({ ...; v; }) with a single expression statement: fold
            blk = n["ch"][0]
            ch = blk.get("ch", [])
            if len(ch) == 1 and ch[0].get("k") not in ("decl", "if", "while", "do", "for", "switch", "return"):
                n = ch[0]
            else:
                return n
        else:
            return n
    return n


def is_null_const(n):
    s = strip(n)
    if s is None:
        return False
    if n.get("null") or s.get("null"):
        return True
    if s.get("k") in ("int", "char") and s.get("cv") == 0:
        return True
    return False


def const_val(n):
    """Integer constant value of the expression or None."""
    if n is None:
        return None
    if "cv" in n:
        return n["cv"]
    s = strip(n)
    if s is not None and "cv" in s:
        return s["cv"]
    return None


def apath(n):
    """Canonical access path string of an lvalue-ish expression or None.
    d<id> for variables, ->f / .f for fields, [] for indexing (index abstracted), * for deref."""
    n = strip(n)
    if n is None:
        return None
    k = n.get("k")
    if k == "ref":
        if n.get("rk") in ("param", "local", "slocal", "global"):
            return "d%d" % n["d"]
        return None
    if k == "member":
        b = apath(n["ch"][0])
        if b is None:
            return None
        return b + ("->" if n.get("arrow") else ".") + n["n"]
    if k == "index":
        b = apath(n["ch"][0])
        if b is None:
            return None
        iv = const_val(n["ch"][1])
        ip = apath(n["ch"][1])
        return b + "[%s]" % (iv if iv is not None else (ip if ip is not None else "?"))
    if k == "un" and n.get("op") == "*":
        b = apath(n["ch"][0])
        if b is None:
            return None
        return "*" + b
    if k == "un" and n.get("op") == "&":
        inner = strip(n["ch"][0])
        if inner.get("k") == "un" and inner.get("op") == "*":
            return apath(inner["ch"][0])
        return None
    return None


def root_decl(path):
    """decl id at the root of an access path"""
    import re
    m = re.search(r"d(\d+)", path or "")
    return int(m.group(1)) if m else None


def is_pointer(n):
    return bool(n.get("tp"))


def mask_outcomes(maskdef, values=None, excluded=None):
    """[(condition, truth)] every value the mask local can still hold agrees on: the local is the OR of K_i where condition i
    holds (facts.Function maskdefs); `values` restricts it to those values, `excluded` removes values"""
    dom = [0]
    for _, kv in maskdef:
        dom = dom + [v | kv for v in dom]
    if values is not None:
        dom = [v for v in dom if v in values]
    if excluded is not None:
        dom = [v for v in dom if v not in excluded]
    if not dom:
        return None                  # no value left: the edge is infeasible
    out = []
    for c, kv in maskdef:
        bits = {bool(v & kv) for v in dom}
        if len(bits) == 1:
            out.append((c, bits.pop()))
    return out


def implied(cond, truth):
    """Set of facts ('nn'|'null', path) implied when `cond` evaluates to `truth`.
    Also yields ('eq'|'ne', path, const) for integer comparisons against constants and
    ('true'|'false', path) for plain truthiness of integer paths."""
    n = strip(cond)
    if n is None:
        return set()
    k = n.get("k")
    if k == "un" and n.get("op") == "!":
        return implied(n["ch"][0], not truth)
    if k == "ref" and n.get("maskdef") is not None:
        oc = mask_outcomes(n["maskdef"], excluded={0}) if truth else mask_outcomes(n["maskdef"], values={0})
        res = set()
        for c_, t_ in (oc or ()):
            res |= implied(c_, t_)
        return res
    if k == "bin" and n.get("op") == "&" and (strip(n["ch"][0]) or {}).get("maskdef") is not None and const_val(n["ch"][1]) is not None:
        md, kv = strip(n["ch"][0])["maskdef"], const_val(n["ch"][1])
        dom = [0]
        for _, k_ in md:
            dom = dom + [v | k_ for v in dom]
        oc = mask_outcomes(md, values={v for v in dom if bool(v & kv) == truth})
        res = set()
        for c_, t_ in (oc or ()):
            res |= implied(c_, t_)
        return res
    if k == "bin" and n.get("op") in ("==", "!=") and (strip(n["ch"][0]) or {}).get("maskdef") is not None and const_val(n["ch"][1]) is not None:
        md, cv = strip(n["ch"][0])["maskdef"], const_val(n["ch"][1])
        eq = (n["op"] == "==") == truth
        oc = mask_outcomes(md, values={cv}) if eq else mask_outcomes(md, excluded={cv})
        res = set()
        for c_, t_ in (oc or ()):
            res |= implied(c_, t_)
        return res
    if k == "ref" and n.get("flagdef") is not None:
        # a flag local that stands for a condition (facts.Function._find_flagdefs)
        p = apath(n)
        return implied(n["flagdef"], truth) | ({("true" if truth else "false", p)} if p is not None else set())
    if k == "bin":
        op = n.get("op")
        a, b = n["ch"][0], n["ch"][1]
        if op == "&&":
            if truth:
                return implied(a, True) | implied(b, True)
            return implied(a, False) & implied(b, False)
        if op == "||":
            if truth:
                return implied(a, True) & implied(b, True)
            return implied(a, False) | implied(b, False)
        if op in ("==", "!="):
            eq = (op == "==") == truth
            for x, y in ((a, b), (b, a)):
                if is_null_const(y) and (is_pointer(strip(x)) or is_pointer(x)):
                    p = apath(x)
                    if p is not None:
                        return {("null" if eq else "nn", p)}
                    # comparison of a ternary/other with NULL: look through
                    return set()
                cv = const_val(y)
                if cv is not None:
                    sx = strip(x)
                    if sx.get("k") in ("cond",):
                        # ((c) ? 1 : 0) == 0 and friends
                        tv = const_val(sx["ch"][1])
                        fv = const_val(sx["ch"][2])
                        if tv is not None and fv is not None and tv != fv:
                            if cv == tv:
                                return implied(sx["ch"][0], eq)
                            if cv == fv:
                                return implied(sx["ch"][0], not eq)
                        return set()
                    p = apath(x)
                    if p is not None:
                        out = {("eq" if eq else "ne", p, cv)}
                        if cv == 0:
                            out.add(("false" if eq else "true", p))
                        return out
            return set()
        if op == ",":
            return implied(b, truth)
        if op in ("<", ">", "<=", ">="):
            def side(x):
                sx = strip(x)
                if sx is not None and sx.get("k") == "assign" and sx.get("op") == "=":
                    return apath(sx["ch"][0]) or render(x)     # (n = read(..)) > 0 speaks about n
                cv = const_val(x)
                if cv is not None:
                    return str(cv)
                return apath(x) or render(x)
            return {("cmp", op if truth else {"<": ">=", ">": "<=", "<=": ">", ">=": "<"}[op], side(a), side(b))}
        return set()
    if k == "cond":
        c, x, y = n["ch"][0], n["ch"][1], n["ch"][2]
        xv, yv = const_val(x), const_val(y)
        if xv is not None and yv is not None:
            if bool(xv) and not bool(yv):
                return implied(c, truth)
            if not bool(xv) and bool(yv):
                return implied(c, not truth)
            return set()
        return (implied(c, True) | implied(x, truth)) & (implied(c, False) | implied(y, truth))
    if k == "assign" and n.get("op") == "=":
        # (x = e) used as a condition
        p = apath(n["ch"][0])
        if p is not None and is_pointer(n):
            return {("nn" if truth else "null", p)}
        return set()
    p = apath(n)
    if p is not None:
        if is_pointer(n):
            return {("nn" if truth else "null", p)}
        return {("true" if truth else "false", p)}
    return set()


def render(n, depth=0):
    """Compact C-like rendering for reports."""
    if n is None:
        return ""
    if depth > 12:
        return "..."
    k = n.get("k")
    r = lambda x: render(x, depth + 1)
    if k in ("paren",):
        return "(" + r(n["ch"][0]) + ")"
    if k in ("icast",):
        return r(n["ch"][0])
    if k == "cast":
        return "(%s)%s" % (n.get("t", "?"), r(n["ch"][0]))
    if k == "ref":
        return n.get("n", "?")
    if k == "member":
        return r(n["ch"][0]) + ("->" if n.get("arrow") else ".") + n["n"]
    if k == "index":
        return "%s[%s]" % (r(n["ch"][0]), r(n["ch"][1]))
    if k == "call":
        ch = n["ch"]
        return "%s(%s)" % (n.get("callee") or r(ch[0]), ", ".join(r(c) for c in ch[1:]))
    if k in ("bin", "assign"):
        return "%s %s %s" % (r(n["ch"][0]), n["op"], r(n["ch"][1]))
    if k == "un":
        if n.get("post"):
            return r(n["ch"][0]) + n["op"]
        return n["op"] + r(n["ch"][0])
    if k in ("int", "char"):
        return str(n.get("cv"))
    if k == "str":
        return '"%s"' % (n.get("sv", "")[:24].replace("\n", "\\n"))
    if k == "cond":
        return "%s ? %s : %s" % (r(n["ch"][0]), r(n["ch"][1]), r(n["ch"][2]))
    if k == "sizeof":
        return "sizeof(%s)" % (n.get("of") or r(n.get("arg")))
    if k == "stmtexpr":
        return "({...})"
    if k == "return":
        return "return " + r(n.get("val"))
    if k == "predef":
        return "__func__"
    return "<%s>" % k


def calls_in(n):
    for x in walk(n):
        if x.get("k") == "call":
            yield x


def callee_name(call):
    if call.get("callee"):
        return call["callee"]
    s = strip(call["ch"][0])
    if s.get("k") == "ref":
        return s.get("n")
    return None


def call_args(call):
    return call["ch"][1:]


def dispatch_slot(call):
    """For an indirect call through a class-table field (SPIF_*_CALL_METHOD), the slot name."""
    if call.get("callee"):
        return None
    s = strip(call["ch"][0])
    # shapes: ((type)(obj->cls->slot))(args)  or  (cls->slot)(args)
    if s.get("k") == "member":
        return s["n"]
    return None


def top_macro(n):
    """Outermost macro whose *body* produced this node (None when written in the file)."""
    m = n.get("m")
    if not m:
        return None
    last = m[-1]
    return last[2:] if last.startswith("b:") else None


def in_macro_body(n, name):
    return any(x == "b:" + name for x in n.get("m", ()))
