"""Summaries of small loop-free helpers that report through the address of a caller's integer local
(static void wrap_idx(self, int *idx) { if (*idx < 0) *idx += self->len; }): every path of the helper as
(tests, stores through pointer parameters, returned value), all expressed over the values on entry, so that an engine can
replay the helper at a call site `h(self, &idx)` by refining on the tests and assigning the stores."""
from . import expr as X
from .facts import walk
from . import paths as P

_CACHE = {}
_PRINTERS = ("libast_dprintf", "libast_print_warning", "libast_print_error", "fprintf", "printf")


def _deref_param(n, pds):
    s = X.strip(n)
    if s is not None and s.get("k") == "un" and s.get("op") == "*":
        t = X.strip(s["ch"][0])
        if t is not None and t.get("k") == "ref" and t.get("rk") == "param" and t.get("d") in pds:
            return t["d"]
    return None


def _subst(node, env, pds):
    """deep copy with *param / locals replaced by their current symbolic value"""
    if isinstance(node, list):
        return [_subst(x, env, pds) for x in node]
    if not isinstance(node, dict):
        return node
    dp = _deref_param(node, pds) if node.get("k") in ("un", "paren", "icast", "cast") else None
    if dp is not None and node.get("k") == "un" and ("deref", dp) in env:
        return env[("deref", dp)]
    if node.get("k") == "ref" and node.get("rk") == "local" and ("local", node.get("d")) in env:
        return env[("local", node["d"])]
    return {k: (_subst(v, env, pds) if (isinstance(v, (dict, list)) and not k.startswith("_") and k not in ("flagdef", "maskdef", "m")) else v) for k, v in node.items()}


def summary(g, max_paths=24):
    """[(tests [(node, truth)], stores {param decl id: node}, return value node or None)] or None when g is outside the shape"""
    key = (g.unit.name, g.name)
    if key in _CACHE:
        return _CACHE[key]
    res = _summary(g, max_paths)
    _CACHE[key] = res
    return res


def _summary(g, max_paths):
    if g.body is None or g.cfg is None:
        return None
    pds = {p["d"] for p in g.params if p.get("tp")}
    allp = {p["d"] for p in g.params}
    for x in walk(g.body):
        k = x.get("k")
        if k in ("for", "while", "do", "goto", "label", "switch"):
            return None
        if k == "un" and x.get("op") in ("++", "--", "&"):
            return None
        if k == "call" and (X.callee_name(x) or "?") not in _PRINTERS:
            return None
        if k == "assign":
            l = X.strip(x["ch"][0])
            if _deref_param(x["ch"][0], pds) is not None:
                continue
            if l is not None and l.get("k") == "ref" and l.get("rk") == "local":
                continue
            return None                 # a store to a parameter, a field or memory other than *param
    try:
        ps = P._enumerate_paths(g, limit=max_paths + 1, noreturn=("libast_fatal_error",), decls=True)
    except Exception:
        return None
    if not ps or len(ps) > max_paths:
        return None
    out = []
    for p in ps:
        env = {}
        tests, ret = [], None
        for ev in p:
            if ev[0] == "cond":
                if isinstance(ev[2], tuple):
                    return None
                tests.append((_subst(ev[1], env, pds), ev[2]))
            elif ev[0] == "assign":
                n = ev[2]
                rhs = _subst(n["ch"][1], env, pds)
                dp = _deref_param(n["ch"][0], pds)
                keyv = ("deref", dp) if dp is not None else ("local", X.strip(n["ch"][0])["d"])
                if n.get("op") != "=":
                    op = n["op"][:-1]
                    if op not in ("+", "-", "|", "&"):
                        return None
                    cur = _subst(n["ch"][0], env, pds)
                    rhs = {"k": "bin", "op": op, "ch": [cur, rhs], "i": n["i"], "t": n.get("t"), "tw": n.get("tw"), "ts": n.get("ts")}
                env[keyv] = rhs
            elif ev[0] == "ret":
                ret = _subst(ev[1]["val"], env, pds) if ev[1].get("val") is not None else None
            elif ev[0] == "noreturn":
                tests = None
                break
        if tests is None:
            continue
        out.append((tests, {k[1]: v for k, v in env.items() if k[0] == "deref"}, ret))
    return out


def bind(node, g, args):
    """the helper's expression at a call site: parameters replaced by the argument expressions, *(&x) folded to x"""
    mapping = {p["d"]: args[i] for i, p in enumerate(g.params) if i < len(args)}
    n2 = P.subst_params(node, mapping)

    def fold(n):
        if isinstance(n, list):
            return [fold(x) for x in n]
        if not isinstance(n, dict):
            return n
        if n.get("k") == "un" and n.get("op") == "*":
            t = X.strip(n["ch"][0])
            if t is not None and t.get("k") == "un" and t.get("op") == "&":
                return fold(t["ch"][0])
        return {k: (fold(v) if (isinstance(v, (dict, list)) and not k.startswith("_") and k not in ("flagdef", "maskdef", "m")) else v) for k, v in n.items()}
    return fold(n2)


def const_eval(n):
    """integer value of an expression built from constants with + - | & (also the synthetic nodes of summary()), else None"""
    cv = X.const_val(n)
    if cv is not None:
        return cv
    s_ = X.strip(n)
    if s_ is None:
        return None
    cv = X.const_val(s_)
    if cv is not None:
        return cv
    if s_.get("k") == "bin" and s_.get("op") in ("+", "-", "|", "&"):
        a, b = const_eval(s_["ch"][0]), const_eval(s_["ch"][1])
        if a is None or b is None:
            return None
        return {"+": a + b, "-": a - b, "|": a | b, "&": a & b}[s_["op"]]
    return None


def verdict_paths(g, args):
    """[(constant the helper returns, [(test at the call site, truth)])] for a helper that classifies its arguments into a small
    integer (a "which side is missing" mask built with |=), or None when it is not of that shape"""
    summ = summary(g)
    if not summ:
        return None
    out = []
    for tests, stores, ret in summ:
        if stores or ret is None:
            return None
        v = const_eval(ret)
        if v is None:
            # return (c ? K1 : K2): two outcomes of one more test
            r_ = ret
            while r_ is not None and r_.get("k") in ("paren", "icast", "cast"):
                r_ = r_["ch"][0]
            if r_ is not None and r_.get("k") == "cond":
                v1, v2 = const_eval(r_["ch"][1]), const_eval(r_["ch"][2])
                if v1 is not None and v2 is not None:
                    base = [(bind(c, g, args), t) for c, t in tests]
                    out.append((v1, base + [(bind(r_["ch"][0], g, args), True)]))
                    out.append((v2, base + [(bind(r_["ch"][0], g, args), False)]))
                    continue
            return None
        out.append((v, [(bind(c, g, args), t) for c, t in tests]))
    return out
