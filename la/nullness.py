"""Nullness dataflow: must-facts ('nn', path) / ('null', path) over access paths, refined on branch
edges, with infeasible-edge pruning.  Used by GUARD (scenario analysis for C16) and NULLFLOW."""
from . import expr as X
from .facts import walk
from . import flow
from .models import DEREFS, ALLOCATORS, MESSAGE_FUNCS, PURE_LIBC


def _kills(path, fact_path):
    if fact_path == path:
        return True
    if fact_path.startswith(path) and fact_path[len(path):len(path) + 1] in ("-", ".", "["):
        return True
    if fact_path.startswith("*" + path):
        return True
    return False


def kill(state, path):
    return frozenset(f for f in state if not (len(f) >= 2 and isinstance(f[1], str) and _kills(path, f[1])))


def refine(state, cond, truth, blk=None):
    """Add facts implied by the branch; None when they contradict the state (infeasible edge)."""
    if isinstance(truth, tuple):
        # switch edges: integer equalities only
        sc = X.strip(cond)
        if sc is not None and sc.get("k") == "ref" and sc.get("maskdef") is not None:
            # a mask local (bit i = condition i): the case value / the values the default excludes decide the conditions
            if truth[0] == "case" and truth[1] is not None:
                oc = X.mask_outcomes(sc["maskdef"], values={truth[1]})
            elif truth[0] == "default":
                oc = X.mask_outcomes(sc["maskdef"], excluded=set(truth[1] if len(truth) > 1 else ()))
            else:
                oc = []
            if oc is None:
                return None
            for c_, t_ in oc:
                state = refine(state, c_, t_, blk)
                if state is None:
                    return None
            return state
        if sc is not None and sc.get("k") == "call" and _ACTIVE[0] is not None and X.callee_name(sc):
            # switch (classify(a, b)): the helper's paths that return this case's value (or, for the default, none of the
            # excluded values) say what is known about the arguments on this edge - the facts all of them agree on
            g_ = _ACTIVE[0].prog.fn(X.callee_name(sc)) if hasattr(_ACTIVE[0], "prog") else None
            vp = None
            if g_ is not None and g_.body is not None:
                from . import inout
                try:
                    vp = inout.verdict_paths(g_, sc["ch"][1:])
                except Exception:
                    vp = None
            if vp:
                if truth[0] == "case" and truth[1] is not None:
                    sel = [t_ for v_, t_ in vp if v_ == truth[1]]
                elif truth[0] == "default":
                    ex_ = set(truth[1] if len(truth) > 1 else ())
                    sel = [t_ for v_, t_ in vp if v_ not in ex_]
                else:
                    sel = None
                if sel is not None:
                    outs = []
                    for tests_ in sel:
                        st_ = state
                        for c_, t_ in tests_:
                            st_ = refine(st_, c_, t_, blk)
                            if st_ is None:
                                break
                        if st_ is not None:
                            outs.append(st_)
                    if not outs:
                        return None
                    res_ = outs[0]
                    for o_ in outs[1:]:
                        res_ = res_ & o_
                    return res_
        p = X.apath(cond)
        if p is None:
            return state
        if truth[0] == "case" and truth[1] is not None:
            for f in state:
                if f[0] == "eq" and f[1] == p and f[2] != truth[1]:
                    return None
            return state | {("eq", p, truth[1])}
        return state
    facts = set(X.implied(cond, truth)) | guard_helper_facts(cond, truth)
    if not facts:
        return state
    out = set(state)
    for f in facts:
        if f[0] == "nn" and ("null", f[1]) in state:
            return None
        if f[0] == "null" and ("nn", f[1]) in state:
            return None
        if f[0] == "eq":
            for g in state:
                if g[0] == "eq" and g[1] == f[1] and g[2] != f[2]:
                    return None
                if g[0] == "ne" and g[1] == f[1] and g[2] == f[2]:
                    return None
        if f[0] == "ne":
            for g in state:
                if g[0] == "eq" and g[1] == f[1] and g[2] == f[2]:
                    return None
        if f[0] == "true" and ("false", f[1]) in state:
            return None
        if f[0] == "false" and ("true", f[1]) in state:
            return None
        if f[0] in ("nn", "null", "eq", "ne", "true", "false"):
            out.add(f)
    return frozenset(out)


_ACTIVE = [None]        # the Summaries object of the running check (set by Summaries.__init__)


def guard_helper_facts(cond, truth):
    """A call to a helper that answers `true` whenever one of its pointer arguments is NULL (a NULL-ordering or validity
    helper extracted from several functions) is a NULL test of those arguments: on the outcome the helper never produces
    for a NULL argument, the argument is known non-NULL."""
    summ = _ACTIVE[0]
    if summ is None:
        return set()
    c = X.strip(cond)
    pol = truth
    while c is not None and c.get("k") == "un" and c.get("op") == "!":
        c = X.strip(c["ch"][0])
        pol = not pol
    if c is not None and c.get("k") == "bin" and c.get("op") in ("!=", "==") and X.const_val(c["ch"][1]) == 0:
        if c["op"] == "==":
            pol = not pol
        c = X.strip(c["ch"][0])
    if c is None or c.get("k") != "call":
        return set()
    cn = X.callee_name(c)
    g = summ.prog.fn(cn) if cn else None
    if g is None or g.cfg is None:
        return set()
    out = set()
    for j, a in enumerate(c["ch"][1:]):
        if j >= len(g.params) or not g.params[j].get("tp"):
            continue
        p = X.apath(a)
        if p is None:
            continue
        kind = summ.null_answer(cn, j)
        if kind == "true" and not pol:
            out.add(("nn", p))
        if kind == "false" and pol:
            out.add(("nn", p))
    return out


import re as _re
_FRESH = _re.compile(r"(^|_)(new|dup)(_|$)")


def fresh_call(s):
    """call whose result is a freshly allocated object (allocation failure is outside every property's quantifier)"""
    cn = X.callee_name(s)
    if cn:
        return cn in ALLOCATORS or bool(_FRESH.search(cn))
    return X.dispatch_slot(s) in ("dup", "noo")


def rhs_nullness(state, rhs):
    """'nn' / 'null' / None for the value of an expression under the state."""
    if rhs is None:
        return None
    if X.is_null_const(rhs):
        return "null"
    s = X.strip(rhs)
    k = s.get("k")
    if k == "call" and fresh_call(s):
        # a constructor/dup handed a NULL source yields NULL; otherwise a fresh object
        args = s["ch"][1:]
        if args and rhs_nullness(state, args[0]) != "nn" and (X.callee_name(s) or "").find("dup") >= 0:
            return None
        if X.dispatch_slot(s) == "dup":
            return "nn"
        return "nn"
    if k == "str" or (k == "un" and s.get("op") == "&"):
        return "nn"
    if k == "bin" and s.get("op") in ("+", "-") and X.is_pointer(s):
        return rhs_nullness(state, s["ch"][0])
    if k == "cond":
        a = rhs_nullness(state, s["ch"][1])
        b = rhs_nullness(state, s["ch"][2])
        # use the condition when it decides
        ct = X.implied(s["ch"][0], True)
        cf = X.implied(s["ch"][0], False)
        if any((("null" if f[0] == "nn" else "nn"), f[1]) in state for f in ct if f[0] in ("nn", "null")):
            return b  # condition cannot be true
        if any((("null" if f[0] == "nn" else "nn"), f[1]) in state for f in cf if f[0] in ("nn", "null")):
            return a
        return a if a == b else None
    if k == "assign" and s.get("op") == "=":
        return rhs_nullness(state, s["ch"][1])
    p = X.apath(s)
    if p is not None:
        if ("nn", p) in state:
            return "nn"
        if ("null", p) in state:
            return "null"
    return None


def transfer(state, n, blk=None):
    k = n.get("k")
    if k == "assign":
        lhs = n["ch"][0]
        p = X.apath(lhs)
        if p is None:
            return state
        if n.get("op") == "=":
            val = rhs_nullness(state, n["ch"][1])
            st = kill(state, p)
            if val is not None:
                st = st | {(val, p)}
            cv = X.const_val(n["ch"][1])
            if cv is None and not X.is_pointer(n):
                # flag = (cond) ? TRUE : FALSE  /  flag = !ISNULL(x)  with the condition decided by the facts at hand
                cv = decided_truth(n["ch"][1], state)
            if cv is not None and not X.is_pointer(n):
                st = st | {("eq", p, cv)} if isinstance(cv, int) and not isinstance(cv, bool) else st
                st = st | {("true" if cv else "false", p)}
            return st
        if n.get("op") in ("+=", "-=") and X.is_pointer(n):
            keep = ("nn", p) in state
            st = kill(state, p)
            return st | {("nn", p)} if keep else st
        return kill(state, p)
    if k == "un" and n.get("op") in ("++", "--"):
        p = X.apath(n["ch"][0])
        if p is None:
            return state
        keep = ("nn", p) in state and X.is_pointer(n)
        st = kill(state, p)
        return st | {("nn", p)} if keep else st
    if k == "decl":
        st = state
        for d in n.get("decls", ()):
            p = "d%d" % d["d"]
            st = kill(st, p)
            if d.get("init") is not None:
                val = rhs_nullness(state, d["init"])
                if val is not None:
                    st = st | {(val, p)}
        return st
    if k == "call":
        st = state
        for a in n["ch"][1:]:
            s = X.strip(a)
            if s.get("k") == "un" and s.get("op") == "&":
                p = X.apath(s["ch"][0])
                if p is not None:
                    st = kill(st, p)
        return st
    return state


def deref_sites(fn, n):
    """If evaluating node n dereferences a pointer expression, yield (base expr, kind)."""
    k = n.get("k")
    if k == "un" and n.get("op") == "*":
        yield n["ch"][0], "*"
    elif k == "member" and n.get("arrow"):
        par = fn.parent.get(n["i"])
        # &p->f computes an address only
        q = par
        while q is not None and q.get("k") in ("paren",):
            q = fn.parent.get(q["i"])
        if q is not None and q.get("k") == "un" and q.get("op") == "&":
            return
        yield n["ch"][0], "->" + n["n"]
    elif k == "index":
        base = n["ch"][0]
        sb = X.strip(base)
        # arrays decay: indexing a local/field array is not a pointer dereference of a nullable value
        if sb.get("tc", sb.get("t", "")).endswith("]"):
            return
        par = fn.parent.get(n["i"])
        q = par
        while q is not None and q.get("k") in ("paren",):
            q = fn.parent.get(q["i"])
        if q is not None and q.get("k") == "un" and q.get("op") == "&":
            return
        yield base, "[]"


class Summaries:
    """Interprocedural 'may dereference parameter i when it is NULL' summaries (least fixpoint)."""

    def __init__(self, prog, noreturn=()):
        self.prog = prog
        self.noreturn = set(noreturn)
        self.deref = {}    # (fname, i) -> bool
        self.results = {}  # (fname, i) -> ScenarioResult
        self._computing = set()
        self.alloc = None
        self._nullans = {}
        self._writes = {}
        _ACTIVE[0] = self

    def null_answer(self, fname, i):
        """'true' / 'false' when fname, called with NULL for pointer parameter i, returns only constant truthy / only constant
        zero values and dereferences nothing (it is a predicate about that argument's NULLness); else None"""
        key = (fname, i)
        if key in self._nullans:
            return self._nullans[key]
        self._nullans[key] = None
        fn = self.prog.fn(fname)
        if fn is None or fn.cfg is None or not (fn.static or fname.startswith("spif")) or len(fn.nodes) > 400:
            return None
        if not re_int_ret(fn):
            return None
        res = self.result(fname, i)
        ans = None
        if res is not None and res.returns and not res.derefs:
            vals = set()
            for _, v in res.returns:
                try:
                    vals.add(int(v))
                except (TypeError, ValueError):
                    vals.add(None)
            if None not in vals:
                if all(v != 0 for v in vals):
                    ans = "true"
                elif all(v == 0 for v in vals):
                    ans = "false"
        self._nullans[key] = ans
        return ans

    def derefs_param(self, fname, i):
        """Does calling fname with NULL for pointer parameter i (others valid) reach a dereference of it?"""
        key = (fname, i)
        if key in self.deref:
            return self.deref[key]
        if fname in DEREFS:
            return i in DEREFS[fname]
        fn = self.prog.fn(fname)
        if fn is None or fn.cfg is None:
            return False
        if i >= len(fn.params) or not fn.params[i].get("tp"):
            return False
        if key in self._computing:
            return False
        self._computing.add(key)
        res = scenario(fn, i, self)
        self._computing.discard(key)
        val = bool(res.derefs)
        self.deref[key] = val
        self.results[key] = res
        return val

    def result(self, fname, i):
        """Full scenario result for a libast function (None for externals / recursion in progress)."""
        key = (fname, i)
        if key not in self.results:
            if self.prog.fn(fname) is None or key in self._computing:
                return None
            self.derefs_param(fname, i)
        return self.results.get(key)

    def may_allocate(self, fname):
        if self.alloc is None:
            self._compute_alloc()
        return fname in self.alloc

    def writes_param(self, fname, j):
        """does fname (or a libast function it hands the parameter on to) store through its pointer parameter j?"""
        key = (fname, j)
        if key in self._writes:
            return self._writes[key]
        self._writes[key] = False
        fn = self.prog.fn(fname)
        if fn is None or j >= len(fn.params) or not fn.params[j].get("tp"):
            return False
        d = fn.params[j]["d"]
        res = False
        for n in walk(fn.body):
            if n.get("k") == "assign" or (n.get("k") == "un" and n.get("op") in ("++", "--")):
                l = X.strip(n["ch"][0])
                if l is not None and l.get("k") in ("member", "index") or (l is not None and l.get("k") == "un" and l.get("op") == "*"):
                    p_ = X.apath(l)
                    if p_ is not None and X.root_decl(p_) == d and p_ != "d%d" % d:
                        res = True
                        break
            if n.get("k") == "call":
                cn = X.callee_name(n)
                if cn and self.prog.fn(cn) is not None and cn != fname:
                    for jj, a in enumerate(n["ch"][1:]):
                        sa = X.strip(a)
                        if sa is not None and sa.get("k") == "ref" and sa.get("d") == d and self.writes_param(cn, jj):
                            res = True
                            break
                if res:
                    break
        self._writes[key] = res
        return res

    def _compute_alloc(self):
        calls = {}
        direct = set()
        for f in self.prog.all_functions():
            cs = set()
            for c in X.calls_in(f.body):
                cn = X.callee_name(c)
                if cn:
                    cs.add(cn)
            calls[f.name] = cs
            if cs & ALLOCATORS:
                direct.add(f.name)
            # a dispatch through a class's constructor / copy slot allocates (SPIF_OBJ_DUP(x), SPIF_OBJ_NEW())
            if any(not X.callee_name(c) and X.dispatch_slot(c) in ("dup", "noo") for c in X.calls_in(f.body)):
                direct.add(f.name)
        alloc = set(direct) | set(ALLOCATORS)
        changed = True
        while changed:
            changed = False
            for f, cs in calls.items():
                if f not in alloc and cs & alloc:
                    alloc.add(f)
                    changed = True
        self.alloc = alloc


def re_int_ret(fn):
    t = (fn.j.get("retc") or "") + " " + (fn.j.get("ret") or "")
    return "*" not in t and "void" not in t


class ScenarioResult:
    def __init__(self):
        self.derefs = []     # (node, kind, via)
        self.returns = []    # (node, value canon, state has null)
        self.effects = []    # (node, description)
        self.tests = False   # function branches on the nullness of the parameter
        self.reassigned = False


def prepared_cfg(fn, noreturn):
    if getattr(fn, "_pruned", None) != frozenset(noreturn):
        if fn.cfg is not None and noreturn:
            fn.cfg.prune_noreturn(noreturn)
        fn._pruned = frozenset(noreturn)
    return fn.cfg


def param_tests(fn):
    """Set of parameter indices whose nullness some branch of fn tests."""
    res = set()
    cfg = fn.cfg
    if cfg is None:
        return res
    ppaths = {"d%d" % p["d"]: i for i, p in enumerate(fn.params)}
    for b in cfg.blocks:
        for s, cond, truth in cfg.edges(b):
            if cond is not None and isinstance(truth, tuple):
                # switch (mask) / switch (classify(a, b)): the conditions the case values stand for are tests of the parameters
                sc = X.strip(cond)
                conds_ = []
                if sc is not None and sc.get("k") == "ref" and sc.get("maskdef") is not None:
                    conds_ = [c_ for c_, _k in sc["maskdef"]]
                elif sc is not None and sc.get("k") == "call" and _ACTIVE[0] is not None and X.callee_name(sc):
                    g_ = _ACTIVE[0].prog.fn(X.callee_name(sc))
                    if g_ is not None and g_.body is not None:
                        from . import inout
                        try:
                            vp = inout.verdict_paths(g_, sc["ch"][1:])
                        except Exception:
                            vp = None
                        for _v, tests_ in (vp or ()):
                            conds_ += [c_ for c_, _t in tests_]
                for c_ in conds_:
                    for f in X.implied(c_, True) | X.implied(c_, False):
                        if f[0] in ("nn", "null") and f[1] in ppaths:
                            res.add(ppaths[f[1]])
                continue
            if cond is None or isinstance(truth, tuple):
                continue
            for f in X.implied(cond, True) | X.implied(cond, False) | guard_helper_facts(cond, True) | guard_helper_facts(cond, False):
                if f[0] in ("nn", "null") and f[1] in ppaths:
                    res.add(ppaths[f[1]])
    return res


def scenario(fn, i, summ, assume_others_nonnull=True):
    """Abstractly execute fn with parameter i NULL (other pointer parameters valid)."""
    from .report import canon
    res = ScenarioResult()
    cfg = prepared_cfg(fn, summ.noreturn)
    if cfg is None:
        return res
    me = "d%d" % fn.params[i]["d"]
    seed = {("null", me)}
    if assume_others_nonnull:
        for j, p in enumerate(fn.params):
            if j != i and p.get("tp"):
                seed.add(("nn", "d%d" % p["d"]))
    res.tests = i in param_tests(fn)
    local_ids = set(fn.vardecls)

    def visit(state, n, blk):
        k = n.get("k")
        for base, kind in deref_sites(fn, n):
            if rhs_nullness(state, base) == "null":
                res.derefs.append((n, kind, None))
        if k == "call":
            cn = X.callee_name(n)
            args = n["ch"][1:]
            for j, a in enumerate(args):
                if not (X.is_pointer(a) or X.is_pointer(X.strip(a))):
                    continue
                if rhs_nullness(state, a) == "null" and cn and summ.derefs_param(cn, j):
                    res.derefs.append((n, "arg%d" % j, cn))
            if ("null", me) in state and cn:
                if cn in ALLOCATORS or (cn not in MESSAGE_FUNCS and cn not in PURE_LIBC and summ.may_allocate(cn)):
                    res.effects.append((n, "calls %s, which may allocate" % cn))
                elif summ.prog.fn(cn) is not None:
                    # a callee that stores through one of the caller's OTHER pointer parameters has an effect the caller sees
                    for j, a in enumerate(args):
                        sa = X.strip(a)
                        if sa is not None and sa.get("k") == "ref" and sa.get("rk") == "param" and sa.get("d") != fn.params[i]["d"] and \
                                rhs_nullness(state, a) != "null" and summ.writes_param(cn, j):
                            res.effects.append((n, "calls %s, which stores through %s" % (cn, X.render(a)[:20])))
                            break
        if k == "assign" and ("null", me) in state:
            p = X.apath(n["ch"][0])
            root = X.root_decl(p) if p else None
            if p is None:
                res.effects.append((n, "store through a computed lvalue"))
            elif root not in local_ids and not (root is not None and fn.param_index(root) is not None and p == "d%d" % root):
                res.effects.append((n, "store to %s" % X.render(n["ch"][0])))
            elif root == fn.params[i]["d"] and p == me:
                res.reassigned = True
        if k == "return" and ("null", me) in state:
            v = n.get("val")
            sv = X.strip(v) if v is not None else None
            if sv is not None and sv.get("k") == "call" and X.callee_name(sv) and summ.prog.fn(X.callee_name(sv)):
                # return g(..., NULL, ...): the callee's failure value is ours
                done = False
                for j, a in enumerate(sv["ch"][1:]):
                    if rhs_nullness(state, a) == "null":
                        sub = summ.result(X.callee_name(sv), j)
                        if sub is not None and sub.returns and not sub.derefs:
                            for _, val in sub.returns:
                                res.returns.append((n, val))
                            if sub.tests and X.apath(a) == me:
                                res.tests = True   # wrapper: the guard is delegated to the callee
                            done = True
                            break
                if done:
                    return
            if v is not None:
                v = resolve_conditional(v, state)
            if v is None:
                val = "void"
            elif X.is_null_const(v) and (X.is_pointer(v) or X.is_pointer(X.strip(v))):
                val = "NULL"
            elif X.const_val(v) is not None:
                val = str(X.const_val(v))
            else:
                val = canon(fn, v)
            res.returns.append((n, val))

    flow.forward(cfg, frozenset(seed), transfer, refine=refine, visit=visit)
    return res


def decided_truth(e, state):
    """True/False when the nullness facts of the state decide the truth value of the integer expression e, else None"""
    r = resolve_conditional(e, state)
    cv = X.const_val(r)
    if cv is not None:
        return bool(cv)
    s_ = X.strip(r)
    if s_ is not None:
        # three-valued evaluation through the logical operators (have_b = have_a && !ISNULL(self->b))
        if s_.get("k") == "un" and s_.get("op") == "!":
            v = decided_truth(s_["ch"][0], state)
            return None if v is None else (not v)
        if s_.get("k") == "bin" and s_.get("op") in ("&&", "||"):
            a, b = decided_truth(s_["ch"][0], state), decided_truth(s_["ch"][1], state)
            if s_["op"] == "&&":
                if a is False or b is False:
                    return False
                return True if (a is True and b is True) else None
            if a is True or b is True:
                return True
            return False if (a is False and b is False) else None
        if s_.get("k") == "cond":
            c = decided_truth(s_["ch"][0], state)
            if c is not None:
                return decided_truth(s_["ch"][1] if c else s_["ch"][2], state)
            x, y = decided_truth(s_["ch"][1], state), decided_truth(s_["ch"][2], state)
            return x if (x is not None and x == y) else None
        if s_.get("k") == "bin" and s_.get("op") in ("!=", "==") and X.const_val(s_["ch"][1]) == 0 and not X.is_pointer(X.strip(s_["ch"][0]) or {}):
            v = decided_truth(s_["ch"][0], state)
            if v is not None:
                return v if s_["op"] == "!=" else (not v)
    if _contradicts(X.implied(r, True), state) and X.implied(r, True):
        return False
    if _contradicts(X.implied(r, False), state) and X.implied(r, False):
        return True
    return None


def _contradicts(facts, state):
    for f in facts:
        if f[0] == "null" and ("nn", f[1]) in state:
            return True
        if f[0] == "nn" and ("null", f[1]) in state:
            return True
        if f[0] == "true" and ("false", f[1]) in state:
            return True
        if f[0] == "false" and ("true", f[1]) in state:
            return True
    return False


def resolve_conditional(v, state, depth=0):
    """`c ? a : b` whose condition the nullness facts of the state decide stands for the arm that is taken"""
    s_ = X.strip(v)
    if s_ is None or s_.get("k") != "cond" or depth > 4:
        return v
    c = s_["ch"][0]
    if _contradicts(X.implied(c, True), state):
        return resolve_conditional(s_["ch"][2], state, depth + 1)
    if _contradicts(X.implied(c, False), state):
        return resolve_conditional(s_["ch"][1], state, depth + 1)
    return v


def fatal_guarded_params(prog, fatal=("libast_fatal_error",)):
    """{(function name, param index)} such that calling the function with NULL for that pointer parameter reaches the
    fatal-error call at runtime level >= 1 (an ASSERT-style guard, recognised by what the branch does, not by macro name),
    directly or by handing the parameter on unchanged to such a parameter of a callee."""
    direct = set()
    soft = set()
    passes = {}
    for f in prog.all_functions():
        pp = {"d%d" % p["d"]: i for i, p in enumerate(f.params) if p.get("tp")}
        if not pp:
            continue
        for x in walk(f.body):
            if x.get("k") == "if":
                for fact in X.implied(x["cond"], True):
                    if fact[0] == "null" and fact[1] in pp:
                        if any(X.callee_name(c) in fatal for c in X.calls_in(x["then"])):
                            direct.add((f.name, pp[fact[1]]))
                        else:
                            soft.add((f.name, pp[fact[1]]))
            if x.get("k") == "call":
                cn = X.callee_name(x)
                if cn:
                    for j, a in enumerate(x["ch"][1:]):
                        s_ = X.strip(a)
                        if s_ is not None and s_.get("k") == "ref" and s_.get("rk") == "param" and "d%d" % s_["d"] in pp:
                            passes.setdefault((f.name, pp["d%d" % s_["d"]]), set()).add((cn, j))
    res = set(direct)
    changed = True
    while changed:
        changed = False
        for key, tgts in passes.items():
            if key in res or key in soft:
                continue
            if tgts & res:
                res.add(key)
                changed = True
    return res
