"""Rules over conf.c / file.c shared by C09, C10 and C11."""
import re

from . import expr as X, flow, nullness, own
from .facts import walk, AnalysisBroken
from .report import canon
from .models import SPAWNERS

NORETURN = {"libast_fatal_error"}


def glob_ref(n, name=None):
    s = X.strip(n)
    if s is not None and s.get("k") == "ref" and s.get("rk") == "global" and (name is None or s.get("n") == name):
        return s
    return None


# --------------------------------------------------------------------------- WRAP
def _local_defs(f, d):
    out = []
    for x in walk(f.body):
        if x.get("k") == "assign" and x.get("op") == "=" and X.strip(x["ch"][0]).get("d") == d:
            out.append(x["ch"][1])
        if x.get("k") == "decl":
            for dcl in x.get("decls", ()):
                if dcl["d"] == d and dcl.get("init") is not None:
                    out.append(dcl["init"])
    return out


def _growth_factor(f, rhs, cntname, depth=0):
    """('mul'|'add', k, width of the intermediate or None) if rhs computes CNT * k / CNT + k (directly or through a local)"""
    r = X.strip(rhs)
    if r is None or depth > 3:
        return None
    if r.get("k") == "bin" and r.get("op") in ("*", "+"):
        for x, y in ((r["ch"][0], r["ch"][1]), (r["ch"][1], r["ch"][0])):
            if glob_ref(x, cntname) is not None and X.const_val(y) is not None:
                return ("mul" if r["op"] == "*" else "add", X.const_val(y), None)
        if r["op"] == "+" and glob_ref(r["ch"][0], cntname) is not None and glob_ref(r["ch"][1], cntname) is not None:
            return ("mul", 2, None)           # CNT + CNT
    if r.get("k") == "bin" and r.get("op") == "<<" and glob_ref(r["ch"][0], cntname) is not None and \
            X.const_val(r["ch"][1]) is not None and 0 <= X.const_val(r["ch"][1]) < 16:
        return ("mul", 1 << X.const_val(r["ch"][1]), None)      # CNT << k
    if r.get("k") == "ref" and r.get("rk") == "local":
        for dfn in _local_defs(f, r["d"]):
            g = _growth_factor(f, dfn, cntname, depth + 1)
            if g is not None:
                w = f.vardecls.get(r["d"], {}).get("tw")
                return (g[0], g[1], min(w, g[2]) if (w and g[2]) else (w or g[2]))
    return None


def growth_sites(unit):
    """[(function, idx global, cnt global, factor, if-node)] for the table-growth idiom: a test IDX == CNT (with the increment of
    IDX in the test or before it) whose true arm enlarges CNT - `CNT *= k`, `CNT = CNT * k`, or through a local
    (`new = CNT * k; ...; CNT = new`).  factor = (kind, k, width of a narrower intermediate or None)."""
    res = []
    for f in unit.functions.values():
        for n in walk(f.body):
            if n.get("k") != "if":
                continue
            c = X.strip(n["cond"])
            neg_ = False
            while c is not None and c.get("k") == "un" and c.get("op") == "!":
                neg_ = not neg_
                c = X.strip(c["ch"][0])
            if c is None or c.get("k") != "bin":
                continue
            op_ = {"==": "!=", "!=": "==", "<": ">=", ">=": "<", ">": "<=", "<=": ">"}.get(c.get("op")) if neg_ else c.get("op")
            if op_ not in ("==", ">="):
                continue
            a, b = X.strip(c["ch"][0]), X.strip(c["ch"][1])
            idx = cnt = None
            for x, y in ((a, b), (b, a)):
                xi = x
                if xi.get("k") == "ref" and xi.get("rk") == "local":
                    # a local copy of the (just incremented) index: new_idx = ++IDX; if (new_idx == CNT)
                    dfs = _local_defs(f, xi["d"])
                    if len(dfs) == 1 and not any(
                            m_.get("k") == "assign" and m_.get("op") != "=" and X.strip(m_["ch"][0]).get("d") == xi["d"] for m_ in walk(f.body)):
                        xi = X.strip(dfs[0])
                if xi.get("k") == "un" and xi.get("op") == "++":
                    xi = X.strip(xi["ch"][0])
                if xi.get("k") == "bin" and xi.get("op") == "+" and X.const_val(xi["ch"][1]) == 1:
                    xi = X.strip(xi["ch"][0])
                if glob_ref(xi) is not None and glob_ref(y) is not None:
                    idx, cnt = glob_ref(xi), glob_ref(y)
                    break
            if idx is None:
                continue
            factor = None
            for m in walk(n["then"]):
                if m.get("k") == "assign" and glob_ref(m["ch"][0], cnt["n"]) is not None:
                    if m.get("op") == "*=" and X.const_val(m["ch"][1]) is not None:
                        factor = ("mul", X.const_val(m["ch"][1]), None)
                    elif m.get("op") == "+=" and X.const_val(m["ch"][1]) is not None:
                        factor = ("add", X.const_val(m["ch"][1]), None)
                    elif m.get("op") == "+=" and glob_ref(m["ch"][1], cnt["n"]) is not None:
                        factor = ("mul", 2, None)         # CNT += CNT
                    elif m.get("op") == "<<=" and X.const_val(m["ch"][1]) is not None and 0 <= X.const_val(m["ch"][1]) < 16:
                        factor = ("mul", 1 << X.const_val(m["ch"][1]), None)
                    elif m.get("op") == "=":
                        factor = _growth_factor(f, m["ch"][1], cnt["n"]) or factor
            if factor is None:
                # the enlargement sits in a unit-local helper that is handed the address of the capacity (grow(table, &CNT, size))
                for c_ in X.calls_in(n["then"]):
                    g_ = unit.functions.get(X.callee_name(c_) or "")
                    if g_ is None or g_.body is None:
                        continue
                    for k_, a_ in enumerate(c_["ch"][1:]):
                        sa_ = X.strip(a_)
                        if sa_ is not None and sa_.get("k") == "un" and sa_.get("op") == "&" and glob_ref(sa_["ch"][0], cnt["n"]) is not None and k_ < len(g_.params):
                            pd_ = g_.params[k_]["d"]
                            for m in walk(g_.body):
                                if m.get("k") != "assign":
                                    continue
                                t_ = X.strip(m["ch"][0])
                                if not (t_.get("k") == "un" and t_.get("op") == "*" and X.strip(t_["ch"][0]).get("d") == pd_):
                                    continue
                                wt = t_.get("tw")
                                nar = wt if (wt and wt < (cnt.get("tw") or 32)) else None
                                if m.get("op") == "*=" and X.const_val(m["ch"][1]) is not None:
                                    factor = ("mul", X.const_val(m["ch"][1]), nar)
                                elif m.get("op") == "+=" and X.const_val(m["ch"][1]) is not None:
                                    factor = ("add", X.const_val(m["ch"][1]), nar)
                                elif m.get("op") == "=":
                                    r_ = X.strip(m["ch"][1])
                                    if r_.get("k") == "bin" and r_.get("op") in ("*", "+"):
                                        for x_, y_ in ((r_["ch"][0], r_["ch"][1]), (r_["ch"][1], r_["ch"][0])):
                                            sx_ = X.strip(x_)
                                            if sx_.get("k") == "un" and sx_.get("op") == "*" and X.strip(sx_["ch"][0]).get("d") == pd_ and X.const_val(y_) is not None:
                                                factor = ("mul" if r_["op"] == "*" else "add", X.const_val(y_), nar)
            if factor is not None:
                res.append((f, idx, cnt, factor, n))
    return res


def initial_value(unit, gname, init_fn="spifconf_init_subsystem"):
    f = unit.functions.get(init_fn)
    if f is None:
        return None
    val = None
    for n in walk(f.body):
        if n.get("k") == "assign" and n.get("op") == "=":
            # chained assignments: a = b = 20
            tgt = n
            targets = []
            while tgt is not None and tgt.get("k") == "assign" and tgt.get("op") == "=":
                targets.append(tgt["ch"][0])
                nxt = X.strip(tgt["ch"][1])
                if nxt.get("k") == "assign":
                    tgt = nxt
                else:
                    v = X.const_val(tgt["ch"][1])
                    break
            else:
                v = None
            if v is not None and any(glob_ref(t, gname) is not None for t in targets):
                val = v
    return val


def check_wrap(chk, unit, tables=None):
    sites = growth_sites(unit)
    n = 0
    for f, idx, cnt, factor, node in sites:
        if tables is not None and cnt["n"] not in tables:
            continue
        n += 1
        wi, wc = idx.get("tw") or 32, cnt.get("tw") or 32
        c0 = initial_value(unit, cnt["n"])
        site = "growth:%s/%s" % (idx["n"], cnt["n"])
        if c0 is None:
            chk.ob("W1", f.name, site, False, loc=f.loc(node),
                   detail="%s: the initial capacity %s is not set to a constant by spifconf_init_subsystem" % (f.name, cnt["n"]))
            continue
        capv = c0
        bad = None
        maxidx = (1 << wi) - 1
        i = 0
        while i < maxidx:
            i += 1                      # ++idx
            if i == capv:
                capv = (capv * factor[1]) if factor[0] == "mul" else (capv + factor[1])
                if len(factor) > 2 and factor[2]:
                    capv &= (1 << factor[2]) - 1          # computed in a narrower local first
                capv &= (1 << wc) - 1
            if capv <= i:
                bad = (i, capv)
                break
        chk.ob("W1", f.name, site, bad is None, loc=f.loc(node),
               detail="%s: capacity %s (a %d-bit value starting at %d) becomes %s when the table is grown at index %s: the table is "
                      "reallocated below the live index and the next store is out of bounds" % (
                          f.name, cnt["n"], wc, c0, bad[1] if bad else "", bad[0] if bad else ""),
               proof="capacity stays above the index for every index up to %d (%d-bit capacity from %d)" % (maxidx, wc, c0))
    return n


# --------------------------------------------------------------------------- file/context stack typestate
def is_dec_of(n, gname):
    return n.get("k") == "un" and n.get("op") == "--" and glob_ref(n["ch"][0], gname) is not None


def check_parse_line_stack(chk, unit):
    """P1: in spifconf_parse_line, a file pop / context end happens only for the <argv> push of the same call."""
    f = unit.functions.get("spifconf_parse_line")
    if f is None:
        raise AnalysisBroken("spifconf_parse_line not found")
    cfg = nullness.prepared_cfg(f, NORETURN)
    fp = "d%d" % f.params[0]["d"]
    npop = 0
    for scen, seed in (("fp==NULL", {("null", fp)}), ("fp!=NULL", {("nn", fp)})):
        bad_pop, bad_ret, pops = [], [], []

        def transfer(state, n, blk):
            st = nullness.transfer(state, n, blk)
            if n.get("k") == "call" and X.callee_name(n) == "spifconf_register_fstate":
                if X.is_null_const(n["ch"][1]):
                    st = st | {("argv", "pushed")}
            if is_dec_of(n, "fstate_idx"):
                st = frozenset(x for x in st if x != ("argv", "pushed"))
            return st

        def visit(state, n, blk):
            if is_dec_of(n, "fstate_idx"):
                pops.append(n)
                if ("argv", "pushed") not in state:
                    bad_pop.append(n)
            if n.get("k") == "return" and ("argv", "pushed") in state:
                bad_ret.append(n)
        flow.forward(cfg, frozenset(seed), transfer, refine=nullness.refine, visit=visit)
        npop += len(pops)
        chk.ob("P1", f.name, "pop-only-own-push[%s]" % scen, not bad_pop, loc=f.loc(bad_pop[0]) if bad_pop else f.loc(f.body),
               detail="spifconf_parse_line (%s): the file stack is popped (and the context ended) on a path on which this call pushed "
                      "nothing: the stack index underflows / the enclosing file or context is dropped" % scen,
               proof="every file_pop() is preceded on its path by this call's file_push(NULL, \"<argv>\", ..)")
        chk.ob("P1", f.name, "own-push-popped[%s]" % scen, not bad_ret, loc=f.loc(bad_ret[0]) if bad_ret else f.loc(f.body),
               detail="spifconf_parse_line (%s) returns with its <argv> pseudo-file still pushed" % scen,
               proof="every return after the <argv> push passes the matching pop")
    return npop


def check_parse_close_before_pop(chk, unit):
    f = unit.functions.get("spifconf_parse")
    if f is None:
        raise AnalysisBroken("spifconf_parse not found")
    cfg = nullness.prepared_cfg(f, NORETURN)
    # spifconf_parse and the static helpers it calls (the end-of-file handling may live in an extracted helper)
    from .listrules import unit_closure
    npops = 0
    for g in unit_closure(f, stop=r"^(spifconf_register_|spifconf_parse_line$|spifconf_find_file$|spifconf_open_file$)"):
        gcfg = nullness.prepared_cfg(g, NORETURN)
        pops = [n for n in walk(g.body) if is_dec_of(n, "fstate_idx")]
        closes = []
        for c in X.calls_in(g.body):
            if X.callee_name(c) == "fclose" and c["ch"][1:]:
                a = X.strip(c["ch"][1])
                if a.get("k") == "member" and a.get("n") == "fp":
                    closes.append(c)
        for p in pops:
            npops += 1
            ok = any(gcfg.node_dominates(c["i"], p["i"]) for c in closes)
            chk.ob("P4", g.name, "fclose-before-pop", ok, loc=g.loc(p),
                   detail="%s pops a file from the stack without closing its stream first (descriptor leak per file)" % g.name,
                   proof="fclose(file_peek_fp()) dominates file_pop()")
    pushes = [c for c in X.calls_in(f.body) if X.callee_name(c) == "spifconf_register_fstate"]
    for c in pushes:
        # push only after a successful open: the pushed stream is a local tested non-NULL
        a = X.strip(c["ch"][1])
        ok = False
        if a.get("k") == "ref":
            hits = []

            def visit(state, n, blk):
                if n is c:
                    hits.append(("nn", "d%d" % a["d"]) in state)
            flow.forward(cfg, frozenset(), nullness.transfer, refine=nullness.refine, visit=visit)
            ok = bool(hits) and all(hits)
        chk.ob("P4", f.name, "push-after-open", ok, loc=f.loc(c),
               detail="spifconf_parse pushes a stream that was not checked to be open", proof="the pushed FILE* is known non-NULL")
    return npops


def handler_calls(f):
    """indirect calls through a `.handler` member: [(call node, first arg, second arg)]"""
    res = []
    for c in X.calls_in(f.body):
        if X.callee_name(c):
            continue
        fnx = X.strip(c["ch"][0])
        while fnx is not None and fnx.get("k") == "un" and fnx.get("op") == "*":
            fnx = X.strip(fnx["ch"][0])
        is_handler = fnx is not None and fnx.get("k") == "member" and fnx.get("n") == "handler"
        if not is_handler and fnx is not None and fnx.get("k") == "ref" and fnx.get("rk") == "local":
            # the handler hoisted into a local:  h = context[id].handler;  state = (*h)(..)
            for x in walk(f.body):
                rhs = None
                if x.get("k") == "assign" and x.get("op") == "=" and X.strip(x["ch"][0]).get("d") == fnx["d"]:
                    rhs = x["ch"][1]
                if x.get("k") == "decl":
                    for dcl in x.get("decls", ()):
                        if dcl["d"] == fnx["d"] and dcl.get("init") is not None:
                            rhs = dcl["init"]
                if rhs is not None and any(y.get("k") == "member" and y.get("n") == "handler" for y in walk(rhs)):
                    is_handler = True
        if is_handler and len(c["ch"]) >= 3:
            res.append((c, c["ch"][1], c["ch"][2]))
    return res


def state_slot(e):
    """('top'|'last'|None) if e is ctx_state[<top index>].state / ctx_state[idx ? idx-1 : 0].state"""
    s = X.strip(e)
    if s is None or s.get("k") != "member" or s.get("n") != "state":
        return None
    b = X.strip(s["ch"][0])
    if b.get("k") != "index" or glob_ref(b["ch"][0], "ctx_state") is None:
        return None
    i = X.strip(b["ch"][1])
    if glob_ref(i, "ctx_state_idx") is not None:
        return "top"
    if i.get("k") == "cond":
        return "last"
    return "other"


def slot_pointer_tops(f, cfg, table="ctx_state", index="ctx_state_idx", push="spifconf_register_context_state"):
    """ids of the stores `p->state = ..` made through a local pointer into the context stack that points at the top entry at
    that moment.  Forward dataflow of the pointer's offset from the *current* top index: p = table + index (k = 0),
    p++ / p-- / p += c move the pointer, index++ / index-- / a push move the top."""
    def off_of(e):
        """c if e is `index + c` (c constant), else None"""
        s_ = X.strip(e)
        if s_ is None:
            return None
        if glob_ref(s_, index) is not None:
            return 0
        if s_.get("k") == "bin" and s_.get("op") in ("+", "-"):
            a_, b_ = off_of(s_["ch"][0]), X.const_val(s_["ch"][1])
            if a_ is not None and b_ is not None:
                return a_ + b_ if s_["op"] == "+" else a_ - b_
        return None

    def place(e):
        """offset from the top if e is table + (index + c) / &table[index + c]"""
        s_ = X.strip(e)
        if s_ is None:
            return None
        if s_.get("k") == "un" and s_.get("op") == "&":
            t_ = X.strip(s_["ch"][0])
            if t_ is not None and t_.get("k") == "index" and glob_ref(t_["ch"][0], table) is not None:
                return off_of(t_["ch"][1])
            return None
        if s_.get("k") == "bin" and s_.get("op") in ("+", "-") and s_.get("tp"):
            if glob_ref(s_["ch"][0], table) is not None and s_["op"] == "+":
                return off_of(s_["ch"][1])
            a_ = place(s_["ch"][0])
            c_ = X.const_val(s_["ch"][1])
            if a_ is not None and c_ is not None:
                return a_ + c_ if s_["op"] == "+" else a_ - c_
        return None
    tops = set()

    def shift(state, delta):
        return frozenset((d_, k_ + delta) for d_, k_ in state)

    def transfer(state, n, blk):
        k = n.get("k")
        if k == "assign":
            l_ = X.strip(n["ch"][0])
            if l_ is not None and l_.get("k") == "ref" and l_.get("rk") == "local" and l_.get("tp"):
                st = frozenset(x for x in state if x[0] != l_["d"])
                if n.get("op") == "=":
                    r_ = X.strip(n["ch"][1])
                    v_ = place(n["ch"][1])
                    if v_ is None and r_ is not None and r_.get("k") == "ref":
                        v_ = dict(state).get(r_.get("d"))
                    return st | {(l_["d"], v_)} if v_ is not None else st
                cur = dict(state).get(l_["d"])
                c_ = X.const_val(n["ch"][1])
                if cur is not None and c_ is not None and n.get("op") in ("+=", "-="):
                    return st | {(l_["d"], cur + c_ if n["op"] == "+=" else cur - c_)}
                return st
            if glob_ref(n["ch"][0], index) is not None:
                c_ = X.const_val(n["ch"][1])
                if c_ is not None and n.get("op") in ("+=", "-="):
                    return shift(state, -c_ if n["op"] == "+=" else c_)
                return frozenset()
        if k == "un" and n.get("op") in ("++", "--"):
            l_ = X.strip(n["ch"][0])
            if glob_ref(n["ch"][0], index) is not None:
                return shift(state, -1 if n["op"] == "++" else 1)
            if l_ is not None and l_.get("k") == "ref" and l_.get("rk") == "local":
                cur = dict(state).get(l_["d"])
                st = frozenset(x for x in state if x[0] != l_["d"])
                return st | {(l_["d"], cur + (1 if n["op"] == "++" else -1))} if cur is not None else st
        if k == "decl":
            st = state
            for dcl in n.get("decls", ()):
                st = frozenset(x for x in st if x[0] != dcl["d"])
                if dcl.get("init") is not None and place(dcl["init"]) is not None:
                    st = st | {(dcl["d"], place(dcl["init"]))}
            return st
        if k == "call":
            cn = X.callee_name(n)
            if cn == push:
                return shift(state, -1)
            if cn is not None and not re.match(r"libast_|spiftool_|str|mem|f?printf|free|spifmem_|fclose|fopen", cn):
                return frozenset()          # a call that may push or pop
        return state

    def visit(state, n, blk):
        if n.get("k") == "assign" and n.get("op") == "=":
            l_ = X.strip(n["ch"][0])
            if l_ is not None and l_.get("k") == "member" and l_.get("arrow") and l_.get("n") == "state":
                b_ = X.strip(l_["ch"][0])
                if b_ is not None and b_.get("k") == "ref" and dict(state).get(b_.get("d")) == 0:
                    tops.add(n["i"])
    flow.forward(cfg, frozenset(), transfer, join=lambda a, b: a & b, visit=visit)
    return tops


def check_handler_protocol(chk, unit):
    """the handler call sites of spifconf_parse_line and of the unit-local helpers it hands the begin / end protocol to"""
    from .listrules import unit_closure
    root = unit.functions.get("spifconf_parse_line")
    n = 0
    for f in unit_closure(root):
        if f.cfg is None or f.body is None:
            continue
        n += _handler_protocol_in(chk, unit, f)
    return n


def _handler_protocol_in(chk, unit, f):
    calls = handler_calls(f)
    n = 0
    cfg = nullness.prepared_cfg(f, NORETURN)
    ptr_tops = slot_pointer_tops(f, cfg) if calls else set()
    for c, a0, a1 in calls:
        s0 = X.strip(a0)
        lit = s0.get("sv") if s0.get("k") == "str" else None
        kind = "line"
        if lit is not None and lit[:1] == "\x01":
            kind = "begin"
        elif lit is not None and lit[:1] == "\x02":
            kind = "end"
        slot = state_slot(a1)
        s1 = X.strip(a1)
        if slot is None and s1 is not None and s1.get("k") == "ref" and s1.get("rk") == "local":
            # the state was first read into a local (a value, not a pointer into the stack): the slot it was read from, moved
            # down by the pushes between that read and the call; nothing may pop or overwrite a state in between
            defs = []
            for x in walk(f.body):
                if x.get("k") == "assign" and X.strip(x["ch"][0]).get("d") == s1["d"]:
                    defs.append((x, x["ch"][1] if x.get("op") == "=" else None))
                if x.get("k") == "decl":
                    for dcl in x.get("decls", ()):
                        if dcl["d"] == s1["d"] and dcl.get("init") is not None:
                            defs.append((x, dcl["init"]))
            if len(defs) == 1 and defs[0][1] is not None and cfg.node_dominates(defs[0][0]["i"], c["i"]):
                dn, rhs = defs[0]
                slot = state_slot(rhs)

                def between(m):
                    return m["i"] != dn["i"] and not any(y is m for y in walk(dn)) and cfg.node_dominates(dn["i"], m["i"]) and cfg.node_dominates(m["i"], c["i"])

                def after_def(m):
                    return not any(y is m for y in walk(dn)) and cfg.node_dominates(dn["i"], m["i"]) and not cfg.node_dominates(c["i"], m["i"])
                pushes_ = [p_ for p_ in X.calls_in(f.body) if X.callee_name(p_) == "spifconf_register_context_state" and after_def(p_)]
                moves = [m for m in walk(f.body) if (is_dec_of(m, "ctx_state_idx") or (m.get("k") == "assign" and state_slot(m["ch"][0]) is not None)
                                                     or (m.get("k") in ("assign", "un") and m.get("op") in ("=", "+=", "++") and m.get("ch") and
                                                         glob_ref(m["ch"][0], "ctx_state_idx") is not None)) and after_def(m) and m is not c]
                if moves:
                    slot = "other"
                elif len(pushes_) == 1 and between(pushes_[0]) and slot == "top":
                    slot = "last"
                elif pushes_:
                    slot = "other"
        n += 1
        want = {"begin": "last", "end": "top", "line": "top"}[kind]
        chk.ob("P2", f.name, "%s-handler-state-arg" % kind, slot == want, loc=f.loc(c),
               detail="the %s call of a context handler is given %s instead of the %s context's state" % (
                   kind, X.render(a1)[:50], "enclosing" if want == "last" else "innermost open"),
               proof="argument is ctx_state[%s].state" % ("idx ? idx-1 : 0" if want == "last" else "ctx_state_idx"))
        # the result is stored back into the stack
        par = f.parent.get(c["i"])
        while par is not None and par.get("k") in ("paren", "icast", "cast"):
            par = f.parent.get(par["i"])
        stored = False
        if par is not None and par.get("k") == "assign":
            tgt = X.strip(par["ch"][0])
            if state_slot(tgt) == "top":
                stored = True
            elif tgt.get("k") == "ref" and tgt.get("rk") == "local":
                # via a local: some later store of that local into the top slot
                for m in walk(f.body):
                    if m.get("k") == "assign" and (state_slot(m["ch"][0]) == "top" or m["i"] in ptr_tops):
                        r = X.strip(m["ch"][1])
                        if r.get("k") == "ref" and r.get("d") == tgt["d"] and cfg.node_dominates(par["i"], m["i"]):
                            stored = True
        chk.ob("P2", f.name, "%s-handler-result-stored" % kind, stored, loc=f.loc(c),
               detail="the state returned by the %s handler call is not stored back into the context stack: the handler does not receive "
                      "next what it returned" % kind,
               proof="result flows into ctx_state[ctx_state_idx].state")
        if kind == "begin":
            pushes = [p for p in X.calls_in(f.body) if X.callee_name(p) == "spifconf_register_context_state" and cfg.node_dominates(p["i"], c["i"])]
            chk.ob("P2", f.name, "begin-after-push", bool(pushes), loc=f.loc(c),
                   detail="the begin handler is called before the new context is pushed", proof="ctx_push() dominates the begin call")
        if kind == "end":
            pops = [m for m in walk(f.body) if is_dec_of(m, "ctx_state_idx") and cfg.node_dominates(c["i"], m["i"])]
            guarded = False
            for anc in f.ancestors(c):
                if anc.get("k") == "if" and any(glob_ref(y, "ctx_state_idx") is not None for y in walk(anc["cond"])):
                    inthen = any(y is c for y in walk(anc["then"]))
                    # the guard is the truthiness of the depth (depth, depth != 0, depth > 0) on the arm that holds the call
                    facts_ = X.implied(anc["cond"], inthen)
                    if any(f_[0] in ("true", "ne") or (f_[0] == "cmp" and f_[1] in (">", ">=")) for f_ in facts_) or glob_ref(anc["cond"], "ctx_state_idx") is not None:
                        guarded = True
            if not guarded:
                # early-exit form: `if (!depth) return ..;` in front of the call
                for gi in walk(f.body):
                    if gi.get("k") != "if" or gi.get("else") is not None or not any(glob_ref(y, "ctx_state_idx") is not None for y in walk(gi["cond"])):
                        continue
                    facts_ = X.implied(gi["cond"], True)
                    zero_arm = any(f_[0] in ("false",) or (f_[0] == "eq" and len(f_) > 2 and f_[2] == 0) for f_ in facts_)
                    th = gi["then"]
                    last = th["ch"][-1] if th.get("k") == "block" and th.get("ch") else th
                    leaves = last is not None and last.get("k") == "return"
                    cn_ = X.strip(gi["cond"])
                    if zero_arm and leaves and cn_ is not None and cfg.node_dominates(cn_["i"], c["i"]):
                        guarded = True
            chk.ob("P2", f.name, "end-before-pop", bool(pops), loc=f.loc(c),
                   detail="the end handler call is not followed by the pop of its context", proof="the end call dominates ctx_pop()")
            chk.ob("P2", f.name, "end-guarded-by-depth", guarded, loc=f.loc(c),
                   detail="a surplus `end` is not ignored: the end handler / pop is not guarded by the stack depth",
                   proof="inside if (ctx_get_depth())")
    return n


def case_label_of(f, node):
    """the case/default label governing `node` inside its innermost switch (labels wrap only their first statement)"""
    child = node
    for anc in f.ancestors(node):
        if anc.get("k") in ("case", "default"):
            return anc
        par = f.parent.get(anc["i"])
        if anc.get("k") == "block" and par is not None and par.get("k") == "switch":
            sibs = anc.get("ch", [])
            idx = None
            for i, s_ in enumerate(sibs):
                if s_ is child or any(y is child for y in walk(s_)):
                    idx = i
                    break
            if idx is None:
                return None
            for s_ in reversed(sibs[:idx + 1]):
                lab = s_
                last = None
                while lab is not None and lab.get("k") in ("case", "default"):
                    last = lab
                    lab = lab.get("sub")
                if last is not None:
                    return last
            return None
        child = anc
    return None


# --------------------------------------------------------------------------- who may spawn
def check_spawn(chk, prog, allowed):
    """E1: spawning calls only in the allowed functions, in each under its trigger - or in a static helper all of whose call
    sites are themselves in such a position (a helper extracted from an allowed function)."""
    n = 0
    callers = {}
    for g in prog.all_functions():
        for c in X.calls_in(g.body):
            cn = X.callee_name(c)
            if cn:
                callers.setdefault(cn, []).append((g, c))

    def mentions_trigger(f, e, trig, depth=0):
        for x in walk(e):
            if x.get("k") == "str" and trig in (x.get("sv") or ""):
                return True
            if x.get("k") == "ref" and x.get("rk") == "local" and depth < 2:
                # a flag computed from the directive test beforehand (is_preproc = directive && !strncasecmp(.., "preproc "))
                defs = []       # (value expression, defining node)
                for y in walk(f.body):
                    if y.get("k") == "assign" and y.get("op") == "=" and X.strip(y["ch"][0]).get("d") == x.get("d"):
                        defs.append((y["ch"][1], y))
                    elif y.get("k") == "decl":
                        defs += [(d["init"], y) for d in y.get("decls", ()) if d["d"] == x.get("d") and d.get("init") is not None]
                truthy = [(v, y) for v, y in defs if X.const_val(v) is None or X.const_val(v)]
                # every way the flag becomes true carries the trigger: computed from the directive test, or set to a truthy
                # constant under it
                if truthy and all((X.const_val(v) is None and mentions_trigger(f, v, trig, depth + 1)) or
                                  (X.const_val(v) is not None and under_trigger(f, y, trig, depth + 1)) for v, y in truthy):
                    return True
        return False

    def under_trigger(f, c, trig, depth=0):
        child = c
        for anc in f.ancestors(c):
            if anc.get("k") == "if" and anc.get("then") is not None and any(y is child for y in walk(anc["then"])):
                if mentions_trigger(f, anc["cond"], trig, depth):
                    return True
            if anc.get("k") == "switch":
                # switch (classify_line(buff)): the directive tests live in the classifying helper; the case arm stands for one of
                # its verdicts (which verdict is not followed - the arm is accepted when the classifier tests this directive)
                sc_ = X.strip(anc.get("cond") if anc.get("cond") is not None else anc["ch"][0])
                g_ = f.unit.functions.get(X.callee_name(sc_) or "") if sc_ is not None and sc_.get("k") == "call" else None
                if g_ is not None and g_.body is not None and any(x.get("k") == "str" and trig in (x.get("sv") or "") for x in walk(g_.body)):
                    return True
            child = anc
        return False

    def position_ok(f, c, depth=0, met=frozenset()):
        """(ok, description) for a call c inside f; met: the directive tests the chain of helper calls already sits under"""
        if f.name in allowed:
            trig = allowed[f.name]
            if not trig or trig in met or under_trigger(f, c, trig):
                return True, "in %s%s" % (f.name, (" under the `%s` test" % trig) if trig else "")
            return False, "in %s outside the `%s` directive test" % (f.name, trig)
        if f.static and depth < 4 and callers.get(f.name):
            # the test may sit at any level of the chain (parse_line -> parse_directive [tests "preproc "] -> directive_preproc)
            met2 = met | frozenset(t_ for t_ in set(allowed.values()) if t_ and under_trigger(f, c, t_))
            subs = [position_ok(g, cc, depth + 1, met2) for g, cc in callers[f.name] if g.unit is f.unit]
            if subs and all(ok for ok, _ in subs):
                return True, "in helper %s, called only %s" % (f.name, subs[0][1])
        return False, "in %s" % f.name
    for f in prog.all_functions():
        for c in X.calls_in(f.body):
            cn = X.callee_name(c)
            if cn in SPAWNERS:
                n += 1
                ok, where = position_ok(f, c)
                chk.ob("E1", f.name, "spawn:" + cn, ok, loc=f.loc(c),
                       detail="%s calls %s() %s: text without a backquote or an %%exec/%%preproc directive could start a process" % (
                           f.name, cn, where),
                       proof="only %s" % where)
    return n


def check_exec_reachability(chk, prog, unit):
    """E2: builtin_exec is referenced only by the builtin table registration ("exec") and the backquote arm."""
    f_exec = unit.functions.get("builtin_exec")
    if f_exec is None:
        raise AnalysisBroken("builtin_exec not found")
    n = 0
    for f in unit.functions.values():
        for x in walk(f.body):
            if x.get("k") == "ref" and x.get("rk") == "func" and x.get("n") == "builtin_exec":
                n += 1
                ok = False
                why = ""
                # registration: argument of spifconf_register_builtin("exec", ..)
                p = f.parent.get(x["i"])
                while p is not None and p.get("k") in ("paren", "icast", "cast"):
                    p = f.parent.get(p["i"])
                if p is not None and p.get("k") == "call" and X.callee_name(p) == "spifconf_register_builtin":
                    a0 = X.strip(p["ch"][1])
                    ok = a0.get("k") == "str" and a0.get("sv", "").split("\0")[0] == "exec"
                    why = "registered under the name %r" % a0.get("sv")
                elif p is not None and p.get("k") == "call" and X.strip(p["ch"][0]) is X.strip(x):
                    # direct call: must sit under case '`'
                    lab = case_label_of(f, p)
                    ok = lab is not None and lab.get("k") == "case" and X.const_val(lab.get("val")) == ord("`")
                    why = "direct call under %s" % (X.render(lab.get("val")) if lab is not None and lab.get("val") else "no case label")
                    if not ok:
                        # the backquote arm written as a branch of an if / else-if chain on the current character
                        child = p
                        for anc in f.ancestors(p):
                            if anc.get("k") == "if" and anc.get("then") is not None and any(y is child for y in walk(anc["then"])) and any(
                                    y.get("k") == "bin" and y.get("op") == "==" and ord("`") in (X.const_val(y["ch"][0]), X.const_val(y["ch"][1]))
                                    for y in walk(anc["cond"])):
                                ok = True
                                why = "direct call under the test %s" % X.render(anc["cond"])[:30]
                                break
                            child = anc
                chk.ob("E2", f.name, "exec-reference", ok, loc=f.loc(x),
                       detail="%s refers to builtin_exec outside the \"exec\" table entry and the backquote arm (%s)" % (f.name, why),
                       proof="table entry \"exec\" / backquote case")
    return n


# --------------------------------------------------------------------------- temp file protocol
def check_tempfile(chk, prog):
    f = prog.fn("spiftool_temp_file")
    if f is None:
        raise AnalysisBroken("spiftool_temp_file not found")
    cfg = nullness.prepared_cfg(f, NORETURN)
    calls = {}
    for c in X.calls_in(f.body):
        calls.setdefault(X.callee_name(c), []).append(c)
    mk = calls.get("mkstemp", [])
    um = calls.get("umask", [])
    fc = calls.get("fchmod", [])
    ok_create = len(mk) == 1
    chk.ob("T1", f.name, "created-by-mkstemp", ok_create and not (set(calls) & {"open", "fopen", "creat", "tmpnam", "mktemp", "tempnam"}),
           loc=f.loc(f.body), detail="the temporary file is not created by a single mkstemp() (unique name, O_EXCL)", proof="one mkstemp() call")
    if not mk:
        return
    m = mk[0]
    restrictive = [u for u in um if X.const_val(u["ch"][1]) is not None and (X.const_val(u["ch"][1]) & 0o077) == 0o077 and cfg.node_dominates(u["i"], m["i"])]
    chk.ob("T1", f.name, "umask-077-before", bool(restrictive), loc=f.loc(m),
           detail="mkstemp() is not preceded by umask(077): the file can be created group/world accessible", proof="umask(0077) dominates mkstemp()")
    restored = [u for u in um if X.const_val(u["ch"][1]) is None and cfg.node_dominates(m["i"], u["i"])]
    chk.ob("T1", f.name, "umask-restored", bool(restored), loc=f.loc(m),
           detail="the caller's umask is not restored after mkstemp()", proof="umask(saved) follows mkstemp()")
    good_mode = [c for c in fc if X.const_val(c["ch"][2]) == 0o600 and cfg.node_dominates(m["i"], c["i"])]
    chk.ob("T1", f.name, "fchmod-0600", bool(good_mode), loc=f.loc(m),
           detail="the new file is not forced to mode 0600 (fchmod(fd, S_IRUSR|S_IWUSR))", proof="fchmod(fd, 0600) follows mkstemp()")
    # the returned descriptor is the mkstemp result, and every success return is after the fchmod
    fdvar = None
    p = f.parent.get(m["i"])
    while p is not None and p.get("k") in ("paren", "icast", "cast"):
        p = f.parent.get(p["i"])
    if p is not None and p.get("k") == "assign":
        fdvar = X.strip(p["ch"][0]).get("d")
    for r in walk(f.body):
        if r.get("k") == "return" and r.get("val") is not None:
            v = X.strip(r["val"])
            if v.get("k") == "ref" and v.get("d") == fdvar:
                ok = any(cfg.node_dominates(c["i"], r["i"]) for c in good_mode)
                chk.ob("T1", f.name, "success-after-fchmod", ok, loc=f.loc(r),
                       detail="a descriptor is returned on a path that skipped the fchmod(0600)", proof="fchmod dominates the success return")


# --------------------------------------------------------------------------- lifecycle
def check_lifecycle(chk, unit):
    init = unit.functions.get("spifconf_init_subsystem")
    free = unit.functions.get("spifconf_free_subsystem")
    if init is None or free is None:
        raise AnalysisBroken("init/free subsystem not found")
    # file-static scalars that other functions modify must be (re)set by init
    modified = {}
    for f in unit.functions.values():
        if f is init:
            continue
        for n in walk(f.body):
            tgt = None
            if n.get("k") == "assign":
                tgt = n["ch"][0]
            elif n.get("k") == "un" and n.get("op") in ("++", "--"):
                tgt = n["ch"][0]
            g = glob_ref(tgt) if tgt is not None else None
            if g is not None and not g.get("tp") and g.get("tw"):
                modified.setdefault(g["n"], f.name)
    assigned = set()
    for n in walk(init.body):
        if n.get("k") == "assign":
            g = glob_ref(n["ch"][0])
            if g is not None:
                assigned.add(g["n"])
    ninit = 0
    for g, by in sorted(modified.items()):
        if not re.search(r"(_idx|_cnt)$", g):
            continue
        ninit += 1
        chk.ob("L1", init.name, "init-resets:" + g, g in assigned, loc=init.loc(init.body),
               detail="%s does not reset `%s` (modified by %s): a second init/use cycle starts from the previous cycle's value" % (init.name, g, by),
               proof="assigned in %s" % init.name)
    # free: every global pointer it releases (directly or through a walking alias) is left NULL / reassigned
    al = {}
    changed = True
    while changed:
        changed = False
        for n in walk(free.body):
            if n.get("k") == "assign" and n.get("op") == "=":
                l = X.strip(n["ch"][0])
                if l.get("k") == "ref" and l.get("rk") == "local" and l["d"] not in al:
                    r = X.strip(n["ch"][1])
                    b = r
                    while b is not None and b.get("k") == "member":
                        b = X.strip(b["ch"][0])
                    if b is not None and b.get("k") == "ref":
                        if b.get("rk") == "global" and b.get("tp") and r is b:
                            al[l["d"]] = b["n"]
                            changed = True
                        elif b.get("d") in al:
                            al[l["d"]] = al[b["d"]]
                            changed = True
    released = {}
    for c in X.calls_in(free.body):
        if own.release_kind(c) in ("free", "del") or (X.callee_name(c) or "").endswith("_free_var"):
            a = X.strip(c["ch"][1]) if c["ch"][1:] else None
            if a is None:
                continue
            if a.get("k") == "ref" and a.get("rk") == "global":
                released.setdefault(a["n"], c)
            elif a.get("k") == "ref" and a.get("d") in al:
                released.setdefault(al[a["d"]], c)
    stored = set()
    for n in walk(free.body):
        if n.get("k") == "assign":
            g = glob_ref(n["ch"][0])
            if g is not None:
                stored.add(g["n"])
    nfree = 0
    for g, c in sorted(released.items()):
        nfree += 1
        chk.ob("L2", free.name, "free-resets:" + g, g in stored or g in assigned, loc=free.loc(c),
               detail="%s releases what `%s` points to but leaves the pointer set (and init does not reset it): the next cycle walks "
                      "freed memory" % (free.name, g),
               proof="`%s` is NULLed by free (FREE() nulls its argument) or re-assigned by init" % g)
    return ninit, nfree


# --------------------------------------------------------------------------- push functions write only the new top
def check_push_writes(chk, unit, fnames):
    """P3: in a push function of a live-top stack every write into the table is dominated by the increment of the index
    (entries at or below the old top belong to open contexts / files)."""
    n = 0
    sites = {f.name: (idx, cnt) for f, idx, cnt, fac, node in growth_sites(unit)}
    for name in fnames:
        f = unit.functions.get(name)
        if f is None or name not in sites:
            raise AnalysisBroken("push function %s (with its growth site) not found" % name)
        idx, cnt = sites[name]
        cfg = nullness.prepared_cfg(f, NORETURN)
        incs = [x for x in walk(f.body) if x.get("k") == "un" and x.get("op") == "++" and glob_ref(x["ch"][0], idx["n"]) is not None]
        incs += [x for x in walk(f.body) if x.get("k") == "assign" and glob_ref(x["ch"][0], idx["n"]) is not None]
        # the table: the global pointer reallocated in the growth arm
        # the table: the global pointer that is handed to the reallocation in the growth arm
        tab = None
        for c in X.calls_in(f.body):
            if X.callee_name(c) in ("realloc", "spifmem_realloc"):
                for a in c["ch"][1:]:
                    for y in walk(a):
                        g_ = glob_ref(y)
                        if g_ is not None and g_.get("tp") and g_["n"] not in (idx["n"], cnt["n"]):
                            tab = g_["n"]
        if tab is None:
            # reallocated by a unit-local helper that is handed the table (TAB = grow(TAB, &CNT, size))
            for c in X.calls_in(f.body):
                g_ = unit.functions.get(X.callee_name(c) or "")
                if g_ is not None and g_.body is not None and any(X.callee_name(c2) in ("realloc", "spifmem_realloc") for c2 in X.calls_in(g_.body)):
                    for a in c["ch"][1:]:
                        sa = X.strip(a)
                        g2 = glob_ref(sa) if sa is not None else None
                        if g2 is not None and g2.get("tp") and g2["n"] not in (idx["n"], cnt["n"]):
                            tab = g2["n"]
        if tab is None:
            raise AnalysisBroken("table of %s not recognised" % name)
        # locals that point into the table (top = TAB + IDX; slot = &TAB[IDX])
        into = set()
        for x in walk(f.body):
            pairs = []
            if x.get("k") == "assign" and x.get("op") == "=":
                pairs.append((X.strip(x["ch"][0]), x["ch"][1]))
            if x.get("k") == "decl":
                for dcl in x.get("decls", ()):
                    if dcl.get("init") is not None:
                        pairs.append(({"k": "ref", "rk": "local", "d": dcl["d"], "tp": dcl.get("tp")}, dcl["init"]))
            for l_, r_ in pairs:
                if l_.get("k") == "ref" and l_.get("rk") == "local" and any(glob_ref(y, tab) is not None for y in walk(r_)) and \
                        not any(X.callee_name(c) in ("realloc", "spifmem_realloc") for c in X.calls_in(r_)):
                    into.add(l_["d"])
        writes = []
        for x in walk(f.body):
            if x.get("k") == "assign":
                l = X.strip(x["ch"][0])
                b = l
                while b is not None and b.get("k") in ("member", "index") or (b is not None and b.get("k") == "un" and b.get("op") == "*"):
                    b = X.strip(b["ch"][0])
                if b is not None and l.get("k") != "ref" and (glob_ref(b, tab) is not None or (b.get("k") == "ref" and b.get("d") in into)):
                    writes.append(x)
            if x.get("k") == "call" and X.callee_name(x) in ("memset", "memcpy", "memmove", "bzero"):
                d = x["ch"][1]
                if any(glob_ref(y, tab) is not None for y in walk(d)):
                    writes.append(x)
        for w in writes:
            n += 1
            ok = any(cfg.node_dominates(i_["i"], w["i"]) for i_ in incs)
            chk.ob("P3", name, "write-above-old-top:" + canon(f, w)[:40], ok, loc=f.loc(w),
                   detail="%s writes into %s (%s) before the index is advanced: the entry of the enclosing open context / file is overwritten"
                          % (name, tab, X.render(w)[:50]),
                   proof="dominated by the increment of %s" % idx["n"])
    return n


def check_null_literal_args(chk, prog, unit, rule="P5"):
    """No call hands a NULL constant to a parameter that the callee treats as a broken invariant (ASSERT: refused at runtime
    level 0, fatal at level >= 1).  Such a call can never do what the caller wrote it for; in spifconf_parse_line this is
    the push of the <argv> pseudo-file, whose pop then underflows the file stack."""
    fatal = nullness.fatal_guarded_params(prog, NORETURN)
    n = 0
    for f in unit.functions.values():
        for c in X.calls_in(f.body):
            cn = X.callee_name(c)
            if not cn or prog.fn(cn) is None:
                continue
            for j, a in enumerate(c["ch"][1:]):
                if X.is_null_const(a) and (X.is_pointer(a) or X.is_pointer(X.strip(a)) or True) and (cn, j) in fatal:
                    g = prog.fn(cn)
                    if j >= len(g.params) or not g.params[j].get("tp"):
                        continue
                    n += 1
                    chk.ob(rule, f.name, "null-literal-to-asserted-param:%s#%d" % (cn, j), False, loc=f.loc(c),
                           detail="%s calls %s with NULL for `%s`, which %s ASSERTs to be non-NULL: the call is refused (runtime level 0) or "
                                  "kills the process (level >= 1), so what %s relies on it to do - here pushing an entry whose pop follows - "
                                  "never happens" % (f.name, cn, g.params[j]["n"], cn, f.name))
    if not n:
        chk.ob(rule, unit.name, "null-literal-to-asserted-param", True, loc="src/" + unit.name,
               proof="no call passes a NULL constant to an ASSERT-guarded parameter")
    return n


FORMAT_FUNCS = {"libast_print_error": 0, "libast_print_warning": 0, "libast_fatal_error": 0, "libast_dprintf": 0, "printf": 0,
                "fprintf": 1, "sprintf": 1, "snprintf": 2, "__builtin___snprintf_chk": 4, "__builtin___sprintf_chk": 3}


def check_format_args(chk, units, rule="F1"):
    """Every printf-style call with a literal format passes exactly as many data arguments as the format has conversions:
    a conversion without an argument makes the callee read an unwritten register / stack slot (a literal "%get()" in a
    message is the conversion %g)."""
    n = 0
    for u in units:
        for f in u.functions.values():
            for c in X.calls_in(f.body):
                cn = X.callee_name(c)
                if cn not in FORMAT_FUNCS:
                    continue
                args = c["ch"][1:]
                fi = FORMAT_FUNCS[cn]
                if fi >= len(args):
                    continue
                fmt = X.strip(args[fi])
                if fmt is None or fmt.get("k") != "str":
                    continue
                text = (fmt.get("sv") or "").split("\0")[0]
                convs = re.findall(r"%(?!%)[-+ #0]*(\*|\d+)?(?:\.(\*|\d+))?(?:hh|h|ll|l|L|z|j|t|q)?[diouxXeEfFgGaAcspn]", text.replace("%%", ""))
                need = len(convs) + sum(1 for w, p_ in convs if w == "*") + sum(1 for w, p_ in convs if p_ == "*")
                have = len(args) - fi - 1
                n += 1
                chk.ob(rule, f.name, "format-args:" + canon(f, c)[:40], have >= need, loc=f.loc(c),
                       detail="%s: the format %r has %d conversion(s) but the call passes %d argument(s): the missing ones are read from "
                              "unwritten registers / stack (an unescaped %% in a message text, e.g. %%get(), is a conversion)" % (
                                  f.name, text[:60], need, have),
                       proof="%d conversion(s), %d argument(s)" % (need, have))
    return n


def entry_of(f, lhs):
    """(table node, index node, field name) of a store target T[i].f - also when it is written through a slot pointer
    `e = &T[i]; e->f = ..` (e a local with that single definition, or defined so on every assignment) - else None"""
    l = X.strip(lhs)
    if l is None or l.get("k") != "member":
        return None
    b = X.strip(l["ch"][0])
    if b is None:
        return None
    if b.get("k") == "index":
        return b["ch"][0], b["ch"][1], l.get("n")
    if b.get("k") == "ref" and b.get("rk") == "local" and l.get("arrow"):
        defs = []
        for x in walk(f.body):
            if x.get("k") == "assign" and x.get("op") == "=" and (X.strip(x["ch"][0]) or {}).get("d") == b["d"]:
                defs.append(x["ch"][1])
            if x.get("k") == "decl":
                for dcl in x.get("decls", ()):
                    if dcl["d"] == b["d"] and dcl.get("init") is not None:
                        defs.append(dcl["init"])
        if len(defs) != 1:
            return None
        r = X.strip(defs[0])
        if r is not None and r.get("k") == "un" and r.get("op") == "&":
            t = X.strip(r["ch"][0])
            if t is not None and t.get("k") == "index":
                return t["ch"][0], t["ch"][1], l.get("n")
        if r is not None and r.get("k") == "bin" and r.get("op") == "+" and (r.get("tp") or X.strip(r["ch"][0]).get("tp")):
            return r["ch"][0], r["ch"][1], l.get("n")
    return None


def check_release_refill(chk, unit, rule="L4"):
    """A table entry's field that is released (FREE(T[i].f)) is filled again on every path that follows, at the same entry:
    readers of the table walk all entries and use the field unconditionally, so an entry left without it is a NULL
    dereference waiting for the next lookup (re-registering the catch-all "null" context)."""
    n = 0
    for f in unit.functions.values():
        if re.search(r"free_subsystem|_free_", f.name):
            continue
        cfg = None
        for c in X.calls_in(f.body):
            if own.release_kind(c) != "free" or not c["ch"][1:]:
                continue
            a = X.strip(c["ch"][1])
            if a is None or a.get("k") != "member":
                continue
            b = X.strip(a["ch"][0])
            if b is not None and b.get("k") == "ref" and b.get("rk") == "local" and a.get("arrow"):
                # released through a slot pointer every definition of which points into a global table (entry = context;
                # entry = context + id): on every path from the release, entry->f is stored (non-NULL) before the function
                # returns or the pointer moves
                def into_table(e):
                    e = X.strip(e)
                    if e is None:
                        return False
                    if glob_ref(e) is not None and e.get("tp"):
                        return True
                    if e.get("k") == "un" and e.get("op") == "&":
                        t = X.strip(e["ch"][0])
                        return t is not None and t.get("k") == "index" and glob_ref(t["ch"][0]) is not None
                    if e.get("k") == "bin" and e.get("op") == "+":
                        return glob_ref(e["ch"][0]) is not None or glob_ref(e["ch"][1]) is not None
                    return False
                defs_ = _local_defs(f, b["d"])
                if not defs_ or not all(into_table(e_) for e_ in defs_):
                    continue
                n += 1
                cfg = cfg or nullness.prepared_cfg(f, NORETURN)
                fld_, pd_ = a.get("n"), b["d"]
                bad_ = []

                def tr_(st, x, blk, c=c, fld_=fld_, pd_=pd_):
                    if x is c or x.get("i") == c.get("i"):
                        return st | {("rel",)}
                    if x.get("k") == "assign" and x.get("op") == "=":
                        l_ = X.strip(x["ch"][0])
                        if l_ is not None and l_.get("k") == "member" and l_.get("n") == fld_ and (X.strip(l_["ch"][0]) or {}).get("d") == pd_ \
                                and not X.is_null_const(x["ch"][1]):
                            return frozenset(t for t in st if t != ("rel",))
                    return st

                def vis_(st, x, blk, pd_=pd_, bad_=bad_):
                    if ("rel",) not in st:
                        return
                    if x.get("k") == "return":
                        bad_.append(x)
                    if x.get("k") == "assign" and x.get("op") == "=" and (X.strip(x["ch"][0]) or {}).get("d") == pd_ and (X.strip(x["ch"][0]) or {}).get("k") == "ref":
                        bad_.append(x)
                flow.forward(cfg, frozenset(), tr_, join=lambda p_, q_: p_ | q_, visit=vis_)
                chk.ob(rule, f.name, "refill:" + canon(f, a)[:40], not bad_, loc=f.loc(bad_[0]) if bad_ else f.loc(c),
                       detail="%s releases %s and can return (or move the slot pointer on) without storing the field again: every reader of "
                              "the table uses the field unconditionally" % (f.name, X.render(a)[:40]),
                       proof="a non-NULL store to the same field through the same slot pointer follows on every path")
                continue
            if b.get("k") != "index" or glob_ref(b["ch"][0]) is None:
                continue
            n += 1
            cfg = cfg or nullness.prepared_cfg(f, NORETURN)
            key = canon(f, a)
            refills = [x for x in walk(f.body) if x.get("k") == "assign" and x.get("op") == "=" and canon(f, x["ch"][0]) == key
                       and not X.is_null_const(x["ch"][1]) and x["i"] != c.get("i")]
            # FREE() itself stores NULL into its argument: that store is part of the release
            ok = any(cfg.node_dominates(c["i"], x["i"]) for x in refills)
            others = []
            for x in walk(f.body):
                if x.get("k") == "assign" and x.get("op") == "=" and canon(f, x["ch"][0]) != key:
                    eo = entry_of(f, x["ch"][0])
                    if eo is not None and eo[2] == a.get("n") and canon(f, eo[0]) == canon(f, b["ch"][0]):
                        if canon(f, eo[1]) == canon(f, b["ch"][1]) and not X.is_null_const(x["ch"][1]):
                            refills.append(x)          # the same entry, written through a slot pointer
                        else:
                            others.append(x)
            ok = ok or any(cfg.node_dominates(c["i"], x["i"]) for x in refills)
            # the contradiction reported: the field of one entry is released and then the same field of ANOTHER entry is filled
            # (an entry that is simply dropped afterwards - popped off its stack - is not this rule's business)
            def reaches(a_id, b_id):
                ba = [b_ for b_, bl in cfg.blocks.items() if a_id in bl.el]
                bb = [b_ for b_, bl in cfg.blocks.items() if b_id in bl.el]
                if not ba or not bb:
                    return False
                if ba[0] == bb[0]:
                    return cfg.blocks[ba[0]].el.index(a_id) < cfg.blocks[ba[0]].el.index(b_id)
                seen_, work_ = {ba[0]}, [ba[0]]
                while work_:
                    cur_ = work_.pop()
                    for s_, _, _ in cfg.edges(cur_):
                        if s_ == bb[0]:
                            return True
                        if s_ not in seen_:
                            seen_.add(s_)
                            work_.append(s_)
                return False
            others = [x for x in others if reaches(c["i"], x["i"])]
            # a store whose index is a local that holds, on every path from the release, the released entry's constant index
            # is a refill of that entry (id = 0; ...; T[id].f = ..)
            rel_idx = X.const_val(b["ch"][1])
            if rel_idx is not None and others:
                def step_(state, x_):
                    if x_.get("k") == "assign" and x_.get("op") == "=":
                        l_ = X.strip(x_["ch"][0])
                        if l_.get("k") == "ref" and l_.get("rk") == "local":
                            st_ = frozenset(t for t in state if t[1] != l_["d"])
                            cv_ = X.const_val(x_["ch"][1])
                            if cv_ is not None:
                                return st_ | {("val", l_["d"], cv_)}
                            # a slot pointer taken while the index local holds the released entry's index: e = &T[id]
                            r_ = X.strip(x_["ch"][1])
                            tb_, j_ = None, None
                            if r_ is not None and r_.get("k") == "un" and r_.get("op") == "&":
                                t_ = X.strip(r_["ch"][0])
                                if t_ is not None and t_.get("k") == "index":
                                    tb_, j_ = t_["ch"][0], X.strip(t_["ch"][1])
                            elif r_ is not None and r_.get("k") == "bin" and r_.get("op") == "+":
                                tb_, j_ = r_["ch"][0], X.strip(r_["ch"][1])          # e = T + id
                            if tb_ is not None and j_ is not None and canon(f, tb_) == canon(f, b["ch"][0]):
                                if X.const_val(j_) == rel_idx or (j_.get("k") == "ref" and ("val", j_.get("d"), rel_idx) in state):
                                    return st_ | {("slot", l_["d"], rel_idx)}
                            return st_
                    return state
                # forward from the release only (paths that do not pass the release are not this rule's business)
                rb = [b2 for b2, bl in cfg.blocks.items() if c["i"] in bl.el][0]
                ins_ = {}
                # constants the index locals hold when the release is reached (must-analysis from the entry)
                pre_ = {cfg.entry: frozenset()}
                wk_ = [cfg.entry]
                while wk_:
                    cur_ = wk_.pop()
                    stp_ = pre_[cur_]
                    for e_ in cfg.blocks[cur_].el:
                        nd_ = f.nodes.get(e_)
                        if nd_ is not None:
                            stp_ = step_(stp_, nd_)
                    for s_, _, _ in cfg.edges(cur_):
                        new_ = stp_ if s_ not in pre_ else (pre_[s_] & stp_)
                        if s_ not in pre_ or new_ != pre_[s_]:
                            pre_[s_] = new_
                            wk_.append(s_)
                st0 = pre_.get(rb, frozenset())
                els = cfg.blocks[rb].el
                for e_ in els[:els.index(c["i"])]:
                    nd_ = f.nodes.get(e_)
                    if nd_ is not None:
                        st0 = step_(st0, nd_)
                for e_ in els[els.index(c["i"]) + 1:]:
                    nd_ = f.nodes.get(e_)
                    if nd_ is not None:
                        st0 = step_(st0, nd_)
                work_ = []
                for s_, _, _ in cfg.edges(rb):
                    ins_[s_] = st0
                    work_.append(s_)
                same = []
                seen_store = {}
                while work_:
                    cur_ = work_.pop()
                    st_ = ins_[cur_]
                    for e_ in cfg.blocks[cur_].el:
                        nd_ = f.nodes.get(e_)
                        if nd_ is None:
                            continue
                        if any(nd_ is o for o in others):
                            base_ = X.strip(X.strip(nd_["ch"][0])["ch"][0])
                            if base_.get("k") == "index":
                                ix_ = X.strip(base_["ch"][1])
                                hit_ = ix_.get("k") == "ref" and ("val", ix_.get("d"), rel_idx) in st_
                            else:
                                hit_ = base_.get("k") == "ref" and ("slot", base_.get("d"), rel_idx) in st_
                            seen_store[nd_["i"]] = seen_store.get(nd_["i"], True) and hit_
                        st_ = step_(st_, nd_)
                    for s_, _, _ in cfg.edges(cur_):
                        new_ = st_ if s_ not in ins_ else (ins_[s_] & st_)
                        if s_ not in ins_ or new_ != ins_[s_]:
                            ins_[s_] = new_
                            work_.append(s_)
                same = [x for x in others if seen_store.get(x["i"])]
                if same:
                    ok = True
                others = [x for x in others if not any(x is y for y in same)]
            ok = ok or not others
            chk.ob(rule, f.name, "released-entry-refilled:" + key[:40], ok, loc=f.loc(c),
                   detail="%s releases %s and never stores a new value into that same entry afterwards%s: the entry keeps a NULL %s, and the "
                          "table's readers use it unconditionally" % (f.name, X.render(a)[:40], (" (it stores into %s instead)" % X.render(others[0]["ch"][0])[:40]) if others else "", a.get("n")),
                   proof="a store to the same entry follows the release on every path")
    return n


def check_push_initialises(chk, prog, unit, rule="P6"):
    """A function that takes a new entry of one of the parser's tables into use (it is a growth site) stores every field of
    that entry with a plain assignment: an entry reuses the memory of an earlier one (or of realloc), so a field that is only
    OR-ed / AND-ed into, or not written at all, carries a stale value over (a file pushed with the skip-to-end flag of the
    file that used the slot before)."""
    n = 0
    for f, idx, cnt, fac, node in growth_sites(unit):
        tab = None
        for c in X.calls_in(f.body):
            if X.callee_name(c) in ("realloc", "spifmem_realloc"):
                for a in c["ch"][1:]:
                    for y in walk(a):
                        g_ = glob_ref(y)
                        if g_ is not None and g_.get("tp") and g_["n"] not in (idx["n"], cnt["n"]):
                            tab = g_
        if tab is None:
            # reallocated by a unit-local helper that is handed the table
            for c in X.calls_in(f.body):
                g2_ = unit.functions.get(X.callee_name(c) or "")
                if g2_ is not None and g2_.body is not None and any(X.callee_name(c2) in ("realloc", "spifmem_realloc") for c2 in X.calls_in(g2_.body)):
                    for a in c["ch"][1:]:
                        sa = X.strip(a)
                        g_ = glob_ref(sa) if sa is not None else None
                        if g_ is not None and g_.get("tp") and g_["n"] not in (idx["n"], cnt["n"]):
                            tab = g_
        if tab is None:
            continue
        m = re.search(r"struct (\w+) \*", (tab.get("tc") or "") + " " + (tab.get("t") or ""))
        rec = prog.records.get(m.group(1)) if m else None
        if rec is None:
            # typedef'd anonymous struct: find the record through a member access on an element
            for x in walk(f.body):
                if x.get("k") == "member" and x.get("rec"):
                    b = X.strip(x["ch"][0])
                    while b is not None and b.get("k") in ("index", "un", "paren"):
                        b = X.strip(b["ch"][0])
                    if b is not None and glob_ref(b, tab["n"]) is not None:
                        rec = prog.records.get(x["rec"])
                        break
        if rec is None:
            continue
        into = set()
        for x in walk(f.body):
            pairs = []
            if x.get("k") == "assign" and x.get("op") == "=":
                pairs.append((X.strip(x["ch"][0]), x["ch"][1]))
            if x.get("k") == "decl":
                for dcl in x.get("decls", ()):
                    if dcl.get("init") is not None:
                        pairs.append(({"k": "ref", "rk": "local", "d": dcl["d"]}, dcl["init"]))
            for l_, r_ in pairs:
                if l_.get("k") == "ref" and l_.get("rk") == "local" and any(glob_ref(y, tab["n"]) is not None for y in walk(r_)) and \
                        not any(X.callee_name(c) in ("realloc", "spifmem_realloc") for c in X.calls_in(r_)):
                    into.add(l_["d"])
        plain = set()
        for x in walk(f.body):
            if x.get("k") == "assign" and x.get("op") == "=":
                for l in ([X.strip(x["ch"][0])]):
                    if l.get("k") == "member":
                        b = X.strip(l["ch"][0])
                        while b is not None and b.get("k") in ("index", "paren") or (b is not None and b.get("k") == "un" and b.get("op") == "*"):
                            b = X.strip(b["ch"][0])
                        if b is not None and (glob_ref(b, tab["n"]) is not None or (b.get("k") == "ref" and b.get("d") in into)):
                            plain.add(l["n"])
            if x.get("k") == "call" and X.callee_name(x) in ("memset", "__builtin_memset") and any(glob_ref(y, tab["n"]) is not None for y in walk(x["ch"][1])):
                plain.update(fld["n"] for fld in rec["fields"])
            # the whole entry stored at once from a local of the record type that was filled field by field (entry.f = ..;
            # table[idx] = entry;): the fields that local was given
            if x.get("k") == "assign" and x.get("op") == "=":
                l, r = X.strip(x["ch"][0]), X.strip(x["ch"][1])
                tgt = l
                while tgt is not None and tgt.get("k") in ("index", "paren") or (tgt is not None and tgt.get("k") == "un" and tgt.get("op") == "*"):
                    tgt = X.strip(tgt["ch"][0])
                if l is not None and l.get("k") in ("index", "un") and tgt is not None and (glob_ref(tgt, tab["n"]) is not None or (tgt.get("k") == "ref" and tgt.get("d") in into)) \
                        and r is not None and r.get("k") == "ref" and r.get("rk") == "local" and not r.get("tp"):
                    for y in walk(f.body):
                        if y.get("k") == "assign" and y.get("op") == "=":
                            ly = X.strip(y["ch"][0])
                            if ly is not None and ly.get("k") == "member" and not ly.get("arrow") and (X.strip(ly["ch"][0]) or {}).get("d") == r["d"]:
                                plain.add(ly["n"])
                        if y.get("k") == "decl" and any(dc["d"] == r["d"] and dc.get("init") is not None for dc in y.get("decls", ())):
                            plain.update(fld["n"] for fld in rec["fields"])
        n += 1
        for fld in rec["fields"]:
            chk.ob(rule, f.name, "entry-field-initialised:" + fld["n"], fld["n"] in plain, loc=f.loc(node),
                   detail="%s takes a new %s entry into use without storing its field `%s` (a read-modify-write of it does not count): the "
                          "field keeps what the previous user of that slot left there" % (f.name, tab["n"], fld["n"]),
                   proof="plain store to the new entry's `%s`" % fld["n"])
    return n



def check_counter_width(chk, units, rule="W2"):
    """A loop `for (x = ..; x <= bound; x++)` whose bound is an 8/16-bit index must count in a wider type than the bound: the
    tables are grown until the index reaches its type's maximum (255), and with x as narrow as the bound the test x <= 255 can
    never fail - x wraps to 0 and the search for an unknown name never ends."""
    n = 0
    for u in units:
        for f in u.functions.values():
            if f.body is None:
                continue
            for lp in walk(f.body):
                if lp.get("k") not in ("for", "while") or lp.get("cond") is None:
                    continue
                for cj in _conjuncts(lp["cond"]):
                    c = X.strip(cj)
                    if c is None or c.get("k") != "bin" or c.get("op") not in ("<=", ">="):
                        continue
                    a, b = (c["ch"][0], c["ch"][1]) if c["op"] == "<=" else (c["ch"][1], c["ch"][0])
                    xa = X.strip(a)
                    xb = X.strip(b)
                    if xa is None or xb is None or xa.get("k") != "ref" or xb.get("k") not in ("ref", "member"):
                        continue
                    wb = xb.get("tw") or 0
                    if not (0 < wb <= 16):
                        continue
                    # x must be stepped upwards by the loop
                    stepped = False
                    for part in ("inc", "body"):
                        if lp.get(part) is None:
                            continue
                        for y in walk(lp[part]):
                            if y.get("k") == "un" and y.get("op") == "++" and X.strip(y["ch"][0]).get("d") == xa.get("d"):
                                stepped = True
                            if y.get("k") == "assign" and y.get("op") == "+=" and X.strip(y["ch"][0]).get("d") == xa.get("d"):
                                stepped = True
                    if not stepped:
                        continue
                    n += 1
                    wa = xa.get("tw") or 0
                    chk.ob(rule, f.name, "counter-wider-than-bound:%s<=%s" % (canon(f, a)[:16], canon(f, b)[:20]), wa > wb, loc=f.loc(lp),
                           detail="%s counts `%s` (%d bits) up to and including `%s` (%d bits): when the bound holds its maximum %d the test can "
                                  "never fail, the counter wraps to 0 and the loop does not terminate" % (
                                      f.name, X.render(a)[:20], wa, X.render(b)[:24], wb, (1 << wb) - 1),
                           proof="the counter is %d bits wide, the bound %d" % (wa, wb))
    return n


def _conjuncts(c):
    s = X.strip(c)
    if s is not None and s.get("k") == "bin" and s.get("op") == "&&":
        return _conjuncts(s["ch"][0]) + _conjuncts(s["ch"][1])
    return [c]


def check_sizeof_agreement(chk, prog, unit, rule="S1"):
    """A byte count written `sizeof(T) * n` for a block of elements agrees with the element type of the pointer it is used with:
    memset / memcpy / memmove on `table + k`, and `table = realloc(table, sizeof(T) * n)`.  A count computed with the size of
    another type clears / copies / allocates only part of the elements - here: leaves the new half of a doubled table without
    its NULL end marker, so the scan for the first NULL name runs off into uninitialised entries."""
    from .cap import pointee_size
    n = 0
    recs = unit.records

    def sizeof_factor(e):
        e = X.strip(e)
        if e is None:
            return None
        if e.get("k") == "sizeof" and e.get("cv") is not None:
            return e
        if e.get("k") == "bin" and e.get("op") == "*":
            return sizeof_factor(e["ch"][0]) or sizeof_factor(e["ch"][1])
        return None

    def typed_ptr(e):
        """the expression under the casts to void * / char *: its static type is the element pointer"""
        while e is not None and e.get("k") in ("paren", "icast", "cast") and e.get("ch"):
            inner = e["ch"][0]
            if inner is None or not inner.get("tp"):
                break
            e = inner
        return e
    for f in unit.functions.values():
        if f.body is None:
            continue
        for c in X.calls_in(f.body):
            cn = X.callee_name(c) or ""
            args = c["ch"][1:]
            ptrs, size = [], None
            if re.search(r"(^|_)mem(set|cpy|move)(_chk)?$", cn) and len(args) >= 3:
                ptrs, size = ([args[0]] if "set" in cn else [args[0], args[1]]), args[2]
            elif re.search(r"(^|_)realloc$", cn) and len(args) >= 2:
                size = args[-1]
                par = f.parent.get(c["i"])
                while par is not None and par.get("k") in ("paren", "icast", "cast", "cond"):
                    par = f.parent.get(par["i"])
                if par is not None and par.get("k") == "assign":
                    ptrs = [par["ch"][0]]
            if size is None:
                continue
            so = sizeof_factor(size)
            if so is None:
                continue
            for p_ in ptrs:
                tp_ = typed_ptr(p_)
                if tp_ is None:
                    continue
                ps = pointee_size(tp_, recs)
                ts_ = (tp_.get("tc") or tp_.get("t") or "")
                if ps <= 1 or re.search(r"\bvoid\b", ts_):
                    continue
                n += 1
                chk.ob(rule, f.name, "element-size:" + canon(f, c)[:40], so["cv"] == ps, loc=f.loc(c),
                       detail="%s: the byte count of %s is computed with sizeof(%s) = %d, but the elements of %s are %d bytes: only part of "
                              "the block is %s" % (f.name, cn, so.get("of", "?"), so["cv"], X.render(tp_)[:30], ps,
                                                   "cleared (the rest keeps whatever the allocator left there)" if "set" in cn else "covered"),
                       proof="sizeof(%s) == element size %d" % (so.get("of", "?"), ps))
    return n


def check_stack_field_release(chk, prog, unit, push_fn="spifconf_register_fstate", idx_global="fstate_idx", table="fstate", rule="L5"):
    """What a stack entry owns is released when the entry is popped.  For every field F of the file stack that some push site
    fills with a block the pushing function owns (a local whose every definition is an allocation or a call that hands out a
    fresh block: the word extracted for %include, the strdup'ed output file name of %preproc), a release of
    `table[idx].F` precedes a pop of the stack in some function of the unit; without one the block is lost with the entry."""
    from . import own
    g = unit.functions.get(push_fn)
    if g is None or g.body is None:
        raise AnalysisBroken("push function %s not found" % push_fn)
    # parameter -> field it is stored into
    field_of = {}
    for x in walk(g.body):
        if x.get("k") == "assign" and x.get("op") == "=":
            l, r = X.strip(x["ch"][0]), X.strip(x["ch"][1])
            if l.get("k") == "member" and r is not None and r.get("k") == "ref" and r.get("rk") == "param":
                field_of[r.get("pi")] = l["n"]
    owned_pushes = {}
    for f in unit.functions.values():
        if f.body is None:
            continue
        defs = {}
        for x in walk(f.body):
            if x.get("k") == "assign" and X.strip(x["ch"][0]).get("k") == "ref":
                defs.setdefault(X.strip(x["ch"][0])["d"], []).append(x["ch"][1] if x.get("op") == "=" else None)
            elif x.get("k") == "decl":
                for dc in x.get("decls", ()):
                    if dc.get("init") is not None:
                        defs.setdefault(dc["d"], []).append(dc["init"])

        def hands_out(e):
            e = X.strip(e)
            if e is None or e.get("k") != "call":
                return False
            if nullness.fresh_call(e):
                return True
            h = prog.fn(X.callee_name(e) or "") if X.callee_name(e) else None
            return h is not None and own.returns_fresh(prog, h)
        for c in X.calls_in(f.body):
            if X.callee_name(c) != push_fn:
                continue
            for j, a in enumerate(c["ch"][1:]):
                sa = X.strip(a)
                if j in field_of and sa is not None and sa.get("k") == "ref" and sa.get("rk") == "local":
                    ds = defs.get(sa["d"], [])
                    ds = [d_ for d_ in ds if d_ is None or not X.is_null_const(d_)]       # FREE(p) also stores NULL
                    if ds and all(d_ is not None and hands_out(d_) for d_ in ds):
                        owned_pushes.setdefault(field_of[j], []).append((f, c))
    n = 0
    for fld, sites in sorted(owned_pushes.items()):
        n += 1
        released = False
        where = None
        for f in unit.functions.values():
            if f.body is None:
                continue
            pops = [m for m in walk(f.body) if is_dec_of(m, idx_global)]
            if not pops:
                continue
            for c in X.calls_in(f.body):
                if own.release_kind(c) != "free" or not c["ch"][1:]:
                    continue
                a = X.strip(c["ch"][1])
                eo_ = entry_of(f, a) if a is not None and a.get("k") == "member" else None      # also through a slot pointer
                if a is not None and a.get("k") == "member" and a.get("n") == fld and (
                        any(glob_ref(y, table) is not None for y in walk(a)) or (eo_ is not None and glob_ref(eo_[0], table) is not None)):
                    if any(c["i"] < p_["i"] for p_ in pops):
                        released = True
                        where = f
        f0, c0 = sites[0]
        chk.ob(rule, f0.name, "popped-entry-releases:" + fld, released, loc=f0.loc(c0),
               detail="%s pushes a block it owns (%s) as the `%s` of a file-stack entry, and no function releases %s[..].%s before popping "
                      "the entry: the block is lost every time such an entry is popped" % (f0.name, X.render(c0["ch"][1:][[k_ for k_, v_ in field_of.items() if v_ == fld][0]])[:30], fld, table, fld),
               proof="released before the pop in %s" % (where.name if where else "?"))
    return n


def check_discarded_lines(chk, unit, rule="P7"):
    """Only a line that did not fit is discarded.  Where a line reader throws the rest of a line away (a loop that keeps calling
    fgets into the same buffer until a newline turns up), the test that sends it there must also establish that the text read so
    far is not simply the last line of a file that lacks a final newline: it consults end-of-file (feof) or the fill of the
    buffer (strlen against the size).  `!strchr(buff, '\\n')` alone is also true for that last line, which is then reported
    as too long and never delivered."""
    from .listrules import unit_closure
    n = 0
    for f in unit.functions.values():
        if f.body is None:
            continue

        FG = ("fgets", "__fgets_chk", "__builtin___fgets_chk")
        PROBES = ("strchr", "strrchr", "memchr", "strlen", "feof", "feof_unlocked", "__builtin_strchr", "__builtin_strrchr", "__builtin_strlen")

        def is_discard_loop(x):
            """a loop that reads on with fgets and does nothing with what it read but look for the newline / the end of the file:
            `while (fgets(..) && !strrchr(..));`  or  `for (;;) { if (!fgets(..)) break; if (strrchr(..)) break; }`"""
            if x.get("k") not in ("for", "while", "do"):
                return False
            parts = [x.get(k_) for k_ in ("cond", "body", "inc") if x.get(k_) is not None]
            calls = [c for p_ in parts for c in X.calls_in(p_)]
            if not any(X.callee_name(c) in FG for c in calls):
                return False
            if any(X.callee_name(c) not in FG + PROBES for c in calls):
                return False
            for p_ in parts:
                for y in walk(p_):
                    if y.get("k") == "assign" or (y.get("k") == "un" and y.get("op") in ("++", "--")):
                        t_ = X.strip(y["ch"][0])
                        if t_ is None or t_.get("k") != "ref" or t_.get("rk") != "local":
                            return False
            return True

        def fgets_buffers(e):
            return {canon(f, c["ch"][1]) for c in X.calls_in(e) if X.callee_name(c) in ("fgets", "__fgets_chk", "__builtin___fgets_chk") and c["ch"][1:]}

        def discards(stmt, depth=0):
            """does the statement contain a loop whose condition reads on with fgets (directly or in a unit-local helper)?"""
            for x in walk(stmt):
                if is_discard_loop(x):
                    return True
                if x.get("k") == "call" and depth < 2:
                    g = unit.functions.get(X.callee_name(x) or "")
                    if g is not None and g is not f and g.body is not None and discards_in(g, depth + 1):
                        return True
            return False

        def discards_in(g, depth):
            return any(is_discard_loop(x) for x in walk(g.body))
        if not fgets_buffers(f.body):
            continue
        for node in walk(f.body):
            if node.get("k") != "if":
                continue
            arm = None
            if discards(node["then"]):
                arm = "then"
            elif node.get("else") is not None and discards(node["else"]):
                arm = "else"
            if arm is None:
                continue
            # innermost such if only
            inner = node["then"] if arm == "then" else node["else"]
            if any(y is not node and y.get("k") == "if" and (discards(y["then"]) or (y.get("else") is not None and discards(y["else"]))) for y in walk(inner)):
                continue
            n += 1
            cond_calls = {X.callee_name(c) for c in X.calls_in(node["cond"])}
            # flag locals standing for a condition
            for y in walk(node["cond"]):
                if y.get("k") == "ref" and y.get("flagdef") is not None:
                    cond_calls |= {X.callee_name(c) for c in X.calls_in(y["flagdef"])}
            conds_ = [node["cond"]] + [y["flagdef"] for y in walk(node["cond"]) if y.get("k") == "ref" and y.get("flagdef") is not None]
            # a verdict computed into a local first (too_long = !strchr(..) && ..; if (too_long) ..): its single definition
            for y in walk(node["cond"]):
                if y.get("k") == "ref" and y.get("rk") == "local" and y.get("flagdef") is None and not y.get("tp"):
                    ds_ = _local_defs(f, y["d"])
                    if len(ds_) == 1:
                        conds_.append(ds_[0])
                        cond_calls |= {X.callee_name(c) for c in X.calls_in(ds_[0])}
            newline_tested = any(
                (X.callee_name(c_) in ("strchr", "strrchr", "memchr", "__builtin_strchr", "__builtin_strrchr") and len(c_["ch"]) >= 3 and X.const_val(c_["ch"][2]) == 10)
                for e_ in conds_ for c_ in X.calls_in(e_)) or any(
                y.get("k") == "bin" and y.get("op") in ("==", "!=") and 10 in (X.const_val(y["ch"][0]), X.const_val(y["ch"][1]))
                for e_ in conds_ for y in walk(e_))
            ok = (bool(cond_calls & {"feof", "feof_unlocked"}) or bool(cond_calls & {"strlen", "__builtin_strlen"})) and newline_tested
            chk.ob(rule, f.name, "discard-only-what-did-not-fit", ok, loc=f.loc(node),
                   detail="%s discards the rest of a line on `%s`: the test must establish both that no newline was read (a line that "
                          "fills the buffer exactly still has its newline and fits) and that the text is not simply the last line of a "
                          "file without a final newline; otherwise a line that fits is reported as too long, never delivered, and - "
                          "without the newline test - the next line is swallowed with it" % (f.name, X.render(node["cond"])[:60]),
                   proof="the discarding branch tests for the absence of a newline and consults end-of-file / the fill of the buffer")
    return n


def check_stream_leaks(chk, prog, unit, rule="P9"):
    """A stream the unit opens itself (fopen / fdopen / popen into a local) is, on every path on which it did open, closed,
    returned, stored or handed to a function of the library (the file stack takes it over) before the function returns:
    a refusal path that returns without closing it leaks one descriptor per refused file, and a parser that is fed enough
    refused files can no longer open the valid ones."""
    OPENERS = {"fopen": "fclose", "fdopen": "fclose", "popen": "pclose", "opendir": "closedir"}
    n = 0
    for f in unit.functions.values():
        if f.body is None or f.cfg is None:
            continue
        opened = {}
        for x in walk(f.body):
            pairs = []
            if x.get("k") == "assign" and x.get("op") == "=":
                l = X.strip(x["ch"][0])
                if l is not None and l.get("k") == "ref" and l.get("rk") == "local":
                    pairs.append((l["d"], x["ch"][1], x))
            if x.get("k") == "decl":
                for dcl in x.get("decls", ()):
                    if dcl.get("init") is not None:
                        pairs.append((dcl["d"], dcl["init"], x))
            for d, rhs, node in pairs:
                r = X.strip(rhs)
                if r is not None and r.get("k") == "call" and X.callee_name(r) in OPENERS:
                    opened.setdefault(d, []).append((node, X.callee_name(r)))
        if not opened:
            continue
        # locals that are given the stream held by such a local (result = fp; return result;) hold it too
        copies = {}
        grew = True
        while grew:
            grew = False
            for x in walk(f.body):
                if x.get("k") == "assign" and x.get("op") == "=":
                    l, r = X.strip(x["ch"][0]), X.strip(x["ch"][1])
                    if l is not None and r is not None and l.get("k") == "ref" and l.get("rk") == "local" and r.get("k") == "ref" and \
                            (r.get("d") in opened or r.get("d") in copies) and l["d"] not in opened and l["d"] not in copies:
                        copies[l["d"]] = r["d"]
                        grew = True
        cfg = nullness.prepared_cfg(f, NORETURN)
        leaks = []

        def root_of(d):
            while d in copies:
                d = copies[d]
            return d

        def holds(e, d):
            s_ = X.strip(e)
            return s_ is not None and s_.get("k") == "ref" and (s_.get("d") == d or root_of(s_.get("d")) == d)

        def transfer(state, x, blk):
            k = x.get("k")
            st = state
            if k == "assign" and x.get("op") == "=":
                l = X.strip(x["ch"][0])
                r = X.strip(x["ch"][1])
                if l is not None and l.get("k") == "ref" and l.get("d") in opened:
                    st = frozenset(y for y in st if y != ("open", l["d"]))
                    if r is not None and r.get("k") == "call" and X.callee_name(r) in OPENERS:
                        st = st | {("open", l["d"])}
                    return st
                for d in opened:
                    if holds(x["ch"][1], d) and not (l is not None and l.get("k") == "ref" and l.get("rk") == "local"):
                        st = frozenset(y for y in st if y != ("open", d))       # stored somewhere that outlives the function
                return st
            if k == "decl":
                for dcl in x.get("decls", ()):
                    if dcl["d"] in opened and dcl.get("init") is not None:
                        r = X.strip(dcl["init"])
                        if r is not None and r.get("k") == "call" and X.callee_name(r) in OPENERS:
                            st = st | {("open", dcl["d"])}
                return st
            if k == "call":
                cn = X.callee_name(x) or ""
                for a in x["ch"][1:]:
                    for d in opened:
                        if holds(a, d):
                            if cn in OPENERS.values() or (cn not in own.NONESCAPE_LIBC and cn not in ("fileno", "feof", "ferror", "fgetc", "getc", "ungetc", "fseek", "ftell", "rewind", "fflush", "fscanf", "fprintf", "setvbuf", "clearerr", "fputc", "readdir")):
                                st = frozenset(y for y in st if y != ("open", d))   # closed, or taken over by the callee
                return st
            return st

        def refine(state, cond, truth, blk):
            if isinstance(truth, tuple):
                return state
            st = state
            for fct in X.implied(cond, truth):
                if fct[0] == "null":
                    for d in opened:
                        if fct[1] == "d%d" % d:
                            st = frozenset(y for y in st if y != ("open", d))      # the open failed: nothing to close
            return st

        def visit(state, x, blk):
            if x.get("k") == "return":
                for d in opened:
                    if ("open", d) in state and not (x.get("val") is not None and any(y.get("k") == "ref" and (y.get("d") == d or root_of(y.get("d")) == d) for y in walk(x["val"]))):
                        leaks.append((x, d))
        flow.forward(cfg, frozenset(), transfer, refine=refine, join=lambda a, b: a | b, visit=visit)
        for d, sites in sorted(opened.items()):
            n += 1
            mine = [l_ for l_ in leaks if l_[1] == d]
            chk.ob(rule, f.name, "stream-closed:%s" % (f.vardecls.get(d) or {}).get("n", "?"), not mine, loc=f.loc(mine[0][0]) if mine else f.loc(sites[0][0]),
                   detail="%s returns at %s with the stream it opened into `%s` (%s) still open and not handed on: one descriptor is lost "
                          "per call on that path, and once the process runs out of descriptors files that are fine can no longer be opened" % (
                              f.name, f.loc(mine[0][0]) if mine else "?", (f.vardecls.get(d) or {}).get("n", "?"), sites[0][1]),
                   proof="on every path on which the open succeeded the stream is closed, returned, stored or handed to the library before the return")
    return n


def check_closed_stream_replaced(chk, unit, table="fstate", idx_global="fstate_idx", rule="P8"):
    """A stream of the file stack that has been closed is not left in the stack: on every path from `fclose(fstate[..].fp)` to a
    return of the function, the entry's `fp` is given another stream or the entry is popped.  Otherwise the line loop reads
    from - and later closes again - a FILE that is already closed and freed."""
    n = 0
    for f in unit.functions.values():
        if f.body is None or f.cfg is None:
            continue
        closes = []
        for c in X.calls_in(f.body):
            if X.callee_name(c) == "fclose" and c["ch"][1:]:
                a = X.strip(c["ch"][1])
                if a is not None and a.get("k") == "member" and a.get("n") == "fp" and any(glob_ref(y, table) is not None for y in walk(a)):
                    closes.append(c)
        if not closes:
            continue
        cfg = nullness.prepared_cfg(f, NORETURN)
        bad = []

        def transfer(st, x, blk):
            if x.get("k") == "call" and any(x is c for c in closes):
                return st | {("closed", x["i"])}
            if st:
                if x.get("k") == "assign" and x.get("op") == "=":
                    l = X.strip(x["ch"][0])
                    if l is not None and l.get("k") == "member" and l.get("n") == "fp" and any(glob_ref(y, table) is not None for y in walk(l)):
                        return frozenset()
                if is_dec_of(x, idx_global):
                    return frozenset()
            return st

        def visit(st, x, blk):
            if x.get("k") == "return" and st:
                for t in st:
                    bad.append((t[1], x))
        flow.forward(cfg, frozenset(), transfer, join=lambda a, b: a | b, visit=visit)
        for c in closes:
            n += 1
            mine = [b_ for b_ in bad if b_[0] == c["i"]]
            chk.ob(rule, f.name, "closed-stream-replaced:" + canon(f, c)[:30], not mine, loc=f.loc(c),
                   detail="%s closes the current file's stream and can return (%s) with the closed stream still in the file stack: the line "
                          "loop then reads from a FILE that was freed, and closes it a second time" % (f.name, f.loc(mine[0][1]) if mine else ""),
                   proof="every path from the fclose to a return stores another stream or pops the entry")
    return n


# --------------------------------------------------------------------------- P10: comments and empty lines reach no handler
def check_comment_filter(chk, unit, rule="P10", fname="spifconf_parse_line", normaliser="spiftool_chomp"):
    """After the line buffer (a parameter) was normalised by `normaliser`, every CFG path to a call through a context
    handler has passed a test of the buffer's first byte that excludes '#' and NUL (may-dataflow of the two still-possible
    classes; switch and if edges refine).  Undecided - noted, never reported - when the classification cannot be read off
    tests of `*param`: the value of a unit-local function that is handed the buffer is used, or the buffer has an alias."""
    f = unit.functions.get(fname)
    if f is None or f.cfg is None or f.body is None:
        raise AnalysisBroken("%s not analysed" % fname)
    pd = {p["d"]: p["n"] for p in (f.params or []) if p.get("tp")}

    def is_buf(e):
        e = X.strip(e) if e is not None else None
        return e is not None and e.get("k") == "ref" and e.get("d") in pd

    def first_byte(e):
        e = X.strip(e) if e is not None else None
        if e is None:
            return False
        if e.get("k") == "un" and e.get("op") == "*" and is_buf(e["ch"][0]):
            return True
        if e.get("k") in ("index", "subscript") and is_buf(e["ch"][0]) and X.const_val(e["ch"][1]) == 0:
            return True
        return False

    norm = [c for c in X.calls_in(f.body) if X.callee_name(c) == normaliser and len(c["ch"]) > 1 and is_buf(c["ch"][1])]
    hcs = {c["i"] for c, _a, _b in handler_calls(f) if is_buf(_a)}     # the deliveries of the line itself (not begin / end)
    if not norm or not hcs:
        chk.note("%s: %s has no %s(<line parameter>) call or no handler call of its own: not decided" % (rule, fname, normaliser))
        return 0
    # what the device cannot read
    blind = []
    for c in X.calls_in(f.body):
        nm = X.callee_name(c)
        g = unit.functions.get(nm) if nm else None
        if g is None or g.body is None or nm == normaliser:
            continue
        if any(is_buf(a) or any(is_buf(y) for y in walk(a)) for a in c["ch"][1:]):
            par = f.parent.get(c["i"])
            while par is not None and par.get("k") in ("icast", "cast", "paren"):
                par = f.parent.get(par["i"])
            if par is None or par.get("k") not in ("block", "case", "default", "label"):
                blind.append(nm)        # its value is used (or may be): the classification may live there
    for x in walk(f.body):
        if x.get("k") == "assign" and x.get("op") == "=" and not is_buf(x["ch"][0]) and is_buf(x["ch"][1]):
            blind.append("alias")
        if x.get("k") == "assign" and not first_byte(x["ch"][0]) and any(first_byte(y) for y in walk(x["ch"][1])):
            blind.append("a copy of the first byte")
        if x.get("k") == "decl":
            for dcl in x.get("decls", ()):
                if dcl.get("init") is not None and is_buf(dcl["init"]):
                    blind.append("alias")
                if dcl.get("init") is not None and any(first_byte(y) for y in walk(dcl["init"])):
                    blind.append("a copy of the first byte")
    OPEN = frozenset(("#", "NUL"))
    cls = lambda v: "#" if v == 35 else ("NUL" if v == 0 else None)

    def transfer(st, n, blk):
        if n.get("k") == "call" and any(n is c for c in norm):
            return OPEN
        if n.get("k") == "assign" and is_buf(n["ch"][0]) and st != frozenset(("PRE",)):
            return frozenset(("STALE",))
        return st

    def refine(st, cond, truth, blk):
        if "PRE" in st or "STALE" in st:
            return st
        c = X.strip(cond)
        if isinstance(truth, tuple):
            if not first_byte(c):
                return st
            if truth[0] == "case":
                k = cls(truth[1])
                return st & frozenset((k,)) if k else frozenset()
            return st - frozenset(cls(v) for v in (truth[1] if len(truth) > 1 else ()))
        neg = False
        while c is not None and c.get("k") == "un" and c.get("op") == "!":
            neg = not neg
            c = X.strip(c["ch"][0])
        if c is None:
            return st
        if first_byte(c):                       # if (*buff) / if (!*buff)
            nonzero = (truth is True) != neg
            return st - frozenset(("NUL",)) if nonzero else st & frozenset(("NUL",))
        if c.get("k") == "bin" and c.get("op") in ("==", "!="):
            a, b = c["ch"][0], c["ch"][1]
            v = X.const_val(b) if first_byte(a) else (X.const_val(a) if first_byte(b) else None)
            if v is None or not (first_byte(a) or first_byte(b)):
                return st
            eq = ((truth is True) == (c["op"] == "==")) != neg
            k = cls(v)
            if eq:
                return st & frozenset((k,)) if k else frozenset()
            return st - frozenset((k,)) if k else st
        return st

    found = []

    def visit(st, n, blk):
        if n.get("k") == "call" and n.get("i") in hcs:
            found.append((n, st))

    flow.forward(f.cfg, frozenset(("PRE",)), transfer, refine=refine, join=lambda a, b: a | b, visit=visit)
    n_sites = 0
    for n, st in found:
        open_ = sorted(st & OPEN)
        if "PRE" in st and not open_:
            continue
        n_sites += 1
        if open_ and blind:
            chk.note("%s: %s: the handler call at %s is reached with %s not excluded by tests of the first byte, but the line is "
                     "classified through %s: not decided" % (rule, fname, f.loc(n), "/".join(open_), ", ".join(sorted(set(blind)))))
            continue
        chk.ob(rule, fname, "comment-filter:%s" % f.loc(n), not open_, loc=f.loc(n),
               detail="%s can reach the handler call at %s after %s() with the line's first byte still possibly %s: an indented comment or a "
                      "blank-only line, which the white-space normalisation turns into a comment or an empty line, is delivered to the "
                      "context's handler as an ordinary line" % (fname, f.loc(n), normaliser, " or ".join("'#'" if o == "#" else "NUL" for o in open_)),
               proof="every path from %s() to this call passes a test of the first byte that excludes '#' and NUL" % normaliser)
    return n_sites
