"""HASHNF: symbolic evaluation of loop/switch-structured integer code into a normal form over Z/2^32.

Values are linear combinations (mod 2^32) of atoms; atoms are symbols, byte loads, logical right shifts,
xor/and/or nodes, comparisons, if-then-else, loop outputs and switch outputs.  Shift-left by a constant and
multiplication by a constant stay linear, so `h + (h<<1) + (h<<4) + (h<<7) + (h<<8) + (h<<24)` and
`h * 0x01000193` have one normal form.  Wide loads are rewritten to the little-endian assembly of byte loads.
Loops are summarised structurally (initial values, condition, per-iteration transformer) with loop-carried
variables put into a canonical order by colour refinement, so the form is independent of variable names
and of the order of independent statements.
"""
from . import expr as X
from .facts import walk

M = 1 << 32


# output routines whose only effect is on a stream / the diagnostic sink
DIAGNOSTIC_CALLS = ("fprintf", "printf", "fflush", "libast_dprintf", "libast_print_error", "libast_print_warning", "time")


class Unsupported(Exception):
    pass


# ------------------------------------------------------------------ hash-consed terms
import hashlib


class T(object):
    """Interned term node: k = tag, a = tuple of arguments (T, int, str, or nested tuples of those)."""
    __slots__ = ("k", "a", "dig", "id")

    def __getitem__(self, i):
        # tuple-like access: t[0] is the tag, t[1:] the arguments
        return self.k if i == 0 else self.a[i - 1]

    def __repr__(self):
        return "<%s %s>" % (self.k, self.dig[:8])


_table = {}


def _key(x):
    if isinstance(x, T):
        return ("t", x.id)
    if isinstance(x, tuple):
        return tuple(_key(y) for y in x)
    return x


def _dig(x):
    if isinstance(x, T):
        return x.dig
    if isinstance(x, tuple):
        return "(" + ",".join(_dig(y) for y in x) + ")"
    return repr(x)


def mk(k, *a):
    key = (k, _key(a))
    t = _table.get(key)
    if t is None:
        t = T()
        t.k = k
        t.a = a
        t.id = len(_table)
        t.dig = hashlib.sha1((k + _dig(a)).encode()).hexdigest()
        _table[key] = t
    return t


def dkey(t):
    return t.dig


def lin(const=0, terms=()):
    d = {}
    for a, c in terms:
        c %= M
        if c:
            d[a] = (d.get(a, 0) + c) % M
    items = tuple(sorted(((a, c) for a, c in d.items() if c), key=lambda ac: ac[0].dig))
    return mk("lin", const % M, items)


def const(v):
    return lin(v)


def atom(a):
    return lin(0, ((a, 1),))


def is_const(t):
    return t.k == "lin" and not t.a[1]


def add(a, b, sign=1):
    return lin(a.a[0] + sign * b.a[0], tuple(a.a[1]) + tuple((x, sign * c) for x, c in b.a[1]))


def scale(a, k):
    return lin(a.a[0] * k, tuple((x, c * k) for x, c in a.a[1]))


def single_atom(t, tag=None):
    """the atom if t is exactly 1*atom (+0), else None"""
    if t.k == "lin" and t.a[0] == 0 and len(t.a[1]) == 1 and t.a[1][0][1] == 1:
        a = t.a[1][0][0]
        if tag is None or a.k == tag:
            return a
    return None


def mul(a, b):
    if is_const(a):
        return scale(b, a.a[0])
    if is_const(b):
        return scale(a, b.a[0])
    x, y = sorted((a, b), key=dkey)
    return atom(mk("mul", x, y))


def shl(a, k):
    if is_const(k):
        return scale(a, 1 << k.a[0]) if k.a[0] < 32 else const(0)
    return atom(mk("shl", a, k))


def shr(a, k):
    if is_const(k):
        if k.a[0] == 0:
            return a
        if is_const(a):
            return const(a.a[0] >> k.a[0])
        return atom(mk("shr", a, k.a[0]))
    return atom(mk("shrv", a, k))


def _assoc(tag, a, b, fold, ident, cancel):
    ops = []
    cacc = ident
    for t in (a, b):
        if is_const(t):
            cacc = fold(cacc, t.a[0])
            continue
        inner = single_atom(t, tag)
        if inner is not None:
            cacc = fold(cacc, inner.a[0])
            ops.extend(inner.a[1])
        else:
            ops.append(t)
    if cancel:
        cnt = {}
        for o in ops:
            cnt[o] = cnt.get(o, 0) + 1
        ops = [o for o, n in cnt.items() if n % 2]
    else:
        ops = list(dict.fromkeys(ops))
    ops.sort(key=dkey)
    return cacc, tuple(ops)


def xor(a, b):
    c, ops = _assoc("xor", a, b, lambda x, y: x ^ y, 0, True)
    if not ops:
        return const(c)
    if len(ops) == 1 and c == 0:
        return ops[0]
    return atom(mk("xor", c, ops))


def band(a, b):
    c, ops = _assoc("and", a, b, lambda x, y: x & y, M - 1, False)
    if c == 0:
        return const(0)
    if not ops:
        return const(c)
    if len(ops) == 1 and c == M - 1:
        return ops[0]
    return atom(mk("and", c, ops))


def bor(a, b):
    c, ops = _assoc("or", a, b, lambda x, y: x | y, 0, False)
    if not ops:
        return const(c)
    if len(ops) == 1 and c == 0:
        return ops[0]
    return atom(mk("or", c, ops))


def cmp(op, a, b):
    if is_const(a) and is_const(b):
        x, y = a.a[0], b.a[0]
        return const(int({"==": x == y, "!=": x != y, "<": x < y, "<=": x <= y, ">": x > y, ">=": x >= y}[op]))
    if op in (">", ">="):
        op = {">": "<", ">=": "<="}[op]
        a, b = b, a
    if op in ("==", "!="):
        a, b = sorted((a, b), key=dkey)
    return atom(mk("cmp", op, a, b))


def _nonzero_of(c, truth_):
    """X if the condition term c having the truth value truth_ says X != 0 (X an unsigned quantity), else None"""
    a = single_atom(c, "cmp")
    if a is None:
        return None
    op, x, y = a.a
    if op in ("==", "!="):
        if (op == "!=") != truth_:
            return None
        if is_const(x) and x.a[0] == 0:
            return y
        if is_const(y) and y.a[0] == 0:
            return x
        return None
    if op == "<" and truth_ and is_const(x) and x.a[0] == 0:
        return y                    # 0 < X
    if op == "<=" and not truth_ and is_const(y) and y.a[0] == 0:
        return x                    # !(X <= 0)
    return None


def _holds(assumes, c0, cond_node):
    """is the condition term c0 implied by the assumptions ((term, truth) pairs)?  Only `X != 0` in its spellings, for an
    unsigned X"""
    if is_const(c0):
        return bool(c0.a[0])
    want = _nonzero_of(c0, True)
    if want is None:
        return False
    s = X.strip(cond_node) if cond_node is not None else None
    if s is not None and s.get("k") == "bin" and s.get("op") in ("<", ">", "<=", ">="):
        if any((X.strip(ch) or {}).get("ts") or ch.get("ts") for ch in s["ch"]):
            return False            # a signed comparison: 0 < X is not X != 0
    for c, t in assumes:
        if _nonzero_of(c, t) is want:
            return True
    return False


def lnot(a):
    if is_const(a):
        return const(int(a.a[0] == 0))
    c = single_atom(a, "cmp")
    if c is not None:
        neg = {"==": "!=", "!=": "==", "<": ">=", "<=": ">"}[c.a[0]]
        return cmp(neg, c.a[1], c.a[2])
    return cmp("==", a, const(0))


def truth(a):
    """normalise a value used as a condition"""
    if single_atom(a, "cmp") is not None:
        return a
    it = single_atom(a, "ite")
    if it is not None and is_const(it.a[1]) and is_const(it.a[2]):
        # (c ? 1 : 0) used as a condition is c
        t1, t0 = bool(it.a[1].a[0]), bool(it.a[2].a[0])
        if t1 and not t0:
            return it.a[0]
        if t0 and not t1:
            return lnot(it.a[0])
    return cmp("!=", a, const(0))


def ite(c, a, b):
    if a is b:
        return a
    if is_const(c):
        return a if c.a[0] else b
    # one polarity per test: (x != y ? a : b) is (x == y ? b : a), (x <= y ? a : b) is (y < x ? b : a)
    ia, ib = single_atom(a, "ite"), single_atom(b, "ite")
    if ia is not None and ia.a[0] is c:
        return ite(c, ia.a[1], b)          # c ? (c ? x : y) : z  =  c ? x : z
    if ib is not None and ib.a[0] is c:
        return ite(c, a, ib.a[2])
    ca = single_atom(c, "cmp")
    if ca is not None and ca.a[0] == "!=":
        return ite(cmp("==", ca.a[1], ca.a[2]), b, a)
    if ca is not None and ca.a[0] == "<=":
        return ite(cmp("<", ca.a[2], ca.a[1]), b, a)
    # (N == 0 ? init : loop-result) where the loop runs while t < N from t = 0: with N == 0 the loop body never runs and its
    # result IS the initial value - the early return for an empty input is redundant
    if ca is not None and ca.a[0] == "==":
        lo = single_atom(b, "loopout")
        if lo is not None:
            L, r = lo.a[0], lo.a[1]
            lc = single_atom(L.a[2], "cmp")
            if lc is not None and lc.a[0] == "<" and a is L.a[1][r]:
                tl = single_atom(lc.a[1], "lv")
                if tl is not None and tl.a[0] == L.a[0] and is_const(L.a[1][tl.a[1]]) and L.a[1][tl.a[1]].a[0] == 0:
                    n_ = lc.a[2]
                    z_ = const(0)
                    if (ca.a[1] is n_ and ca.a[2] is z_) or (ca.a[2] is n_ and ca.a[1] is z_):
                        return b
        # the same with the loop's result passed on through further arithmetic (N == 0 ? f(init) : f(loop-result)): replacing
        # every result of a loop that runs while t < N from t = 0 by its initial value in b must give a
        z_ = const(0)
        n_ = ca.a[2] if ca.a[1] is z_ else (ca.a[1] if ca.a[2] is z_ else None)
        if n_ is not None and not is_const(n_):
            hit = [False]

            def zero_trips(x):
                if x.k == "loopout":
                    L, r = x.a[0], x.a[1]
                    lc = single_atom(L.a[2], "cmp")
                    if lc is not None and lc.a[0] == "<" and lc.a[2] is n_:
                        tl = single_atom(lc.a[1], "lv")
                        if tl is not None and tl.a[0] == L.a[0] and is_const(L.a[1][tl.a[1]]) and L.a[1][tl.a[1]].a[0] == 0:
                            hit[0] = True
                            return L.a[1][r]
                return None
            try:
                b0 = rebuild(b, zero_trips, {})
            except Exception:
                b0 = None
            if hit[0] and b0 is a:
                return b
    return atom(mk("ite", c, a, b))


def load(width, addr):
    """little-endian assembly of byte loads"""
    if width == 8:
        return atom(mk("load8", addr))
    n = width // 8
    t = const(0)
    for k in range(n):
        if 8 * k >= 32:
            break
        t = add(t, scale(atom(mk("load8", add(addr, const(k)))), 1 << (8 * k)))
    return t


def sym(name):
    return atom(mk("sym", name))


# ------------------------------------------------------------------ generic rebuild (substitution)
_LIN_POST = [None]


def rebuild(t, f, memo=None):
    """Rebuild term t bottom-up, mapping atoms through f(atom) -> term or None."""
    if memo is None:
        memo = {}
    if t.id in memo:
        return memo[t.id]
    if t.k != "lin":
        raise ValueError(t)
    res = const(t.a[0])
    for a, c in t.a[1]:
        res = add(res, scale(rebuild_atom(a, f, memo), c))
    if _LIN_POST[0] is not None:
        res = _LIN_POST[0](res)
    memo[t.id] = res
    return res


def rebuild_atom(a, f, memo):
    if ("a", a.id) in memo:
        return memo[("a", a.id)]
    r = f(a)
    if r is None:
        r = _rebuild_atom(a, f, memo)
    memo[("a", a.id)] = r
    return r


def _rebuild_atom(a, f, memo):
    tag = a.k
    rb = lambda x: rebuild(x, f, memo)
    if tag == "sym" or tag == "lv":
        return atom(a)
    if tag == "load8":
        return atom(mk("load8", rb(a.a[0])))
    if tag == "shr":
        return shr(rb(a.a[0]), const(a.a[1]))
    if tag in ("udiv", "umod"):
        x = rb(a.a[0])
        if is_const(x):
            return const(x.a[0] // a.a[1] if tag == "udiv" else x.a[0] % a.a[1])
        return atom(mk(tag, x, a.a[1]))
    if tag in ("shl", "shrv"):
        x, y = rb(a.a[0]), rb(a.a[1])
        return shl(x, y) if tag == "shl" else shr(x, y)
    if tag == "mul":
        return mul(rb(a.a[0]), rb(a.a[1]))
    if tag in ("xor", "and", "or"):
        op = {"xor": xor, "and": band, "or": bor}[tag]
        res = const(a.a[0])
        for o in a.a[1]:
            res = op(res, rb(o))
        return res
    if tag == "cmp":
        return cmp(a.a[0], rb(a.a[1]), rb(a.a[2]))
    if tag == "ite":
        return ite(rb(a.a[0]), rb(a.a[1]), rb(a.a[2]))
    if tag == "loopout":
        L = a.a[0]
        L2 = mk("loop", L.a[0], tuple(rb(x) for x in L.a[1]), rb(L.a[2]), tuple(rb(x) for x in L.a[3]))
        return atom(mk("loopout", L2, a.a[1]))
    if tag == "switchout":
        return atom(mk("switchout", rb(a.a[0]), tuple((v, rb(x)) for v, x in a.a[1]), rb(a.a[2])))
    if tag == "trunc":
        return atom(mk("trunc", a.a[0], a.a[1], rb(a.a[2])))
    if tag == "sext":
        return atom(mk("sext", a.a[0], rb(a.a[1])))
    if tag == "tab":
        return tab(a.a[0], tuple(rb(x) for x in a.a[1]))
    raise ValueError(a)


# ------------------------------------------------------------------ finite tables over a residue
def tab(r_atom, values):
    """value selected by a residue R = X % C (0 <= R < C): values[R]"""
    if all(v is values[0] for v in values):
        return values[0]
    return atom(mk("tab", r_atom, tuple(values)))


def residue(t):
    """X - C*(X / C) is X % C: rewritten inside a linear term (the remaining length after a loop that consumed blocks of C)"""
    if t.k != "lin":
        return t
    for a, c in t.a[1]:
        if a.k == "udiv":
            X_, C_ = a.a[0], a.a[1]
            m = None
            for m_ in (1, 2, 3, 4):
                if c == (M - C_ * m_) % M:
                    m = m_
            if m is None:
                continue
            rest = add(add(t, scale(atom(a), C_ * m)), scale(X_, m), -1)        # t + C*m*U - m*X
            xs = {x.id for x, _ in X_.a[1]}
            if any(x.id in xs or x is a for x, _ in rest.a[1]):
                continue
            return residue(add(rest, scale(atom(mk("umod", X_, C_)), m)))
    return t


def specialise(t, r_atom, r):
    """t with the residue known to be r: tables over that residue collapse to their r-th entry"""
    def f(a):
        if a.k == "tab" and a.a[0] is r_atom:
            return specialise(a.a[1][r], r_atom, r)
        return None
    return rebuild(t, f, {})


def tabulate(t):
    """Canonical form of case distinctions on a residue R = X % C: a `switch (R)` (with or without fall-through) and a chain of
    `if (R > k)` / `if (R == k)` tests are both turned into the table of the C values the result takes for R = 0 .. C-1."""
    memo = {}

    def holds(op, x, y):
        return {"<": x < y, "<=": x <= y, "==": x == y, "!=": x != y}[op]

    def f(a):
        if a.k == "switchout":
            s_ = rebuild(a.a[0], f, memo)
            R = single_atom(s_, "umod")
            if R is not None and R.a[1] <= 16:
                cases = dict(a.a[1])
                vals = []
                for r in range(R.a[1]):
                    v = rebuild(cases[r] if r in cases else a.a[2], f, memo)
                    vals.append(specialise(v, R, r))
                return tab(R, tuple(vals))
        if a.k == "ite":
            c_ = rebuild(a.a[0], f, memo)
            ca = single_atom(c_, "cmp")
            if ca is not None:
                for side in (1, 2):
                    R = single_atom(ca.a[side], "umod")
                    k_ = ca.a[3 - side]
                    if R is not None and R.a[1] <= 16 and is_const(k_):
                        tv, fv = rebuild(a.a[1], f, memo), rebuild(a.a[2], f, memo)
                        vals = []
                        for r in range(R.a[1]):
                            h = holds(ca.a[0], r, k_.a[0]) if side == 1 else holds(ca.a[0], k_.a[0], r)
                            vals.append(specialise(tv if h else fv, R, r))
                        return tab(R, tuple(vals))
        return None
    _LIN_POST[0] = residue
    try:
        return rebuild(t, f, memo)
    finally:
        _LIN_POST[0] = None


# ------------------------------------------------------------------ evaluator
PTR_SIZES = {"unsigned char": 1, "char": 1, "signed char": 1, "unsigned short": 2, "short": 2, "unsigned int": 4,
             "int": 4, "unsigned long": 8, "long": 8, "void": 1}


def pointee_size(n):
    t = (n.get("tc") or n.get("t") or "").replace("const ", "").replace("register ", "").strip()
    if t.endswith("*"):
        base = t[:-1].strip()
        if base in PTR_SIZES:
            return PTR_SIZES[base]
        if base.endswith("*"):
            return 8
    raise Unsupported("pointer arithmetic on %s" % t)


class Evaluator:
    def __init__(self, fn):
        self.fn = fn
        self.depth = 0
        self.inline_depth = 0
        self.loads = []     # (node, width) for the alignment rule
        self.globals_read = set()

    def param_env(self):
        env = {}
        for i, p in enumerate(self.fn.params):
            env[p["d"]] = sym("P%d" % i)
        return env

    # ---- expressions
    def ev(self, n, env):
        k = n.get("k")
        if k in ("paren",):
            return self.ev(n["ch"][0], env)
        if k in ("icast", "cast"):
            v = self.ev(n["ch"][0], env)
            w = n.get("tw")
            if w is not None and w < 32 and n.get("ck") in ("IntegralCast",):
                inner = X.strip(n["ch"][0])
                iw = inner.get("tw")
                if iw is not None and iw <= w:
                    return v
                if is_const(v) and not n.get("ts"):
                    return const(v.a[0] & ((1 << w) - 1))
                return atom(mk("trunc", w, 1 if n.get("ts") else 0, v))
            return v
        if "cv" in n and k not in ("assign", "un", "call") and not n.get("tp"):
            return const(n["cv"])
        if k == "ref":
            rk = n.get("rk")
            if rk in ("param", "local"):
                if n["d"] not in env:
                    return sym("uninit:%d" % n["d"])
                return env[n["d"]]
            self.globals_read.add(n.get("n"))
            return sym("global:" + n.get("n", "?"))
        if k in ("int", "char"):
            return const(n["cv"])
        if k == "bin":
            op = n["op"]
            if op == ",":
                self.ev(n["ch"][0], env)
                return self.ev(n["ch"][1], env)
            if op == "&&":
                a = truth(self.ev(n["ch"][0], env))
                b = truth(self.ev(n["ch"][1], env))
                return ite(a, b, const(0))
            if op == "||":
                a = truth(self.ev(n["ch"][0], env))
                b = truth(self.ev(n["ch"][1], env))
                return ite(a, const(1), b)
            a = self.ev(n["ch"][0], env)
            b = self.ev(n["ch"][1], env)
            return self.binop(op, a, b, n, n["ch"][0], n["ch"][1])
        if k == "assign":
            op = n["op"]
            rhs = self.ev(n["ch"][1], env)
            lhs = X.strip(n["ch"][0])
            if lhs.get("k") == "un" and lhs.get("op") == "*":
                t0 = X.strip(lhs["ch"][0])
                if t0 is not None and t0.get("k") == "ref" and isinstance(env.get(t0.get("d")), tuple) and env[t0["d"]][0] == "byref":
                    br = env[t0["d"]]
                    if op != "=":
                        rhs = self.binop(op[:-1], br[2][br[1]], rhs, n, n["ch"][0], n["ch"][1])
                    rhs = self.fit(rhs, br[3])
                    br[2][br[1]] = rhs           # the store lands in the caller's variable
                    return rhs
            if lhs.get("k") != "ref" or lhs.get("rk") not in ("param", "local"):
                raise Unsupported("store to %s" % X.render(lhs))
            if op != "=":
                cur = self.ev(lhs, env)
                rhs = self.binop(op[:-1], cur, rhs, n, n["ch"][0], n["ch"][1])
            rhs = self.fit(rhs, lhs)
            env[lhs["d"]] = rhs
            return rhs
        if k == "un":
            op = n["op"]
            if op in ("++", "--"):
                lhs = X.strip(n["ch"][0])
                if lhs.get("k") != "ref":
                    raise Unsupported("++ on %s" % X.render(lhs))
                cur = self.ev(lhs, env)
                step = pointee_size(lhs) if lhs.get("tp") else 1
                new = add(cur, const(step), 1 if op == "++" else -1)
                env[lhs["d"]] = self.fit(new, lhs)
                return cur if n.get("post") else new
            v = self.ev(n["ch"][0], env)
            if op == "!":
                return lnot(v)
            if op == "-":
                return scale(v, -1)
            if op == "~":
                return add(scale(v, -1), const(-1))
            if op == "+":
                return v
            if op == "*":
                t0 = X.strip(n["ch"][0])
                if t0 is not None and t0.get("k") == "ref" and isinstance(env.get(t0.get("d")), tuple) and env[t0["d"]][0] == "byref":
                    br = env[t0["d"]]
                    return br[2][br[1]]
                w = n.get("tw")
                if w is None:
                    raise Unsupported("deref of non-integer")
                self.loads.append((n, w))
                return self.signed_fix(load(w, v), n)
            raise Unsupported("unary %s" % op)
        if k == "index":
            base = self.ev(n["ch"][0], env)
            idx = self.ev(n["ch"][1], env)
            w = n.get("tw")
            if w is None:
                raise Unsupported("index of non-integer")
            self.loads.append((n, w))
            return self.signed_fix(load(w, add(base, scale(idx, w // 8))), n)
        if k == "cond":
            c = truth(self.ev(n["ch"][0], env))
            return ite(c, self.ev(n["ch"][1], env), self.ev(n["ch"][2], env))
        if k == "call":
            # a value-returning helper of the same file whose arguments are plain values (one mixing round pulled out into a
            # function): evaluated in place.  Helpers that work through pointers to the caller's variables stay unsupported.
            g = self.fn.unit.functions.get(X.callee_name(n) or "") if getattr(self.fn, "unit", None) is not None else None
            def byref_target(a):
                sa = X.strip(a)
                if sa is not None and sa.get("k") == "un" and sa.get("op") == "&":
                    t = X.strip(sa["ch"][0])
                    if t is not None and t.get("k") == "ref" and t.get("rk") in ("local", "param") and not t.get("tp") and t.get("d") in env:
                        return t
                return None
            if g is not None and g.body is not None and self.inline_depth < 3 and len(g.params) == len(n["ch"]) - 1 and \
                    not any(X.strip(a).get("k") == "un" and X.strip(a).get("op") == "&" and byref_target(a) is None for a in n["ch"][1:]) and \
                    not any(y.get("k") in ("for", "while", "do") for y in walk(g.body) if any(byref_target(a) is not None for a in n["ch"][1:])):
                if any(byref_target(a) is not None for a in n["ch"][1:]):
                    # stores through such a pointer must be unconditional in the helper (they are applied to the caller's
                    # variables directly, not merged over the helper's branches)
                    for y in walk(g.body):
                        if (y.get("k") == "assign" or (y.get("k") == "un" and y.get("op") in ("++", "--"))) and (X.strip(y["ch"][0]) or {}).get("k") == "un":
                            q = g.parent.get(y["i"])
                            while q is not None:
                                if q.get("k") in ("if", "switch", "cond", "for", "while", "do") or (q.get("k") == "bin" and q.get("op") in ("&&", "||")):
                                    raise Unsupported("helper %s stores through a pointer parameter under a condition" % g.name)
                                q = g.parent.get(q["i"])
                env2 = {}
                for p_, a_ in zip(g.params, n["ch"][1:]):
                    t_ = byref_target(a_)
                    if t_ is not None:
                        # a pointer to one of the caller's integer variables (mix(&a, &b, &c)): *p in the helper IS that variable
                        env2[p_["d"]] = ("byref", t_["d"], env, t_)
                    else:
                        v_ = self.ev(a_, env)
                        env2[p_["d"]] = self.fit(v_, p_) if not p_.get("tp") else v_
                saved_fn, saved_depth = self.fn, self.depth
                self.fn = g
                self.depth = 0
                self.inline_depth += 1
                try:
                    self.run(g.body, env2)
                finally:
                    self.fn, self.depth = saved_fn, saved_depth
                    self.inline_depth -= 1
                if "$ret" not in env2:
                    if "void" in (g.j.get("ret") or "") and not ("*" in (g.j.get("ret") or "")):
                        return const(0)
                    raise Unsupported("helper %s returns no value" % g.name)
                return env2["$ret"]
            if (X.callee_name(n) or "") in DIAGNOSTIC_CALLS:
                # a diagnostic print (the expansion of a REQUIRE / D_ macro): it writes to a stream and touches none of the
                # function's variables; its value is an opaque symbol, so a result that used it could not equal the reference
                self.diag_calls = getattr(self, "diag_calls", 0) + 1
                return sym("$diag%d" % n["i"])
        raise Unsupported("expression kind %s (%s)" % (k, X.render(n)[:40]))

    def signed_fix(self, v, n):
        """a load through a signed type narrower than 32 bits sign-extends when promoted"""
        w = n.get("tw")
        if w is not None and w < 32 and n.get("ts"):
            return atom(mk("sext", w, v))
        return v

    def fit(self, v, lhs):
        w = lhs.get("tw")
        if w is not None and w < 32:
            if is_const(v) and not lhs.get("ts"):
                return const(v.a[0] & ((1 << w) - 1))
            if not lhs.get("ts") and w >= 8 and single_atom(v, "load8") is not None:
                return v            # a byte stored into an unsigned type of at least 8 bits is unchanged
            return atom(mk("trunc", w, 1 if lhs.get("ts") else 0, v))
        return v

    def binop(self, op, a, b, n, na, nb):
        if op == "+":
            if n.get("tp"):
                sa, sb = X.strip(na), X.strip(nb)
                if sa.get("tp") or na.get("tp"):
                    return add(a, scale(b, pointee_size(n)))
                return add(b, scale(a, pointee_size(n)))
            return add(a, b)
        if op == "-":
            if n.get("tp"):
                return add(a, scale(b, pointee_size(n)), -1)
            return add(a, b, -1)
        if op == "*":
            return mul(a, b)
        if op == "<<":
            return shl(a, b)
        if op == ">>":
            tw = X.strip(na).get("tw") if not na.get("tw") else na.get("tw")
            ts = na.get("ts", X.strip(na).get("ts"))
            if ts:
                raise Unsupported("right shift of a signed value")
            return shr(a, b)
        if op == "^":
            return xor(a, b)
        if op == "&":
            return band(a, b)
        if op == "|":
            return bor(a, b)
        if op in ("==", "!=", "<", "<=", ">", ">="):
            return cmp(op, a, b)
        if op in ("/", "%") and is_const(b) and b.a[0] > 0 and not X.strip(na).get("ts") and not n.get("ts"):
            if is_const(a):
                return const(a.a[0] // b.a[0] if op == "/" else a.a[0] % b.a[0])
            return atom(mk("udiv" if op == "/" else "umod", a, b.a[0]))
        raise Unsupported("binary %s" % op)

    # ---- statements
    def modified(self, n):
        out = []
        from .facts import walk
        for x in walk(n):
            if x.get("k") == "assign" or (x.get("k") == "un" and x.get("op") in ("++", "--")):
                l = X.strip(x["ch"][0])
                if l.get("k") == "ref" and l.get("rk") in ("param", "local") and l["d"] not in out:
                    out.append(l["d"])
            if x.get("k") == "decl":
                for d in x.get("decls", ()):
                    if d["d"] not in out and d.get("init") is not None:
                        out.append(d["d"])
        return out

    def run(self, stmt, env):
        """Execute a statement; returns 'ret' term if a return was executed (only at the end), else None."""
        k = stmt.get("k")
        if k == "block":
            ch = stmt.get("ch", [])
            for i, s in enumerate(ch):
                self.run(s, env)
            return None
        if k == "decl":
            for d in stmt.get("decls", ()):
                if d.get("init") is not None:
                    env[d["d"]] = self.fit(self.ev(d["init"], env), d)
            return None
        if k == "null":
            return None
        if k == "return":
            if self.depth:
                raise Unsupported("return inside loop")
            v = self.ev(stmt["val"], env) if stmt.get("val") is not None else const(0)
            done = env.get("$done", const(0))
            env["$ret"] = ite(truth(done), env.get("$ret", const(0)), v)
            env["$done"] = const(1)
            return None
        if k == "if":
            c = truth(self.ev(stmt["cond"], env))
            e1 = dict(env)
            e2 = dict(env)
            e1["$assume"] = tuple(env.get("$assume", ())) + ((c, True),)       # inside an arm its test is known
            e2["$assume"] = tuple(env.get("$assume", ())) + ((c, False),)
            self.run(stmt["then"], e1)
            if stmt.get("else") is not None:
                self.run(stmt["else"], e2)
            env.setdefault("$done", const(0))
            env.setdefault("$ret", const(0))
            pre_done = env["$done"]
            for d in set(e1) | set(e2):
                if d == "$assume":
                    continue
                a = e1.get(d, env.get(d))
                b = e2.get(d, env.get(d))
                if a is None or b is None:
                    continue
                env[d] = ite(c, a, b)
            # an arm that always returns: what follows runs (and its result is used) only when the test came out the other way
            if is_const(pre_done) and pre_done.a[0] == 0:
                d1, d2 = e1.get("$done", pre_done), e2.get("$done", pre_done)
                if is_const(d1) and d1.a[0] == 1 and is_const(d2) and d2.a[0] == 0:
                    env["$assume"] = tuple(env.get("$assume", ())) + ((c, False),)
                elif is_const(d2) and d2.a[0] == 1 and is_const(d1) and d1.a[0] == 0:
                    env["$assume"] = tuple(env.get("$assume", ())) + ((c, True),)
            return None
        if k == "do" and stmt.get("cond") is not None and X.const_val(stmt["cond"]) == 0:
            self.run_any(stmt["body"], env)          # do { ... } while (0): a statement wrapper, not a loop
            return None
        if k in ("while", "for", "do"):
            if k == "for" and stmt.get("init") is not None:
                self.run_any(stmt["init"], env)
            self.loop(stmt, env)
            return None
        if k == "switch":
            self.switch(stmt, env)
            return None
        if k in ("break", "continue", "goto", "label"):
            raise Unsupported(k)
        # expression statement
        self.ev(stmt, env)
        return None

    def run_any(self, n, env):
        if n.get("k") in ("block", "decl", "if", "while", "for", "do", "switch", "return", "null"):
            return self.run(n, env)
        self.ev(n, env)
        return None

    def loop(self, stmt, env):
        k = stmt["k"]
        if k == "do" and stmt.get("cond") is not None:
            # do { B } while (++x < e): the increment belongs to the end of the body, the test reads the incremented x
            c_ = X.strip(stmt["cond"])
            if c_ is not None and c_.get("k") == "bin" and c_.get("op") in ("<", "<=", "!=", ">", ">="):
                l_ = X.strip(c_["ch"][0])
                if l_ is not None and l_.get("k") == "un" and l_.get("op") == "++" and not l_.get("post") and (X.strip(l_["ch"][0]) or {}).get("k") == "ref" \
                        and not self.modified(c_["ch"][1]):
                    newc = dict(c_)
                    newc["ch"] = [l_["ch"][0], c_["ch"][1]]
                    stmt = dict(stmt)
                    stmt["body"] = {"k": "block", "i": stmt["body"]["i"], "ch": [stmt["body"], l_]}
                    stmt["cond"] = newc
        mods = []
        for part in ("cond", "body", "inc"):
            if stmt.get(part) is not None:
                for d in self.modified(stmt[part]):
                    if d not in mods:
                        mods.append(d)
        mods = [d for d in mods if d in env]
        self.depth += 1
        depth = self.depth
        le = dict(env)
        for i, d in enumerate(mods):
            le[d] = atom(mk("lv", depth, i))
        if k == "do":
            # do B while (c) is while (c) B when c holds on entry: decided from the tests whose other outcome has already
            # returned (if (len == 0) return ..; i = 0; do { .. } while (i < len);)
            c0 = truth(self.ev(stmt["cond"], dict(env))) if stmt.get("cond") is not None else const(1)
            if self.modified(stmt["cond"]) if stmt.get("cond") is not None else False:
                raise Unsupported("side effect in loop condition")
            if not _holds(env.get("$assume", ()), c0, stmt.get("cond")):
                raise Unsupported("do-while loop whose condition is not known to hold on entry")
        cond = truth(self.ev(stmt["cond"], dict(le))) if stmt.get("cond") is not None else const(1)
        # side effects in the condition are not supported
        be = dict(le)
        if stmt.get("cond") is not None and self.modified(stmt["cond"]):
            raise Unsupported("side effect in loop condition")
        self.run_any(stmt["body"], be)
        if k == "for" and stmt.get("inc") is not None:
            self.ev(stmt["inc"], be)
        inits = [env[d] for d in mods]
        steps = [be[d] for d in mods]
        self.depth -= 1
        n = len(mods)

        def lvatom(i):
            return mk("lv", depth, i)
        # ---- induction variables: x' = x + c.  They are rewritten as  init + c*t  over one canonical trip counter t (t = 0, t' = t + 1),
        # so an index, a walking pointer and a count-down of the remaining length are three spellings of the same loop
        ivs = {}
        for i in range(n):
            dlt = add(steps[i], atom(lvatom(i)), -1)
            if is_const(dlt) and dlt.a[0] % M != 0:
                ivs[i] = dlt.a[0] % M
        T = n
        if ivs:
            def subst(a):
                if a.k == "lv" and a.a[0] == depth and a.a[1] in ivs:
                    return add(inits[a.a[1]], scale(atom(lvatom(T)), ivs[a.a[1]]))
                return None
            memo = {}
            cond = rebuild(cond, subst, memo)
            steps = [rebuild(steps[i], subst, memo) for i in range(n)]
            # the continuation test of a counter that starts at 0 and steps by 1:  N - t != 0,  t != N  and  t < N  are one test
            ca = single_atom(cond, "cmp")
            if ca is not None and ca.a[0] in ("<", "<="):
                # the continuation test of a counter that starts at 0 and steps by 1, in whichever spelling: with D = rhs - lhs,
                #   D = N - t > 0   (i < n; p + t < p + n; 0 < blocks - t)      ->  t < N
                #   D = N - t >= 0                                                ->  t < N + 1
                #   D = N - C*t - C >= 0  (C <= len - C*t: a block of C is left) ->  t < N / C
                # (the quantities compared are lengths and addresses: no wrap-around is assumed)
                D = add(ca.a[2], ca.a[1], -1)
                tl = lvatom(T)
                coef = dict((a_.id, c_) for a_, c_ in D.a[1]).get(tl.id)
                if coef is not None:
                    Cn = (M - coef) % M
                    rest = add(D, scale(atom(tl), coef), -1)            # D without its t term
                    clean = not any(a_.k == "lv" and a_.a[0] == depth for a_, _ in rest.a[1])
                    if clean and Cn == 1:
                        cond = cmp("<", atom(tl), rest if ca.a[0] == "<" else add(rest, const(1)))
                    elif clean and ca.a[0] == "<=" and 1 < Cn <= 65536:
                        cond = cmp("<", atom(tl), atom(mk("udiv", add(rest, const(Cn)), Cn)))
                    ca = single_atom(cond, "cmp")
            if ca is not None and ca.a[0] == "!=":
                diff = add(ca.a[1], ca.a[2], -1)
                coef = dict((a_.id, c_) for a_, c_ in diff.a[1]).get(lvatom(T).id)
                if coef in (1, M - 1):
                    rest = add(diff, scale(atom(lvatom(T)), coef), -1)          # diff without the t term
                    bound = scale(rest, M - 1) if coef == 1 else rest           # t - N != 0  ->  N = -rest ;  N - t != 0 -> N = rest
                    if not any(a_.k == "lv" and a_.a[0] == depth for a_, _ in bound.a[1]):
                        cond = cmp("<", atom(lvatom(T)), bound)
        ids = [i for i in range(n) if i not in ivs] + ([T] if ivs else [])
        init_of = {i: inits[i] for i in range(n)}
        step_of = {i: steps[i] for i in range(n)}
        init_of[T] = const(0)
        step_of[T] = add(atom(lvatom(T)), const(1))

        def deps(t_, acc=None):
            acc = set() if acc is None else acc

            def f(a):
                if a.k == "lv" and a.a[0] == depth:
                    acc.add(a.a[1])
                return None
            rebuild(t_, f, {})
            return acc
        dep = {i: deps(step_of[i]) for i in ids}
        cdep = deps(cond)

        def build(slice_ids):
            """the loop restricted to the variables in slice_ids, in canonical order: returns (L, rank of each id)"""
            sl = sorted(slice_ids)
            colours = {i: "init" + init_of[i].dig for i in sl}
            for _ in range(3):
                def sub(a, colours=colours):
                    if a.k == "lv" and a.a[0] == depth:
                        return sym("colour:" + colours.get(a.a[1], "?"))
                    return None
                memo = {}
                colours = {i: hashlib.sha1((colours[i] + rebuild(step_of[i], sub, memo).dig).encode()).hexdigest() for i in sl}
            order = sorted(sl, key=lambda i: (colours[i], i))
            rank = {old: new for new, old in enumerate(order)}

            def ren(a):
                if a.k == "lv" and a.a[0] == depth:
                    return atom(mk("lv", depth, rank[a.a[1]])) if a.a[1] in rank else None
                return None
            memo = {}
            L = mk("loop", depth, tuple(init_of[i] for i in order), rebuild(cond, ren, memo),
                   tuple(rebuild(step_of[i], ren, memo) for i in order))
            return L, rank

        def closure(seed):
            out = set(seed)
            work = list(seed)
            while work:
                x = work.pop()
                for y in dep.get(x, ()):
                    if y not in out:
                        out.add(y)
                        work.append(y)
            return out
        cache = {}

        def out_of(i):
            """value of variable i after the loop: only the variables it (and the condition) depends on are part of its loop"""
            if i == T and ivs:
                # the canonical counter runs from 0 while t < B with B fixed: it ends at B
                cb = single_atom(cond, "cmp")
                if cb is not None and cb.a[0] == "<" and cb.a[1] is atom(lvatom(T)) and not deps(cb.a[2]):
                    return cb.a[2]
            sl = frozenset(closure({i} | cdep))
            if sl not in cache:
                cache[sl] = build(sl)
            L, rank = cache[sl]
            return atom(mk("loopout", L, rank[i]))
        for i, d in enumerate(mods):
            if i in ivs:
                env[d] = add(inits[i], scale(out_of(T), ivs[i]))
            else:
                env[d] = out_of(i)

    def switch(self, stmt, env):
        scrut = self.ev(stmt["cond"], env)
        body = stmt["body"]
        if body.get("k") != "block":
            raise Unsupported("switch body")
        # flatten: case labels wrap their first statement
        seq = []
        for s in body.get("ch", []):
            while s is not None and s.get("k") in ("case", "default"):
                seq.append(("label", s))
                s = s.get("sub")
            if s is not None:
                seq.append(("stmt", s))
        labels = [(i, x) for i, (t, x) in enumerate(seq) if t == "label"]
        outs = {}
        default_env = None
        for i, lab in labels:
            e = dict(env)
            for t, s in seq[i + 1:]:
                if t == "stmt":
                    if s.get("k") == "break":
                        break
                    self.run_any(s, e)
            if lab.get("k") == "default":
                default_env = e
            else:
                v = X.const_val(lab["val"])
                if v is None:
                    raise Unsupported("non-constant case label")
                outs[v % M] = e
        if default_env is None:
            default_env = dict(env)
        touched = set()
        for e in list(outs.values()) + [default_env]:
            for d, v in e.items():
                if env.get(d) is not v:
                    touched.add(d)
        for d in touched:
            cases = tuple(sorted(((v, e.get(d, env.get(d))) for v, e in outs.items()), key=lambda vt: vt[0]))
            dflt = default_env.get(d, env.get(d))
            # drop cases equal to the default
            cases = tuple((v, t) for v, t in cases if t is not dflt)
            if is_const(scrut):
                hit = [t for v, t in cases if v == scrut.a[0]]
                env[d] = hit[0] if hit else dflt
            elif not cases:
                env[d] = dflt
            else:
                env[d] = atom(mk("switchout", scrut, cases, dflt))


def summarise(fn):
    """Normal form of the function's return value over symbols P0..Pn (and the set of wide loads)."""
    ev = Evaluator(fn)
    env = ev.param_env()
    ev.run(fn.body, env)
    if "$ret" not in env:
        raise Unsupported("function does not return a value")
    return tabulate(env["$ret"]), ev


def diff(a, b, path="result", seen=None):
    """First differing sub-term of two normal forms (for diagnostics); None when identical."""
    if a is b:
        return None
    if seen is None:
        seen = set()
    if (a.id, b.id) in seen:
        return "%s: (difference already reported on another path)" % path
    seen.add((a.id, b.id))
    if a.k == "lin" and b.k == "lin":
        if a.a[0] != b.a[0]:
            return "%s: constant 0x%x vs 0x%x" % (path, a.a[0], b.a[0])
        da, db = dict(a.a[1]), dict(b.a[1])
        only_a = [x for x in da if x not in db]
        only_b = [x for x in db if x not in da]
        for x in da:
            if x in db and da[x] != db[x]:
                return "%s: coefficient 0x%x vs 0x%x of %s" % (path, da[x], db[x], show(x))
        if len(only_a) == 1 and len(only_b) == 1:
            if da[only_a[0]] != db[only_b[0]]:
                return "%s: coefficient 0x%x vs 0x%x (shift/multiplier) of %s" % (path, da[only_a[0]], db[only_b[0]], show(only_a[0]))
            return diff_atom(only_a[0], only_b[0], path, seen)
        return "%s: terms differ: %s vs %s" % (path, [show(x) for x in only_a][:3], [show(x) for x in only_b][:3])
    return "%s: %s vs %s" % (path, show(a), show(b))


def diff_atom(x, y, path, seen):
    if x.k != y.k:
        return "%s: %s vs %s" % (path, show(x), show(y))
    tag = x.k
    if tag == "loopout":
        if x.a[1] != y.a[1]:
            return "%s: different loop output" % path
        L1, L2 = x.a[0], y.a[0]
        if len(L1.a[1]) != len(L2.a[1]):
            return "%s: loops carry %d vs %d variables" % (path, len(L1.a[1]), len(L2.a[1]))
        d = diff(L1.a[2], L2.a[2], path + ".loop-condition", seen)
        if d:
            return d
        for i, (p, q) in enumerate(zip(L1.a[1], L2.a[1])):
            d = diff(p, q, path + ".loop-init[%d]" % i, seen)
            if d:
                return d
        for i, (p, q) in enumerate(zip(L1.a[3], L2.a[3])):
            d = diff(p, q, path + ".loop-step[%d]" % i, seen)
            if d:
                return d
        return "%s: loops differ" % path
    if tag == "switchout":
        d = diff(x.a[0], y.a[0], path + ".switch-on", seen)
        if d:
            return d
        c1, c2 = dict(x.a[1]), dict(y.a[1])
        for v in sorted(set(c1) | set(c2)):
            if v not in c1 or v not in c2:
                return "%s: case %d handled on one side only" % (path, v)
            d = diff(c1[v], c2[v], path + ".case%d" % v, seen)
            if d:
                return d
        return diff(x.a[2], y.a[2], path + ".default", seen)
    if tag == "shr":
        if x.a[1] != y.a[1]:
            return "%s: shift >>%d vs >>%d" % (path, x.a[1], y.a[1])
        return diff(x.a[0], y.a[0], path + ">>%d" % x.a[1], seen)
    if tag in ("xor", "and", "or"):
        if x.a[0] != y.a[0]:
            return "%s: %s constant 0x%x vs 0x%x" % (path, tag, x.a[0], y.a[0])
        if len(x.a[1]) != len(y.a[1]):
            return "%s: %s arity differs" % (path, tag)
        sx = [o for o in x.a[1] if o not in y.a[1]]
        sy = [o for o in y.a[1] if o not in x.a[1]]
        for p, q in zip(sx, sy):
            d = diff(p, q, path + "." + tag, seen)
            if d:
                return d
    if tag == "ite":
        for i, nm in ((0, "cond"), (1, "then"), (2, "else")):
            d = diff(x.a[i], y.a[i], path + ".ite-" + nm, seen)
            if d:
                return d
    if tag == "cmp":
        if x.a[0] != y.a[0]:
            return "%s: comparison %s vs %s" % (path, x.a[0], y.a[0])
        return diff(x.a[1], y.a[1], path + ".cmp-lhs", seen) or diff(x.a[2], y.a[2], path + ".cmp-rhs", seen)
    if tag == "load8":
        return diff(x.a[0], y.a[0], path + ".load-address", seen)
    if tag == "trunc":
        return diff(x.a[2], y.a[2], path + ".trunc", seen)
    if tag == "sext":
        return diff(x.a[1], y.a[1], path + ".sign-extended", seen)
    if tag == "tab":
        if x.a[0] is not y.a[0] or len(x.a[1]) != len(y.a[1]):
            return "%s: case distinction on %s vs %s" % (path, show(x.a[0]), show(y.a[0]))
        for r, (p, q) in enumerate(zip(x.a[1], y.a[1])):
            d = diff(p, q, path + ".when(%s==%d)" % (show(x.a[0]), r), seen)
            if d:
                return d
    return "%s: %s vs %s" % (path, show(x), show(y))


def show(t, depth=0):
    """bounded rendering"""
    if depth > 3:
        return "..."
    if t.k == "lin":
        parts = []
        if t.a[0] or not t.a[1]:
            parts.append("0x%x" % t.a[0])
        for a, c in t.a[1][:4]:
            parts.append(("%s" if c == 1 else "0x%x*%%s" % c) % show(a, depth + 1))
        if len(t.a[1]) > 4:
            parts.append("...")
        return "+".join(parts)
    if t.k == "sym":
        return t.a[0]
    if t.k == "lv":
        return "loopvar%d" % t.a[1]
    if t.k == "load8":
        return "byte[%s]" % show(t.a[0], depth + 1)
    if t.k == "shr":
        return "(%s>>%d)" % (show(t.a[0], depth + 1), t.a[1])
    if t.k in ("udiv", "umod"):
        return "(%s%s%d)" % (show(t.a[0], depth + 1), "/" if t.k == "udiv" else "%", t.a[1])
    if t.k == "loopout":
        return "loop-result#%d" % t.a[1]
    if t.k == "switchout":
        return "switch-result"
    if t.k == "tab":
        return "by(%s){%s}" % (show(t.a[0], depth + 1), ",".join(show(v, depth + 2) for v in t.a[1][:4]))
    if t.k in ("xor", "and", "or"):
        return "%s(0x%x,%s)" % (t.k, t.a[0], ",".join(show(o, depth + 1) for o in t.a[1][:3]))
    return t.k
