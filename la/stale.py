"""STALE / ADV: validity of local cursors across reallocation of the buffer they point into, and
accounting of read()/write() results."""
from . import expr as X, flow, nullness
from .facts import walk


def field_path_of(e):
    """('d12->s') if e is (a cast/offset of) <var>->F"""
    s = X.strip(e)
    while s is not None and s.get("k") == "bin" and s.get("op") in ("+", "-") and s.get("tp"):
        s = X.strip(s["ch"][0])
    if s is not None and s.get("k") == "member" and s.get("arrow"):
        return X.apath(s)
    return None


def base_local(e):
    s = X.strip(e)
    while s is not None and s.get("k") == "bin" and s.get("op") in ("+", "-") and s.get("tp"):
        s = X.strip(s["ch"][0])
    if s is not None and s.get("k") == "ref" and s.get("rk") == "local":
        return s["d"]
    return None


def is_realloc_rhs(e):
    for c in X.calls_in(e):
        if X.callee_name(c) in ("realloc", "spifmem_realloc"):
            return True
    return False


def stale_uses(fn, noreturn=("libast_fatal_error",)):
    """[(realloc node, use node, local name)] uses of a local pointer derived from X->F after X->F was reallocated
    and before the local was re-derived."""
    cfg = nullness.prepared_cfg(fn, set(noreturn))
    if cfg is None:
        return []
    ptr_locals = {d for d, v in fn.vardecls.items() if v.get("tp") and not v.get("alen")}
    out = []
    rsite = {}

    def derive(state, d, rhs):
        st = set(x for x in state if not (x[0] in ("der", "stale") and x[1] == d))
        fp = field_path_of(rhs)
        if fp is not None:
            st.add(("der", d, fp))
        else:
            b = base_local(rhs)
            if b is not None and b != d:
                for x in state:
                    if x[0] == "der" and x[1] == b:
                        st.add(("der", d, x[2]))
                    if x[0] == "stale" and x[1] == b:
                        st.add(("stale", d))
            elif b == d:
                return state   # p = p + k keeps derivation and staleness
            else:
                # value found through a call on a derived pointer (strchr(p, ..)) stays in the same buffer
                s = X.strip(rhs)
                if s is not None and s.get("k") == "call":
                    for a in s["ch"][1:]:
                        bl = base_local(a)
                        if bl is not None:
                            for x in state:
                                if x[0] == "der" and x[1] == bl:
                                    st.add(("der", d, x[2]))
                                if x[0] == "stale" and x[1] == bl:
                                    st.add(("stale", d))
        return frozenset(st)

    def transfer(state, n, blk):
        k = n.get("k")
        if k == "assign":
            l = X.strip(n["ch"][0])
            if l.get("k") == "ref" and l.get("d") in ptr_locals:
                if n.get("op") == "=":
                    return derive(state, l["d"], n["ch"][1])
                return state
            if n.get("op") == "=":
                p = X.apath(l)
                if p is not None and l.get("k") == "member" and is_realloc_rhs(n["ch"][1]):
                    st = set(state)
                    for x in state:
                        if x[0] == "der" and x[2] == p:
                            st.add(("stale", x[1]))
                            rsite[x[1]] = n
                    return frozenset(st)
        if k == "decl":
            st = state
            for d in n.get("decls", ()):
                if d["d"] in ptr_locals and d.get("init") is not None:
                    st = derive(st, d["d"], d["init"])
            return st
        return state

    def visit(state, n, blk):
        stale = {x[1] for x in state if x[0] == "stale"}
        if not stale:
            return
        k = n.get("k")
        if k == "ref" and n.get("d") in stale:
            # a use unless it is the target of a plain re-assignment
            par = fn.parent.get(n["i"])
            q = par
            child = n
            while q is not None and q.get("k") in ("paren", "icast", "cast"):
                child = q
                q = fn.parent.get(q["i"])
            if q is not None and q.get("k") == "assign" and q.get("op") == "=" and q["ch"][0] is child:
                return
            if q is not None and q.get("k") == "icast" and False:
                return
            out.append((rsite.get(n["d"]), n, fn.vardecls[n["d"]]["n"]))
    def refine(state, cond, truth, blk):
        if isinstance(truth, tuple):
            return state
        st = state
        for f in X.implied(cond, truth):
            if f[0] == "null":
                rd = X.root_decl(f[1])
                if f[1] == "d%s" % rd:
                    # a NULL local points nowhere: neither derived from the buffer nor stale
                    st = frozenset(x for x in st if not (x[0] in ("der", "stale") and x[1] == rd))
        return st
    flow.forward(cfg, frozenset(), transfer, refine=refine, join=lambda a, b: a | b, visit=visit)
    seen = set()
    res = []
    for r, u, name in out:
        key = (name, fn.loc(u))
        if key not in seen:
            seen.add(key)
            res.append((r, u, name))
    return res


IO_CALLS = {"read", "write", "fread", "fwrite", "recv", "send"}


def unguarded_io_advances(fn, noreturn=("libast_fatal_error",)):
    """[(io call, update node, var)] additive updates (x += n, x = x + n) by the result n of read()/write()
    that are not dominated by a test establishing n > 0."""
    cfg = nullness.prepared_cfg(fn, set(noreturn))
    if cfg is None:
        return []
    # locals assigned from an io call
    iovars = {}
    for n in walk(fn.body):
        if n.get("k") == "assign" and n.get("op") == "=":
            l = X.strip(n["ch"][0])
            r = X.strip(n["ch"][1])
            if l.get("k") == "ref" and l.get("rk") == "local" and r is not None and r.get("k") == "call" and X.callee_name(r) in IO_CALLS:
                iovars[l["d"]] = r
    if not iovars:
        return []
    out = []

    def transfer(state, n, blk):
        if n.get("k") == "assign":
            l = X.strip(n["ch"][0])
            if l.get("k") == "ref" and l.get("d") in iovars:
                return frozenset(x for x in state if x[1] != l["d"])
        return state

    def refine(state, cond, truth, blk):
        if isinstance(truth, tuple):
            return state
        st = set(state)
        for f in X.implied(cond, truth):
            for d in iovars:
                p = "d%d" % d
                if f[0] == "cmp":
                    op, a, b = f[1], f[2], f[3]
                    # n > 0, n >= 1, 0 < n
                    if (a == p and ((op == ">" and b in ("0",)) or (op == ">=" and b in ("1",)))) or \
                       (b == p and ((op == "<" and a in ("0",)) or (op == "<=" and a in ("1",)))):
                        st.add(("pos", d))
                    # n >= 0, n > -1 (the negative outcomes were dealt with on another branch)
                    if (a == p and ((op == ">=" and b in ("0",)) or (op == ">" and b in ("-1",)))) or \
                       (b == p and ((op == "<=" and a in ("0",)) or (op == "<" and a in ("-1",)))):
                        st.add(("ge0", d))
                    if op == "!=" and ((a == p and b == "0") or (b == p and a == "0")):
                        st.add(("ne0", d))
                elif f[0] in ("ne",) and len(f) > 2 and f[1] == p and str(f[2]) == "0":
                    st.add(("ne0", d))
                elif f[0] == "true" and f[1] == p:
                    st.add(("ne0", d))
                unsigned_ = fn.vardecls.get(d, {}).get("ts") == 0 and (fn.vardecls.get(d, {}).get("tw") or 0) >= 32
                if (("ge0", d) in st or unsigned_) and ("ne0", d) in st:
                    st.add(("pos", d))        # not negative (or of an unsigned type) and not zero
        return frozenset(st)

    def visit(state, n, blk):
        if n.get("k") == "assign" and n.get("op") in ("+=", "-="):
            r = X.strip(n["ch"][1])
            if r.get("k") == "ref" and r.get("d") in iovars and ("pos", r["d"]) not in state:
                out.append((iovars[r["d"]], n, fn.vardecls[r["d"]]["n"]))
    flow.forward(cfg, frozenset(), transfer, refine=refine, visit=visit)
    return out


def tautological_sign_tests(fn):
    """comparisons `E < 0` / `E >= 0` whose operand has an unsigned type (always false / true)"""
    res = []
    for n in walk(fn.body):
        if n.get("k") == "bin" and n.get("op") in ("<", ">=") and X.const_val(n["ch"][1]) == 0:
            a = n["ch"][0]
            while a.get("k") in ("paren",) or (a.get("k") == "icast" and a.get("ck") in ("LValueToRValue", "NoOp")):
                a = a["ch"][0]
            # implicit promotion of a narrower unsigned type to int keeps it non-negative as well
            inner = a
            while inner.get("k") == "icast" and inner.get("ck") == "IntegralCast":
                inner = inner["ch"][0]
                while inner.get("k") in ("paren",) or (inner.get("k") == "icast" and inner.get("ck") in ("LValueToRValue", "NoOp")):
                    inner = inner["ch"][0]
            if inner.get("tw") and inner.get("ts") == 0 and X.const_val(inner) is None and not n.get("m"):
                res.append((n, inner))
    return res
