"""CFG wrapper (clang's CFG with every sub-expression as an element), dominators,
and a small forward dataflow solver with edge refinement."""
from .expr import strip


class Block:
    __slots__ = ("id", "el", "term", "termk", "cond", "succ", "label", "noret", "pred")

    def __init__(self, j):
        self.id = j["id"]
        self.el = [e for e in j.get("el", []) if e is not None and e >= 0]
        self.term = j.get("term")
        self.termk = j.get("termk")
        self.cond = j.get("cond")
        self.succ = list(j.get("succ", []))
        self.label = j.get("label")
        self.noret = bool(j.get("noret"))
        self.pred = []


class CFG:
    def __init__(self, fn, j):
        self.fn = fn
        self.entry = j["entry"]
        self.exit = j["exit"]
        self.blocks = {b["id"]: Block(b) for b in j["blocks"]}
        self._finish()

    def _finish(self):
        for b in self.blocks.values():
            b.pred = []
        for b in self.blocks.values():
            for s in b.succ:
                if s is not None and s in self.blocks:
                    self.blocks[s].pred.append(b.id)
        self.pos = {}
        for b in self.blocks.values():
            for i, e in enumerate(b.el):
                self.pos.setdefault(e, (b.id, i))
        self._dom = None
        self._reach = None

    def prune_noreturn(self, names):
        """Cut the successors of blocks that call a function proven not to return."""
        changed = False
        for b in self.blocks.values():
            for idx, e in enumerate(b.el):
                n = self.fn.nodes.get(e)
                if n is not None and n.get("k") == "call" and n.get("callee") in names:
                    b.el = b.el[:idx + 1]
                    if b.succ:
                        b.succ = []
                        b.term = None
                        b.cond = None
                        changed = True
                    b.noret = True
                    break
        if changed:
            self._finish()

    # ------------------------------------------------------------------ edges
    def edges(self, bid):
        """[(succ id, cond node or None, truth)] ; truth in {True, False, None, ('case', v), ('default',)}"""
        b = self.blocks[bid]
        succ = b.succ
        nodes = self.fn.nodes
        if b.termk == "SwitchStmt":
            out = []
            cond = nodes.get(b.cond) if b.cond is not None else None
            seen_vals = []
            for s in succ:
                if s is None:
                    continue
                sb = self.blocks[s]
                lab = nodes.get(sb.label) if sb.label is not None else None
                if lab is not None and lab.get("k") == "case":
                    v = lab["val"].get("cv") if lab.get("val") else None
                    if v is None and lab.get("val") is not None:
                        sv = strip(lab["val"])
                        v = sv.get("cv")
                    seen_vals.append(v)
                    out.append((s, cond, ("case", v)))
                elif lab is not None and lab.get("k") == "default":
                    out.append((s, cond, ("default",)))
                else:
                    out.append((s, cond, ("default",)))
            # attach excluded values to default edges
            out = [(s, c, (t if t[0] == "case" else ("default", tuple(x for x in seen_vals if x is not None))))
                   for (s, c, t) in out]
            return out
        if len(succ) == 2 and b.cond is not None:
            cond = nodes.get(b.cond)
            if cond is not None and b.termk in ("IfStmt", "WhileStmt", "ForStmt", "DoStmt", "ConditionalOperator"):
                # the block evaluates only the last leaf of a logical operator chain
                c = strip(cond)
                while c is not None and c.get("k") == "bin" and c.get("op") in ("&&", "||"):
                    c = strip(c["ch"][1])
                cond = c
            out = []
            if succ[0] is not None:
                out.append((succ[0], cond, True))
            if succ[1] is not None:
                out.append((succ[1], cond, False))
            return out
        return [(s, None, None) for s in succ if s is not None]

    # ------------------------------------------------------------------ reachability / dominators
    def reachable(self):
        if self._reach is None:
            seen = {self.entry}
            st = [self.entry]
            while st:
                x = st.pop()
                for s in self.blocks[x].succ:
                    if s is not None and s not in seen:
                        seen.add(s)
                        st.append(s)
            self._reach = seen
        return self._reach

    def rpo(self):
        seen = set()
        order = []

        def dfs(x):
            stack = [(x, iter([s for s in self.blocks[x].succ if s is not None]))]
            seen.add(x)
            while stack:
                node, it = stack[-1]
                adv = False
                for s in it:
                    if s not in seen:
                        seen.add(s)
                        stack.append((s, iter([t for t in self.blocks[s].succ if t is not None])))
                        adv = True
                        break
                if not adv:
                    order.append(node)
                    stack.pop()
        dfs(self.entry)
        order.reverse()
        return order

    def dominators(self):
        if self._dom is None:
            order = self.rpo()
            idx = {b: i for i, b in enumerate(order)}
            idom = {self.entry: self.entry}
            changed = True
            while changed:
                changed = False
                for b in order[1:]:
                    preds = [p for p in self.blocks[b].pred if p in idom]
                    if not preds:
                        continue
                    new = preds[0]
                    for p in preds[1:]:
                        a, c = p, new
                        while a != c:
                            while idx[a] > idx[c]:
                                a = idom[a]
                            while idx[c] > idx[a]:
                                c = idom[c]
                        new = a
                    if idom.get(b) != new:
                        idom[b] = new
                        changed = True
            self._dom = idom
        return self._dom

    def block_dominates(self, a, b):
        idom = self.dominators()
        if b not in idom:
            return False
        while True:
            if a == b:
                return True
            if b == self.entry:
                return False
            b = idom[b]

    def node_dominates(self, na, nb):
        """element na dominates element nb (ids)"""
        pa, pb = self.pos.get(na), self.pos.get(nb)
        if pa is None or pb is None:
            return False
        if pa[0] == pb[0]:
            return pa[1] <= pb[1]
        return self.block_dominates(pa[0], pb[0])

    def back_edges(self):
        res = []
        for b in self.reachable():
            for s in self.blocks[b].succ:
                if s is not None and self.block_dominates(s, b):
                    res.append((b, s))
        return res

    def natural_loop(self, tail, head):
        body = {head, tail}
        st = [tail]
        while st:
            x = st.pop()
            if x == head:
                continue
            for p in self.blocks[x].pred:
                if p not in body:
                    body.add(p)
                    st.append(p)
        return body


def forward(cfg, init, transfer, refine=None, join=None, visit=None, max_iter=200000):
    """Forward dataflow.
    transfer(state, node, block) -> state ; refine(state, cond_node, truth, block) -> state or None (infeasible)
    join(a, b) -> state (default: set intersection).  States must be hashable/comparable.
    Returns {block id: in-state}; unreachable blocks are absent.
    If visit is given, a final pass calls visit(state_before, node, block) for every reachable element and
    visit_edge is not used."""
    if join is None:
        join = lambda a, b: a & b
    nodes = cfg.fn.nodes
    ins = {cfg.entry: init}
    order = cfg.rpo()
    prio = {b: i for i, b in enumerate(order)}
    work = {cfg.entry}
    it = 0
    while work:
        it += 1
        if it > max_iter:
            raise RuntimeError("dataflow did not converge in %s" % cfg.fn.name)
        b = min(work, key=lambda x: prio.get(x, 1 << 30))
        work.discard(b)
        st = ins[b]
        blk = cfg.blocks[b]
        for e in blk.el:
            n = nodes.get(e)
            if n is not None:
                st = transfer(st, n, blk)
                if st is None:
                    break
        if st is None:
            continue
        for s, cond, truth in cfg.edges(b):
            out = st
            if refine is not None and cond is not None:
                out = refine(st, cond, truth, blk)
                if out is None:
                    continue
            if s in ins:
                new = join(ins[s], out)
                if new != ins[s]:
                    ins[s] = new
                    work.add(s)
            else:
                ins[s] = out
                work.add(s)
    if visit is not None:
        for b in order:
            if b not in ins:
                continue
            st = ins[b]
            blk = cfg.blocks[b]
            for e in blk.el:
                n = nodes.get(e)
                if n is None:
                    continue
                visit(st, n, blk)
                st = transfer(st, n, blk)
                if st is None:
                    break
    return ins
