"""Linear integer expressions and a Fourier-Motzkin decision procedure for conjunctions of e >= 0."""
from fractions import Fraction


class Lin(object):
    __slots__ = ("c", "t", "_h", "_d")

    def __init__(self, c=0, t=()):
        self.c = c
        d = {}
        for s, k in t:
            if k:
                d[s] = d.get(s, 0) + k
        self.t = tuple(sorted((s, k) for s, k in d.items() if k))
        self._h = None
        self._d = None

    @staticmethod
    def const(v):
        return Lin(v)

    @staticmethod
    def sym(s, k=1):
        return Lin(0, ((s, k),))

    def __add__(self, o):
        if isinstance(o, int):
            return Lin(self.c + o, self.t)
        return Lin(self.c + o.c, self.t + o.t)

    def __sub__(self, o):
        if isinstance(o, int):
            return Lin(self.c - o, self.t)
        return Lin(self.c - o.c, self.t + tuple((s, -k) for s, k in o.t))

    def __neg__(self):
        return Lin(-self.c, tuple((s, -k) for s, k in self.t))

    def scale(self, k):
        return Lin(self.c * k, tuple((s, c * k) for s, c in self.t))

    def is_const(self):
        return not self.t

    def syms(self):
        return [s for s, _ in self.t]

    def coef(self, s):
        d = self._d
        if d is None:
            d = self._d = dict(self.t)
        return d.get(s, 0)

    def subst(self, m):
        """m: sym -> Lin"""
        r = Lin(self.c)
        for s, k in self.t:
            if s in m:
                r = r + m[s].scale(k)
            else:
                r = r + Lin(0, ((s, k),))
        return r

    def __eq__(self, o):
        return isinstance(o, Lin) and self.c == o.c and self.t == o.t

    def __ne__(self, o):
        return not self.__eq__(o)

    def __hash__(self):
        if self._h is None:
            self._h = hash((self.c, self.t))
        return self._h

    def __repr__(self):
        parts = []
        for s, k in self.t:
            if k == 1:
                parts.append("+%s" % s)
            elif k == -1:
                parts.append("-%s" % s)
            else:
                parts.append("%+d*%s" % (k, s))
        if self.c or not parts:
            parts.append("%+d" % self.c)
        r = "".join(parts)
        return r[1:] if r.startswith("+") else r


def _normalise(e):
    """divide by gcd of coefficients and floor the constant (integer tightening)"""
    from math import gcd
    g = 0
    for _, k in e.t:
        g = gcd(g, abs(k))
    if g > 1:
        c = e.c // g   # floor: (sum k_i x_i)/g + c/g >= 0 with integer lhs  =>  lhs + floor(c/g) >= 0
        return Lin(c, tuple((s, k // g) for s, k in e.t))
    return e


FM_LIMIT = 600


_cache = {}


def _components(cons):
    """partition constraints into groups connected through shared symbols"""
    parent = {}

    def find(x):
        while parent.get(x, x) != x:
            parent[x] = parent.get(parent[x], parent[x])
            x = parent[x]
        return x
    for e in cons:
        ss = [s for s, _ in e.t]
        for s_ in ss:
            parent.setdefault(s_, s_)
        for s_ in ss[1:]:
            a, b = find(ss[0]), find(s_)
            if a != b:
                parent[a] = b
    groups = {}
    consts = []
    for e in cons:
        if not e.t:
            consts.append(e)
            continue
        groups.setdefault(find(e.t[0][0]), set()).add(e)
    return consts, groups


def feasible(cons):
    consts, groups = _components(cons)
    for e in consts:
        if e.c < 0:
            return False
    for g in groups.values():
        key = frozenset(g)
        r = _cache.get(key)
        if r is None:
            r = _feasible(key)
            if len(_cache) > 300000:
                _cache.clear()
            _cache[key] = r
        if not r:
            return False
    return True


def _feasible(cons):
    """Is the conjunction of (e >= 0 for e in cons) satisfiable over the integers?  Exact 'no' answers only:
    returns False only when the rational relaxation (with gcd tightening) is infeasible."""
    cur = set()
    for e in cons:
        e = _normalise(e)
        if e.is_const():
            if e.c < 0:
                return False
            continue
        cur.add(e)
    while True:
        syms = {}
        for e in cur:
            for s, k in e.t:
                p = syms.setdefault(s, [0, 0])
                if k > 0:
                    p[0] += 1
                else:
                    p[1] += 1
        if not syms:
            return True
        # eliminate the symbol producing the fewest new constraints
        s = min(syms, key=lambda x: syms[x][0] * syms[x][1] - syms[x][0] - syms[x][1])
        pos = [e for e in cur if e.coef(s) > 0]
        neg = [e for e in cur if e.coef(s) < 0]
        rest = set(e for e in cur if e.coef(s) == 0)
        if len(pos) * len(neg) + len(rest) > FM_LIMIT:
            return True   # give up: cannot refute
        for p in pos:
            kp = p.coef(s)
            for q in neg:
                kq = -q.coef(s)
                r = _normalise(p.scale(kq) + q.scale(kp))
                if r.is_const():
                    if r.c < 0:
                        return False
                    continue
                rest.add(r)
        cur = rest


def entails(cons, goal):
    """cons |= goal >= 0   (only the constraints connected to the goal's symbols matter, provided the rest is
    satisfiable, which callers maintain)"""
    neg = (-goal) - 1
    if not neg.t:
        return neg.c < 0
    consts, groups = _components(list(cons) + [neg])
    for g in groups.values():
        if neg in g:
            key = frozenset(g)
            r = _cache.get(key)
            if r is None:
                r = _feasible(key)
                _cache[key] = r
            return not r
    return False


def model(cons, syms=None, depth=0):
    """A small satisfying integer assignment for diagnostics (best effort; None if not found quickly)."""
    cons = [c for c in cons]
    if not feasible(cons):
        return None
    allsyms = sorted({s for e in cons for s in e.syms()})
    asg = {}
    for s in allsyms:
        found = False
        for v in (0, 1, 2, 3, -1, 4, 5, 8, 16, 127, 128, 255, 4096, -2, 1024, 65536):
            trial = cons + [Lin.sym(s) - v, Lin.const(v) - Lin.sym(s)]
            if feasible(trial):
                cons = trial
                asg[s] = v
                found = True
                break
        if not found:
            asg[s] = "?"
    return asg
