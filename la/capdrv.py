"""Entry states and exit obligations for CAP over libast's value classes."""
import json
import os
import re

from . import expr as X
from .cap import Cap, State, I, P, NULLV, UNK, fresh
from .lin import Lin, entails, feasible
from .facts import VERIF

INV = {
    "spif_str_t_struct": {"buf": "s", "strict": True, "nul": True, "es": 1},
    "spif_ustr_t_struct": {"buf": "s", "strict": True, "nul": True, "es": 1},
    "spif_mbuff_t_struct": {"buf": "buff", "strict": False, "nul": False, "es": 1},
    "spif_array_t_struct": {"buf": "items", "array": True, "es": 8},
    # classes that embed a str as their first member (the URL / regexp text)
    "spif_url_t_struct": {"buf": "s", "strict": True, "nul": True, "es": 1},
    "spif_regexp_t_struct": {"buf": "s", "strict": True, "nul": True, "es": 1},
}


def rec_of_type(t):
    m = re.search(r"struct (\w+) \*$", (t or "").replace("const ", "").strip())
    return m.group(1) if m else None


def make_object(st, rec, case, name):
    """create a symbolic object of class rec in representation case 'empty' | 'alloc'"""
    oid = fresh("O_" + name + "_")
    st.objs[oid] = rec
    inv = INV[rec]
    if inv.get("array"):
        if case == "empty":
            st.heap[(oid, "items")] = NULLV
            st.heap[(oid, "len")] = I(0)
        else:
            ln = fresh(name + "_len")
            st.cons.append(Lin.sym(ln) - 1)
            rid = st.new_region("heap", Lin.sym(ln).scale(8), None, name + "->items")
            st.heap[(oid, "items")] = P(rid, 0)
            st.heap[(oid, "len")] = I(Lin.sym(ln))
        return ("o", oid)
    if case == "empty":
        st.heap[(oid, inv["buf"])] = NULLV
        st.heap[(oid, "len")] = I(0)
        st.heap[(oid, "size")] = I(0)
    else:
        ln, sz, cp = fresh(name + "_len"), fresh(name + "_size"), fresh(name + "_cap")
        L, Z, C = Lin.sym(ln), Lin.sym(sz), Lin.sym(cp)
        st.cons += [L, (Z - L - 1) if inv["strict"] else (Z - L), C - Z, Z - 1]
        rid = st.new_region("heap", C, None, name + "->" + inv["buf"])
        if inv["nul"]:
            st.regions[rid].nul = L
            st.regions[rid].slen = L    # text is terminated exactly at its length (no embedded NUL)
        st.heap[(oid, inv["buf"])] = P(rid, 0)
        st.heap[(oid, "len")] = I(L)
        st.heap[(oid, "size")] = I(Z)
    return ("o", oid)


# per-function parameter contracts (the documented calling convention), one line of reason each
SPECS = {
    "spiftool_safe_strncpy": {"dest": ("buf", "size"), "src": ("cstr",)},      # dest has room for `size` bytes
    "spiftool_safe_strncat": {"dest": ("buf", "size"), "src": ("cstr",)},      # dest is a buffer of `size` bytes
    "spiftool_safe_str": {"str": ("buf", "len")},                              # str holds `len` bytes
    "spiftool_hex_dump": {"buff": ("buf", "count")},
    "spiftool_temp_file": {"ftemplate": ("buf", "len")},                       # ftemplate holds `len` bytes
    "memrec_add_var": {"filename": ("cstr",)},
    # called from spifopt_parse with the index of an existing argument word: argv has argc words and its NULL slot
    "handle_arglist": {"argv": ("ptrs", "argc"), "val_ptr": ("cstr",), "_pre": [({"i": 1}, 0), ({"argc": 1, "i": -1}, -1)]},
}


# object-typed fields of non-value classes: the representation cases explored for each
OBJ_FIELDS = {
    "spif_tok_t_struct": {"src": ("spif_str_t_struct", ["alloc"]), "sep": ("spif_str_t_struct", ["null", "alloc"]),
                          "tokens": (None, ["null"])},
}


def entry_states(fn, max_cases=8, alias=True):
    """cartesian product of representation cases of the value-class parameters"""
    states = [State()]
    objs = []
    for p in fn.params:
        t = p.get("tc") or p.get("t") or ""
        rec = rec_of_type(t)
        nxt = []
        for st in states:
            if rec in INV:
                # the same object passed twice (x.append(x)): alias of an earlier parameter of the same class
                for q in fn.params:
                    if q is p:
                        break
                    if rec_of_type(q.get("tc") or q.get("t") or "") == rec and alias:
                        s2 = st.copy()
                        s2.env[p["d"]] = s2.env[q["d"]]
                        s2.path.append("%s:alias-of-%s" % (p["n"], q["n"]))
                        nxt.append(s2)
                for case in ("empty", "alloc"):
                    s2 = st.copy()
                    v = make_object(s2, rec, case, p["n"])
                    s2.env[p["d"]] = v
                    s2.path.append("%s:%s" % (p["n"], case))
                    nxt.append(s2)
            elif rec is not None:
                oid = fresh("O_" + p["n"] + "_")
                st.objs[oid] = rec
                st.env[p["d"]] = ("o", oid)
                cur = [st]
                for fld, (frec, cases) in OBJ_FIELDS.get(rec, {}).items():
                    nx2 = []
                    for s0 in cur:
                        for case in cases:
                            s2 = s0.copy() if len(cases) > 1 else s0
                            if case == "null":
                                s2.heap[(oid, fld)] = NULLV
                            else:
                                s2.heap[(oid, fld)] = make_object(s2, frec, case, p["n"] + "_" + fld)
                            s2.path.append("%s->%s:%s" % (p["n"], fld, case))
                            nx2.append(s2)
                    cur = nx2
                nxt.extend(cur)
            elif p.get("tp") and p["n"] in SPECS.get(fn.name, {}) and p["n"] != "_pre":
                spec = SPECS[fn.name][p["n"]]
                if spec[0] == "cstr":
                    n_ = fresh(p["n"] + "_strlen")
                    st.cons.append(Lin.sym(n_))
                    rid = st.new_region("cstr", Lin.sym(n_) + 1, Lin.sym(n_), "string " + p["n"])
                    st.regions[rid].nul = Lin.sym(n_)
                    st.env[p["d"]] = P(rid, 0)
                elif spec[0] == "ptrs":
                    st.env[p["d"]] = ("ptrs-of", spec[1])
                else:
                    st.env[p["d"]] = ("buf-of", spec[1])
                nxt.append(st)
            elif p.get("tp") and fn.unit.name == "mbuff.c":
                # byte buffers travel with an explicit length: capacity unknown, only the lower bound is checked
                rid = st.new_region("external", None, None, "buffer " + p["n"])
                st.env[p["d"]] = P(rid, 0)
                nxt.append(st)
            elif p.get("tp"):
                base = re.sub(r"\bconst\b|\bregister\b|\*", " ", t)
                base = " ".join(base.split())
                if base in ("char", "signed char", "unsigned char") and not re.search(r"(buff|buf|bytes|data|ptr)$", p["n"]) or p["n"] in ("other", "str", "s", "old", "fmt", "format", "delim", "needle", "haystack"):
                    if base in ("char", "signed char", "unsigned char"):
                        n = fresh(p["n"] + "_strlen")
                        st.cons.append(Lin.sym(n))
                        rid = st.new_region("cstr", Lin.sym(n) + 1, Lin.sym(n), "string " + p["n"])
                        st.regions[rid].nul = Lin.sym(n)
                        st.env[p["d"]] = P(rid, 0)
                    else:
                        rid = st.new_region("external", None, None, "buffer " + p["n"])
                        st.env[p["d"]] = P(rid, 0)
                else:
                    rid = st.new_region("external", None, None, "buffer " + p["n"])
                    st.env[p["d"]] = P(rid, 0)
                nxt.append(st)
            elif p.get("tw"):
                x = fresh(p["n"] + "_")
                st.env[p["d"]] = I(Lin.sym(x))
                if p["n"] in ("len", "size") and fn.unit.name == "mbuff.c":
                    st.cons.append(Lin.sym(x))    # precondition: a buffer length is not negative
                elif p.get("ts") is False or re.search(r"\bunsigned\b|\bsize_t\b", (p.get("tc") or "") + " " + (p.get("t") or "")):
                    st.cons.append(Lin.sym(x))    # an unsigned parameter has no negative values
                nxt.append(st)
            else:
                st.env[p["d"]] = UNK
                nxt.append(st)
        states = nxt
    # buffers whose capacity is another parameter
    for st in states:
        for p in fn.params:
            v = st.env.get(p["d"])
            if isinstance(v, tuple) and v and v[0] == "buf-of":
                sz = None
                for q in fn.params:
                    if q["n"] == v[1]:
                        sz = st.env.get(q["d"])
                cap = sz[1] if sz is not None and sz[0] == "i" else None
                rid = st.new_region("heap", cap, None, "buffer %s[%s]" % (p["n"], v[1]))
                st.env[p["d"]] = P(rid, 0)
            if isinstance(v, tuple) and v and v[0] == "ptrs-of":
                # a vector of v[1] pointers plus its terminating NULL slot
                sz = None
                for q in fn.params:
                    if q["n"] == v[1]:
                        sz = st.env.get(q["d"])
                cap = (sz[1] + 1).scale(8) if sz is not None and sz[0] == "i" else None
                rid = st.new_region("external", cap, None, "vector %s[%s+1]" % (p["n"], v[1]))
                st.env[p["d"]] = P(rid, 0)
        # documented preconditions on the integer parameters:  sum(coef * param) + const >= 0
        for coefs, const in SPECS.get(fn.name, {}).get("_pre", []):
            e = Lin.const(const)
            ok = True
            for q in fn.params:
                if q["n"] in coefs:
                    val = st.env.get(q["d"])
                    if val is None or val[0] != "i":
                        ok = False
                        break
                    e = e + val[1].scale(coefs[q["n"]])
            if ok:
                st.cons.append(e)
    return states


def check_invariant(cap, st, node, objv, rec, what):
    """class invariant of object objv in state st"""
    inv = INV[rec]
    oid = objv[1]
    buf = st.heap.get((oid, inv["buf"]))
    ln = st.heap.get((oid, "len"))
    if buf is None or ln is None:
        return
    if inv.get("array"):
        if ln[0] != "i":
            return
        cap.oblige(st, "inv", node, ln[1], "%s: len may be negative on return" % what)
        if buf[0] == "n":
            cap.oblige(st, "inv", node, -ln[1], "%s: items is NULL but len is %s" % (what, ln[1]))
        elif buf[0] == "p":
            r = st.regions.get(buf[1])
            if r is not None:
                if r.freed:
                    cap.fail(st, "inv", node, "%s: items points to released memory on return" % what)
                elif r.cap is not None:
                    cap.oblige(st, "inv", node, r.cap - ln[1].scale(8), "%s: items holds room for fewer than len elements" % what)
        return
    sz = st.heap.get((oid, "size"))
    if sz is None or ln[0] != "i" or sz[0] != "i":
        return
    L, Z = ln[1], sz[1]
    if buf[0] == "n":
        cap.oblige(st, "inv", node, -L, "%s: buffer is NULL but len is %s" % (what, L))
        cap.oblige(st, "inv", node, L, "%s: negative len" % what)
        cap.oblige(st, "inv", node, -Z, "%s: buffer is NULL but size is %s" % (what, Z))
    elif buf[0] == "p":
        r = st.regions.get(buf[1])
        if r is None:
            return
        if r.freed:
            cap.fail(st, "inv", node, "%s: buffer points to released memory on return" % what)
            return
        cap.oblige(st, "inv", node, L, "%s: negative len" % what)
        if inv.get("release_guard") == "size":
            # the class's done() releases the buffer only when size is non-zero: a buffer held with size 0 is never released
            cap.oblige(st, "relguard", node, Z - 1, "%s: a buffer is allocated but size is %s: done() releases the buffer only when size is "
                       "non-zero, so this block is never freed" % (what, Z))
        cap.oblige(st, "inv", node, (Z - L - 1) if inv["strict"] else (Z - L),
                   "%s: reported size %s does not exceed len %s" % (what, Z, L) if inv["strict"] else "%s: size %s below len %s" % (what, Z, L))
        if r.cap is not None:
            cap.oblige(st, "inv", node, r.cap - Z - buf[2], "%s: reported size %s exceeds the allocation of %s bytes" % (what, Z, r.cap))
        if inv["nul"]:
            if r.nul is None:
                cap.fail(st, "nul", node, "%s: no terminator established at s[len]" % what, undecided=True)
            else:
                cap.oblige(st, "nul", node, r.nul - L - buf[2] + buf[2], "%s: terminator at offset %s, before len %s" % (what, r.nul, L))
                cap.oblige(st, "nul", node, L - r.nul, "%s: terminator at offset %s, past len %s" % (what, r.nul, L))
                if r.slen is not None and buf[2].is_const() and buf[2].c == 0:
                    # the FIRST NUL of the text, where it is known (a copy that brought an earlier terminator along)
                    cap.oblige(st, "nul", node, r.slen - L, "%s: the text ends at offset %s (an embedded NUL), before len %s" % (what, r.slen, L))


def analyse(prog, fn, cap=None):
    cap = cap or Cap(prog)
    entries = entry_states(fn)
    rets = cap.run_function(fn, entries)
    # exit obligations
    rrec = rec_of_type(fn.j.get("retc") or fn.j.get("ret"))
    for st in rets:
        node = fn.body
        for p in fn.params:
            v = st.env.get(p["d"])
            rec = rec_of_type(p.get("tc") or p.get("t"))
            if rec in INV and v is not None and v[0] == "o":
                check_invariant(cap, st, node, v, rec, "%s on return of %s" % (p["n"], fn.name))
        rv = st.ret
        if rrec in INV and rv is not None and rv[0] in ("o", "p"):
            if rv[0] == "p" and not (rv[2].is_const() and rv[2].c == 0):
                continue
            check_invariant(cap, st, node, ("o", rv[1]), rrec, "object returned by %s" % fn.name)
    return cap, rets
