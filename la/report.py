"""Obligation bookkeeping, known-findings matching, evidence and exit-code conventions."""
import hashlib
import json
import os
import sys
import time

from .facts import VERIF, AnalysisBroken
from . import expr as X

KNOWN_FILE = os.path.join(VERIF, "known_findings.json")
# mutation sweeps analyse a scratch copy (LA_REPO) and must not overwrite the evidence of the real tree
EVDIR = os.environ.get("LA_EVIDENCE_DIR") or os.path.join(VERIF, "evidence")


def canon(fn, n, depth=0):
    """Rename-robust rendering: params by position, locals by declaration order."""
    if n is None:
        return ""
    if depth > 10:
        return "..."
    k = n.get("k")
    r = lambda x: canon(fn, x, depth + 1)
    if k in ("paren", "icast", "cast"):
        return r(n["ch"][0])
    if k == "ref":
        rk = n.get("rk")
        if rk == "param":
            return "$P%d" % n.get("pi", 0)
        if rk in ("local", "slocal"):
            order = getattr(fn, "_local_order", None)
            if order is None:
                order = {d: i for i, d in enumerate(sorted(fn.vardecls, key=lambda d: fn.vardecls[d].get("i", d)))}
                # vardecls have no node id; order by decl id (declaration order within the TU)
                order = {d: i for i, d in enumerate(sorted(fn.vardecls))}
                fn._local_order = order
            return "$L%d" % order.get(n["d"], 99)
        return n.get("n", "?")
    if k == "member":
        return r(n["ch"][0]) + ("->" if n.get("arrow") else ".") + n["n"]
    if k == "index":
        return "%s[%s]" % (r(n["ch"][0]), r(n["ch"][1]))
    if k == "call":
        ch = n["ch"]
        return "%s(%s)" % (n.get("callee") or r(ch[0]), ",".join(r(c) for c in ch[1:]))
    if k in ("bin", "assign"):
        return "%s%s%s" % (r(n["ch"][0]), n["op"], r(n["ch"][1]))
    if k == "un":
        return (r(n["ch"][0]) + n["op"]) if n.get("post") else (n["op"] + r(n["ch"][0]))
    if k in ("int", "char"):
        return str(n.get("cv"))
    if k == "str":
        return '"%s"' % (n.get("sv") or "")[:32]
    if k == "cond":
        return "%s?%s:%s" % (r(n["ch"][0]), r(n["ch"][1]), r(n["ch"][2]))
    if k == "sizeof":
        return "sizeof"
    return "<%s>" % k


class Obligation:
    __slots__ = ("rule", "function", "site", "ok", "detail", "loc", "proof", "known")

    def __init__(self, rule, function, site, ok, detail="", loc="", proof=""):
        self.rule = rule
        self.function = function
        self.site = site
        self.ok = ok
        self.detail = detail
        self.loc = loc
        self.proof = proof
        self.known = None


class Check:
    def __init__(self, prop, level="other", tier=None, explanation="", checker_cmd=None):
        self.prop = prop
        self.level = level
        self.tier = tier or os.environ.get("VERIF_TIER") or "quick"
        if self.tier not in ("quick", "thorough"):
            self.tier = "quick"
        self.seed = int(os.environ.get("VERIF_SEED", "0") or 0)
        self.t0 = time.time()
        self.obls = []
        self.counts = {}
        self.floors = {}
        self.notes = []
        self.assumptions = []
        self.trusted = []
        self.explanation = explanation
        self.analysed = {}
        self.rules = {}
        self.checker_cmd = checker_cmd or ("bin/check %s" % prop)
        self._site_ord = {}

    # ---- recording ------------------------------------------------------------------
    def rule(self, rid, text):
        self.rules[rid] = text

    def ob(self, rule, function, site, ok, detail="", loc="", proof=""):
        key = (rule, function, site)
        n = self._site_ord.get(key, 0)
        self._site_ord[key] = n + 1
        if n:
            site = "%s#%d" % (site, n)
        o = Obligation(rule, function, site, bool(ok), detail, loc, proof)
        self.obls.append(o)
        return o

    def count(self, name, value, floor=None):
        """floor: the instance count confirmed by hand on the reviewed tree.  The alarm threshold is half of it: the floor
        exists to catch a rule that has stopped matching (vacuous pass), not the drift that ordinary refactoring causes
        (extracting a helper, merging two sites)."""
        self.counts[name] = value
        if floor is not None:
            self.floors[name] = max(1, (floor + 1) // 2)

    def note(self, s):
        self.notes.append(s)

    def assume(self, s):
        self.assumptions.append(s)

    # ---- finishing ------------------------------------------------------------------
    def _known(self):
        try:
            with open(KNOWN_FILE) as fh:
                data = json.load(fh)
        except (OSError, ValueError):
            return []
        return [k for k in data.get("findings", []) if k.get("property") == self.prop]

    def finish(self):
        known = [k for k in self._known() if k.get("status") == "known"]
        kidx = {(k["rule"], k["function"], k["site"]): k for k in known}
        violations = []
        known_hits = []
        for o in self.obls:
            if o.ok:
                continue
            k = kidx.get((o.rule, o.function, o.site))
            if k is not None:
                o.known = k
                known_hits.append(o)
            else:
                violations.append(o)
        broken = []
        for name, floor in self.floors.items():
            if self.counts.get(name, 0) < floor:
                broken.append("instance count %s=%s below its confirmed floor %s" % (name, self.counts.get(name, 0), floor))
        os.makedirs(os.path.join(EVDIR, "replay"), exist_ok=True)
        for o in known_hits:
            print("KNOWN-FINDING: property=%s %s %s in %s [%s] %s" % (self.prop, o.rule, o.site, o.function, o.loc,
                                                                   o.known.get("what", "")))
        for o in violations:
            h = hashlib.sha1(("%s|%s|%s|%s" % (self.prop, o.rule, o.function, o.site)).encode()).hexdigest()[:12]
            path = os.path.join(EVDIR, "replay", "%s_%s.json" % (self.prop, h))
            with open(path, "w") as fh:
                json.dump({"property": self.prop, "rule": o.rule, "rule_text": self.rules.get(o.rule, ""),
                           "function": o.function, "site": o.site, "loc": o.loc, "detail": o.detail}, fh, indent=1)
            print("%s: %s: rule %s (%s): %s" % (o.loc, o.function, o.rule, o.site, o.detail))
            print("VIOLATION property=%s replay=%s" % (self.prop, path))
        n_ob = len(self.obls)
        n_ok = sum(1 for o in self.obls if o.ok)
        samples = []
        per_rule = {}
        for o in self.obls:
            per_rule.setdefault(o.rule, [0, 0])
            per_rule[o.rule][0] += 1
            per_rule[o.rule][1] += 1 if o.ok else 0
        seen_rules = {}
        for o in self.obls:
            if seen_rules.get(o.rule, 0) < 3:
                seen_rules[o.rule] = seen_rules.get(o.rule, 0) + 1
                samples.append({"rule": o.rule, "function": o.function, "site": o.site, "loc": o.loc,
                                "status": "discharged" if o.ok else ("known-finding" if o.known else "violated"),
                                "proof": o.proof or o.detail})
        level = self.level
        if level == "proof" and (n_ok != n_ob or n_ob == 0):
            level = "other"
        cov = {
            "obligations": n_ob,
            "discharged": n_ok,
            "known_findings": len(known_hits),
            "violated": len(violations),
            "evaluations": max(n_ob, 1),
            "distinct_nontrivial": max(len({(o.rule, o.function, o.site) for o in self.obls}), 0),
            "rule": "one obligation per (rule, function, site) instance enumerated from /repo's current source; "
                    "distinct = distinct (rule,function,site) triples",
            "samples": samples or [{"note": "no obligations"}],
            "checker_cmd": self.checker_cmd,
            "trusted_base": self.trusted or ["clang 14 parser/Sema/CFG", "lafacts plugin serialisation",
                                             "libc effect models in la/models.py"],
            "explanation": self.explanation,
            "rules": self.rules,
            "per_rule": {k: {"obligations": v[0], "discharged": v[1]} for k, v in per_rule.items()},
            "instance_counts": self.counts,
            "floors": self.floors,
            "analysed": self.analysed,
            "notes": self.notes,
            "exhaustive": True,
        }
        ev = {
            "property_id": self.prop,
            "tier": self.tier,
            "seed": self.seed,
            "level": level,
            "coverage": cov,
            "assumptions": self.assumptions,
            "wall_s": round(time.time() - self.t0, 3),
            "violations": len(violations),
        }
        with open(os.path.join(EVDIR, "%s.json" % self.prop), "w") as fh:
            json.dump(ev, fh, indent=1)
        print("%s: %d obligations, %d discharged, %d known findings, %d violations (%.1fs)" % (
            self.prop, n_ob, n_ok, len(known_hits), len(violations), time.time() - self.t0))
        if broken:
            for b in broken:
                print("ANALYSIS-BROKEN property=%s %s" % (self.prop, b))
            return 2
        return 1 if violations else 0


def run(prop, main):
    """Run a property driver with the exit-code conventions."""
    try:
        rc = main()
    except AnalysisBroken as e:
        print("ANALYSIS-BROKEN property=%s %s" % (prop, e))
        rc = 2
    sys.exit(rc)
