"""Facts about libast's object classes derived from the source: class tables, the record behind each
class, owned fields (released by done), nullable fields (set to NULL by the plain init / by done)."""
import re

from . import expr as X
from .facts import walk


def rec_of_param(fn, i=0):
    """record name behind pointer parameter i ('struct spif_str_t_struct *' -> 'spif_str_t_struct')"""
    if i >= len(fn.params):
        return None
    t = fn.params[i].get("tc") or fn.params[i].get("t") or ""
    m = re.search(r"struct (\w+) \*", t)
    return m.group(1) if m else None


def slot_of(prog, fname):
    """[(table var, short slot name)] for a function"""
    return [(t, s.split(".")[-1]) for t, s in prog.slot_functions().get(fname, [])]


def functions_in_slot(prog, slot):
    out = []
    for t in prog.class_tables():
        for s, v in t["slots"].items():
            if isinstance(v, str) and s.split(".")[-1] == slot:
                f = prog.fn(v)
                if f is not None and f not in out:
                    out.append(f)
    return out


def tables_of(prog, fname):
    return [t for t in prog.class_tables() if fname in [v for v in t["slots"].values() if isinstance(v, str)]]


def self_field_args(fn, call, pidx=0):
    """fields F such that `self->F` (self = parameter pidx) is passed as an argument of the call"""
    res = []
    for a in call["ch"][1:]:
        s = X.strip(a)
        if s.get("k") == "member" and s.get("arrow"):
            b = X.strip(s["ch"][0])
            if b.get("k") == "ref" and b.get("rk") == "param" and b.get("pi") == pidx:
                res.append(s["n"])
    return res


def owned_fields(fn_done):
    """Pointer fields of self that the done function hands to a releasing call (free / *_del / DEL dispatch)."""
    owned = []
    for c in X.calls_in(fn_done.body):
        cn = X.callee_name(c) or X.dispatch_slot(c) or ""
        if cn in ("free", "spifmem_free", "del", "done") or cn.endswith("_del") or cn.endswith("_done") or cn in ("close", "pcre_free", "regfree"):
            for f in self_field_args(fn_done, c):
                if f not in owned:
                    owned.append(f)
    return owned


def null_stores(fn, pidx=0):
    """fields F with a store `self->F = NULL` somewhere in fn"""
    res = []
    for n in walk(fn.body):
        if n.get("k") == "assign" and n.get("op") == "=":
            l = X.strip(n["ch"][0])
            if l.get("k") == "member" and l.get("arrow") and X.is_null_const(n["ch"][1]):
                b = X.strip(l["ch"][0])
                if b.get("k") == "ref" and b.get("rk") == "param" and b.get("pi") == pidx and l["n"] not in res:
                    res.append(l["n"])
            # chained a = b = NULL
    return res


def class_prefixes(prog):
    """class name (e.g. 'str', 'linked_list_item') -> {slot: Function} using the table's function names"""
    out = {}
    for t in prog.class_tables():
        slots = {}
        for s, v in t["slots"].items():
            if isinstance(v, str):
                slots[s.split(".")[-1]] = v
        out[t["unit"] + ":" + t["var"]] = slots
    return out


def nullable_fields(prog):
    """record name -> set of pointer fields that the class's init / done / constructors set to NULL
    (so a reachable object may hold NULL there)."""
    res = {}
    for f in prog.all_functions():
        if not re.search(r"_(init|done|new)$|_init_", f.name):
            continue
        rec = rec_of_param(f, 0)
        if rec is None:
            continue
        for fld in null_stores(f, 0):
            res.setdefault(rec, set()).add(fld)
    return res


def node_ctor_wrappers(unit):
    """names of the unit-local functions that hand back a freshly made list node: every return yields a local whose every
    definition is a call of an item constructor (`*_item_new`) or of another such wrapper (item_new_with(obj) = item_new +
    set_data)"""
    cached = getattr(unit, "_node_ctor_wrappers", None)
    if cached is not None:
        return cached
    out = set()
    changed = True
    while changed:
        changed = False
        for g in unit.functions.values():
            if g.name in out or g.body is None or re.search(r"_item_new$", g.name):
                continue
            rets = [x for x in walk(g.body) if x.get("k") == "return"]
            if not rets:
                continue
            ok = True
            for r in rets:
                v = X.strip(r["val"]) if r.get("val") is not None else None
                if v is None:
                    ok = False
                    break
                if v.get("k") == "call":
                    cn = X.callee_name(v) or ""
                    if not (re.search(r"_item_new$", cn) or cn in out):
                        ok = False
                        break
                    continue
                if v.get("k") != "ref" or v.get("rk") != "local":
                    ok = False
                    break
                defs = []
                for x in walk(g.body):
                    if x.get("k") == "assign" and (X.strip(x["ch"][0]) or {}).get("d") == v["d"]:
                        defs.append(x["ch"][1] if x.get("op") == "=" else None)
                    if x.get("k") == "decl":
                        defs += [dc["init"] for dc in x.get("decls", ()) if dc["d"] == v["d"] and dc.get("init") is not None]
                if not defs:
                    ok = False
                    break
                for d in defs:
                    s = X.strip(d) if d is not None else None
                    cn = X.callee_name(s) if s is not None and s.get("k") == "call" else None
                    if cn is None or not (re.search(r"_item_new$", cn) or cn in out):
                        ok = False
                        break
                if not ok:
                    break
            if ok:
                out.add(g.name)
                changed = True
    try:
        unit._node_ctor_wrappers = out
    except Exception:
        pass
    return out


def is_node_ctor(unit, name):
    return bool(name) and (bool(re.search(r"_item_new$", name)) or name in node_ctor_wrappers(unit))
