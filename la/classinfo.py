"""Facts about libast's object classes derived from the source: class tables, the record behind each
class, owned fields (released by done), nullable fields (set to NULL by the plain init / by done)."""
import re

from . import expr as X
from .facts import walk


def rec_of_param(fn, i=0):
    """record name behind pointer parameter i ('struct spif_str_t_struct *' -> 'spif_str_t_struct')"""
    if i >= len(fn.params):
        return None
    t = fn.params[i].get("tc") or fn.params[i].get("t") or ""
    m = re.search(r"struct (\w+) \*", t)
    return m.group(1) if m else None


def slot_of(prog, fname):
    """[(table var, short slot name)] for a function"""
    return [(t, s.split(".")[-1]) for t, s in prog.slot_functions().get(fname, [])]


def functions_in_slot(prog, slot):
    out = []
    for t in prog.class_tables():
        for s, v in t["slots"].items():
            if isinstance(v, str) and s.split(".")[-1] == slot:
                f = prog.fn(v)
                if f is not None and f not in out:
                    out.append(f)
    return out


def tables_of(prog, fname):
    return [t for t in prog.class_tables() if fname in [v for v in t["slots"].values() if isinstance(v, str)]]


def self_field_args(fn, call, pidx=0):
    """fields F such that `self->F` (self = parameter pidx) is passed as an argument of the call"""
    res = []
    for a in call["ch"][1:]:
        s = X.strip(a)
        if s.get("k") == "member" and s.get("arrow"):
            b = X.strip(s["ch"][0])
            if b.get("k") == "ref" and b.get("rk") == "param" and b.get("pi") == pidx:
                res.append(s["n"])
    return res


def owned_fields(fn_done):
    """Pointer fields of self that the done function hands to a releasing call (free / *_del / DEL dispatch)."""
    owned = []
    for c in X.calls_in(fn_done.body):
        cn = X.callee_name(c) or X.dispatch_slot(c) or ""
        if cn in ("free", "spifmem_free", "del", "done") or cn.endswith("_del") or cn.endswith("_done") or cn in ("close", "pcre_free", "regfree"):
            for f in self_field_args(fn_done, c):
                if f not in owned:
                    owned.append(f)
    return owned


def null_stores(fn, pidx=0):
    """fields F with a store `self->F = NULL` somewhere in fn"""
    res = []
    for n in walk(fn.body):
        if n.get("k") == "assign" and n.get("op") == "=":
            l = X.strip(n["ch"][0])
            if l.get("k") == "member" and l.get("arrow") and X.is_null_const(n["ch"][1]):
                b = X.strip(l["ch"][0])
                if b.get("k") == "ref" and b.get("rk") == "param" and b.get("pi") == pidx and l["n"] not in res:
                    res.append(l["n"])
            # chained a = b = NULL
    return res


def class_prefixes(prog):
    """class name (e.g. 'str', 'linked_list_item') -> {slot: Function} using the table's function names"""
    out = {}
    for t in prog.class_tables():
        slots = {}
        for s, v in t["slots"].items():
            if isinstance(v, str):
                slots[s.split(".")[-1]] = v
        out[t["unit"] + ":" + t["var"]] = slots
    return out


def nullable_fields(prog):
    """record name -> set of pointer fields that the class's init / done / constructors set to NULL
    (so a reachable object may hold NULL there)."""
    res = {}
    for f in prog.all_functions():
        if not re.search(r"_(init|done|new)$|_init_", f.name):
            continue
        rec = rec_of_param(f, 0)
        if rec is None:
            continue
        for fld in null_stores(f, 0):
            res.setdefault(rec, set()).add(fld)
    return res
