"""Fact extraction and loading.

Runs the lafacts clang plugin over every translation unit the build compiles (unit list
from src/Makefile.am, flags from src/Makefile; `make` is never run) and loads the JSON into
Program / Unit / Function objects with parent links and node indices.
"""
import concurrent.futures
import json
import os
import re
import shutil
import subprocess
import sys
import tempfile

VERIF = os.path.dirname(os.path.dirname(os.path.abspath(__file__)))
REPO = os.environ.get("LA_REPO", "/repo")
PLUGIN = os.path.join(VERIF, "build", "lafacts.so")

DEFAULT_FLAGS = ["-DHAVE_CONFIG_H", "-I.", "-I..", "-I../include/libast", "-I../include"]
DEFAULT_UNITS = ("array.c builtin_hashes.c conf.c debug.c dlinked_list.c file.c linked_list.c mbuff.c mem.c "
                 "module.c msgs.c obj.c objpair.c options.c pthreads.c regexp.c socket.c str.c strings.c "
                 "snprintf.c tok.c url.c ustr.c").split()


class AnalysisBroken(Exception):
    """Raised when the analysis cannot be performed (exit code 2)."""


CHILD_KEYS = ("init", "cond", "inc", "then", "else", "body", "val", "sub", "arg")


def kids(n):
    """Children of a node in source order."""
    k = n.get("k")
    out = []
    if k == "decl":
        for d in n.get("decls", ()):
            if d.get("init") is not None:
                out.append(d["init"])
        return out
    if k == "do":
        return [n["body"], n["cond"]]
    if k == "for":
        return [n[x] for x in ("init", "cond", "inc", "body") if n.get(x) is not None]
    for key in CHILD_KEYS:
        v = n.get(key)
        if isinstance(v, dict):
            out.append(v)
    ch = n.get("ch")
    if ch:
        out.extend(c for c in ch if c is not None)
    return out


def walk(n):
    """Pre-order walk."""
    stack = [n]
    while stack:
        x = stack.pop()
        yield x
        ks = kids(x)
        stack.extend(reversed(ks))


LIBC_NO_GLOBAL_EFFECT = {"malloc", "calloc", "realloc", "free", "strlen", "strcmp", "strncmp", "strcasecmp", "strncasecmp", "memcpy",
                         "memmove", "memset", "memcmp", "strcpy", "strncpy", "strcat", "strdup", "strchr", "strrchr", "fprintf", "printf",
                         "snprintf", "sprintf", "fflush", "time", "__builtin_memcpy", "__builtin_memset", "__builtin_strcpy", "__builtin_strlen",
                         "__builtin___memcpy_chk", "__builtin___strcpy_chk", "__builtin___snprintf_chk", "__builtin_object_size"}


class Function:
    def __init__(self, unit, j):
        self.unit = unit
        self.j = j
        self.name = j["n"]
        self.decl = j["d"]
        self.static = bool(j.get("static"))
        self.params = j["params"]
        self.body = j["body"]
        self.line = j.get("l")
        self.endline = j.get("endl")
        self.file = unit.files[j["f"]] if "f" in j else unit.main
        self.nodes = {}
        self.parent = {}
        self.vardecls = {}  # decl id -> var decl json (locals)
        for n in walk(self.body):
            self.nodes[n["i"]] = n
            for c in kids(n):
                self.parent[c["i"]] = n
            if n.get("k") == "decl":
                for d in n.get("decls", ()):
                    self.vardecls[d["d"]] = d
                    if d.get("init") is not None:
                        # parent of init is the decl stmt; remember which var
                        d["init"]["_initof"] = d
            if n.get("k") == "sizeof" and n.get("arg") is not None:
                pass
        self.cfg = None
        if "cfg" in j:
            from . import flow
            self.cfg = flow.CFG(self, j["cfg"])
        self.maskdefs = {}
        self.flagdefs = self._find_flagdefs()
        if self.flagdefs:
            for n in walk(self.body):
                if n.get("k") == "ref" and n.get("d") in self.flagdefs:
                    n["flagdef"] = self.flagdefs[n["d"]]
        if self.maskdefs:
            for n in walk(self.body):
                if n.get("k") == "ref" and n.get("d") in self.maskdefs:
                    n["maskdef"] = self.maskdefs[n["d"]]

    def _forward_gotos_only(self):
        labs = {}
        for x in walk(self.body):
            if x.get("k") == "label":
                labs[x.get("n")] = x["i"]
        for x in walk(self.body):
            if x.get("k") == "goto" and not (x.get("n") in labs and labs[x["n"]] > x["i"]):
                return False
        return True

    def _find_flagdefs(self):
        """{local: condition} for a flag local that holds the truth of a condition: written exactly once, outside any loop,
        in a function without labels, from a side-effect-free comparison / logical expression or `c ? K1 : K0`; never
        address-taken; and between that write and the last read of the flag nothing the condition reads is written (its
        locals and parameters; any memory, and any call other than the assertion printers, if it reads memory).  Reading the
        flag is then evaluating the condition: every read carries the condition as `flagdef`, and the engines refine on
        it (X.implied, GhostPos.refine, Cap.branch) exactly as if the condition were written in place."""
        import re
        writes = {}
        taken = set()
        for x in walk(self.body):
            k = x.get("k")
            if k in ("label", "goto"):
                # only forward jumps (the cleanup label at the end of the function): the text order the stability test below
                # relies on is then still the execution order
                if not self._forward_gotos_only():
                    return {}
                continue
            if k == "assign":
                l = x["ch"][0]
                while l is not None and l.get("k") in ("paren", "icast", "cast"):
                    l = l["ch"][0]
                if l is not None and l.get("k") == "ref" and l.get("rk") == "local":
                    writes.setdefault(l["d"], []).append((x, x["ch"][1] if x.get("op") == "=" else None))
            elif k == "un" and x.get("op") in ("++", "--", "&"):
                l = x["ch"][0]
                while l is not None and l.get("k") in ("paren", "icast", "cast"):
                    l = l["ch"][0]
                if l is not None and l.get("k") == "ref":
                    if x.get("op") == "&":
                        taken.add(l.get("d"))
                    else:
                        writes.setdefault(l.get("d"), []).append((x, None))
            elif k == "decl":
                for dcl in x.get("decls", ()):
                    if dcl.get("init") is not None:
                        writes.setdefault(dcl["d"], []).append((x, dcl["init"]))
        out = {}
        for d, ws in writes.items():
            vd = self.vardecls.get(d)
            if vd is None or len(ws) != 1 or ws[0][1] is None or d in taken or vd.get("tp") or not vd.get("tw") or vd.get("alen"):
                continue
            node, rhs = ws[0]
            c = rhs
            while c is not None and c.get("k") in ("paren", "icast", "cast"):
                c = c["ch"][0]
            if c is None:
                continue
            mask = self._mask_terms(c)
            if mask is not None:
                pass            # (c1 ? K1 : 0) | (c2 ? K2 : 0) ..: a mask local; the same stability conditions as for a flag
            elif c.get("k") == "cond":
                tv, fv = c["ch"][1], c["ch"][2]
                while tv is not None and tv.get("k") in ("paren", "icast", "cast"):
                    tv = tv["ch"][0]
                while fv is not None and fv.get("k") in ("paren", "icast", "cast"):
                    fv = fv["ch"][0]
                if tv is None or fv is None or tv.get("cv") is None or fv.get("cv") is None or bool(tv["cv"]) == bool(fv["cv"]):
                    continue
            elif not ((c.get("k") == "bin" and c.get("op") in ("<", ">", "<=", ">=", "==", "!=", "&&", "||")) or
                      (c.get("k") == "un" and c.get("op") == "!")):
                continue
            if any(y.get("k") in ("assign", "call", "stmtexpr") or (y.get("k") == "un" and y.get("op") in ("++", "--")) for y in walk(c)):
                continue
            q = self.parent.get(node["i"])
            inloop = False
            while q is not None:
                if q.get("k") in ("for", "while", "do"):
                    inloop = True
                q = self.parent.get(q["i"])
            uses = [x["i"] for x in walk(self.body) if x.get("k") == "ref" and x.get("d") == d]
            if inloop:
                # inside a loop the flag is set afresh in every iteration that reads it: the write dominates every read (so the
                # read follows the write of the same iteration - a path from the loop head to a read that avoided the write
                # would also exist on the first iteration)
                wid = node["i"]
                if self.cfg is None or wid not in self.cfg.pos:
                    tgt = [y["i"] for y in walk(node) if y["i"] in self.cfg.pos] if self.cfg is not None else []
                    if not tgt:
                        continue
                    wid = max(tgt)
                own = {y["i"] for y in walk(node)}
                if not all(u_ in own or (u_ in self.cfg.pos and self.cfg.node_dominates(wid, u_)) for u_ in uses):
                    continue
            last = max(uses) if uses else node["i"]
            start = max(y["i"] for y in walk(node))
            rd_vars = {y["d"] for y in walk(c) if y.get("k") == "ref" and y.get("rk") in ("local", "param")}
            if rd_vars & taken:
                continue
            reads_ptr = any(y.get("k") in ("member", "index") or (y.get("k") == "un" and y.get("op") == "*") for y in walk(c))
            reads_glob = any(y.get("k") == "ref" and y.get("rk") == "global" for y in walk(c))
            reads_mem = reads_ptr or reads_glob
            ok = True
            for y in walk(self.body):
                if not (start < y["i"] <= last):
                    continue
                k = y.get("k")
                if k == "assign" or (k == "un" and y.get("op") in ("++", "--")):
                    l = y["ch"][0]
                    while l is not None and l.get("k") in ("paren", "icast", "cast"):
                        l = l["ch"][0]
                    if l.get("k") == "ref" and l.get("rk") in ("local", "param"):
                        if l.get("d") in rd_vars:
                            ok = False
                    elif reads_mem:
                        ok = False
                if k == "call" and reads_mem:
                    cal = y.get("callee")
                    if re.match(r"libast_(fatal_error|print_warning|print_error|dprintf)$", cal or "?"):
                        continue
                    # a libc routine that is not handed the address of anything the condition reads cannot change a global of
                    # this library (malloc between `record = level >= N` and `if (record)`)
                    if not reads_ptr and (cal or "?") in LIBC_NO_GLOBAL_EFFECT:
                        continue
                    ok = False
            if ok and mask is not None:
                self.maskdefs[d] = mask
            elif ok:
                out[d] = c
        return out

    @staticmethod
    def _mask_terms(c):
        """[(condition, K)] when c is (c1 ? K1 : 0) | (c2 ? K2 : 0) [| ...] (or + instead of |) with non-zero constants whose
        bits are pairwise disjoint, else None: each bit of the value then is the truth of one condition"""
        def unwrap(x):
            while x is not None and x.get("k") in ("paren", "icast", "cast"):
                x = x["ch"][0]
            return x
        terms = []

        def go(x):
            x = unwrap(x)
            if x is None:
                return False
            if x.get("k") == "bin" and x.get("op") in ("|", "+"):
                return go(x["ch"][0]) and go(x["ch"][1])
            if x.get("k") == "cond":
                tv, fv = unwrap(x["ch"][1]), unwrap(x["ch"][2])
                if tv is None or fv is None or tv.get("cv") is None or fv.get("cv") is None:
                    return False
                if fv["cv"] == 0 and tv["cv"] > 0:
                    terms.append((x["ch"][0], tv["cv"]))
                    return True
                if tv["cv"] == 0 and fv["cv"] > 0:
                    terms.append(({"k": "un", "op": "!", "ch": [x["ch"][0]], "i": x["i"], "t": "int", "tw": 32, "ts": 1}, fv["cv"]))
                    return True
            return False
        if c.get("k") != "bin" or not go(c) or len(terms) < 2:
            return None
        acc = 0
        for _, kv in terms:
            if acc & kv:
                return None
            acc |= kv
        return terms

    def param_index(self, declid):
        for i, p in enumerate(self.params):
            if p["d"] == declid:
                return i
        return None

    def loc(self, n):
        f = self.unit.files[n["f"]] if "f" in n else self.file
        return "%s:%s" % (self.unit.relfile(f), n.get("l", "?"))

    def macros(self, n):
        return n.get("m", [])

    def ancestors(self, n):
        p = self.parent.get(n["i"])
        while p is not None:
            yield p
            p = self.parent.get(p["i"])

    def __repr__(self):
        return "<Function %s>" % self.name


def _single_return_expr(fj):
    """E if the function body is just `return E;` with a side-effect-free E (a predicate / accessor helper), else None"""
    body = fj.get("body")
    if not body or body.get("k") != "block":
        return None
    stmts = [c for c in body.get("ch", []) if c is not None]

    def ret_of(st_):
        """E if the statement is `return E;` or `{ return E; }`"""
        while st_ is not None and st_.get("k") == "block":
            inner = [c for c in st_.get("ch", []) if c is not None]
            if len(inner) != 1:
                return None
            st_ = inner[0]
        if st_ is not None and st_.get("k") == "return" and st_.get("val") is not None:
            return st_["val"]
        return None
    e = None
    if len(stmts) == 1:
        e = ret_of(stmts[0])
    elif len(stmts) == 2 and stmts[0].get("k") == "if" and ret_of(stmts[0].get("then")) is not None and stmts[0].get("else") is None \
            and ret_of(stmts[1]) is not None:
        # a predicate written with an early return:  if (C) return A;  return B;   ==   C ? A : B
        a_, b_ = ret_of(stmts[0]["then"]), ret_of(stmts[1])
        e = {"k": "cond", "i": -1, "ch": [stmts[0]["cond"], a_, b_]}
        for key in ("t", "tc", "tw", "ts", "tp", "l", "f", "c"):
            if key in a_:
                e[key] = a_[key]
    elif len(stmts) == 1 and stmts[0].get("k") == "if" and stmts[0].get("else") is not None and ret_of(stmts[0]["then"]) is not None \
            and ret_of(stmts[0]["else"]) is not None:
        a_, b_ = ret_of(stmts[0]["then"]), ret_of(stmts[0]["else"])
        e = {"k": "cond", "i": -1, "ch": [stmts[0]["cond"], a_, b_]}
        for key in ("t", "tc", "tw", "ts", "tp", "l", "f", "c"):
            if key in a_:
                e[key] = a_[key]
    if e is None:
        return None
    for x in walk(e):
        if x.get("k") in ("assign", "call", "stmtexpr") or (x.get("k") == "un" and x.get("op") in ("++", "--")):
            return None
    return e


def inline_expression_helpers(j):
    """Calls to a static helper whose whole body is `return <pure expression>;` are replaced, in the callers' trees, by that
    expression with the arguments substituted (the node of the call keeps its id, so the CFG still refers to it).  A gate or
    predicate that a refactoring moved into such a helper is then seen by every rule exactly as if it were written in place."""
    import copy
    helpers = {}
    for fj in j["functions"]:
        if fj.get("static"):
            e = _single_return_expr(fj)
            if e is not None:
                helpers[fj["n"]] = (fj, e)
    if not helpers:
        return 0
    maxid = [0]
    for fj in j["functions"]:
        for x in walk(fj["body"]):
            maxid[0] = max(maxid[0], x.get("i", 0))
    count = 0

    def subst(e, binding):
        e = copy.deepcopy(e)

        def rec(n):
            if n.get("k") == "ref" and n.get("rk") == "param" and n.get("d") in binding:
                a = copy.deepcopy(binding[n["d"]])
                renumber(a)
                return a
            for key in CHILD_KEYS:
                v = n.get(key)
                if isinstance(v, dict):
                    n[key] = rec(v)
            if n.get("ch"):
                n["ch"] = [rec(c) if c is not None else None for c in n["ch"]]
            maxid[0] += 1
            n["i"] = maxid[0]
            return n

        def renumber(n):
            for x in walk(n):
                maxid[0] += 1
                x["i"] = maxid[0]
        return rec(e)
    for fj in j["functions"]:
        if fj["n"] in helpers:
            continue
        for x in list(walk(fj["body"])):
            if x.get("k") != "call":
                continue
            cal = x["ch"][0] if x.get("ch") else None
            while cal is not None and cal.get("k") in ("paren", "icast", "cast"):
                cal = cal["ch"][0]
            if cal is None or cal.get("k") != "ref" or cal.get("rk") != "func" or cal.get("n") not in helpers:
                continue
            hj, e = helpers[cal["n"]]
            args = x["ch"][1:]
            if len(args) != len(hj["params"]) or any(a is None for a in args):
                continue
            if any(y.get("k") in ("assign", "call") for a in args for y in walk(a)):
                continue          # argument with side effects: substitution could duplicate it
            binding = {p["d"]: a for p, a in zip(hj["params"], args)}
            new = subst(e, binding)
            keep = {k_: x[k_] for k_ in ("i", "l", "f", "m", "t", "tc", "tw", "ts", "tp") if k_ in x}
            x.clear()
            x.update(keep)
            x["k"] = "paren"
            x["ch"] = [new]
            x["inlined"] = cal["n"]
            count += 1
    return count


class Unit:
    def __init__(self, name, j, srcdir):
        self.name = name
        self.j = j
        self.srcdir = srcdir
        self.files = j["files"]
        self.main = j.get("main", name)
        self.functions = {}
        self.inlined_helpers = inline_expression_helpers(j)
        for fj in j["functions"]:
            f = Function(self, fj)
            self.functions[f.name] = f
        self.protos = j["protos"]
        self.globals = {g["n"]: g for g in j["globals"] if g.get("init") is not None or g.get("inmain")}
        self.all_globals = j["globals"]
        self.records = {r["n"]: r for r in j["records"]}

    def relfile(self, f):
        if f.startswith("/"):
            return f
        p = os.path.normpath(os.path.join("src", f))
        return p


class Program:
    def __init__(self, units, flags, config):
        self.units = units
        self.flags = flags
        self.config = config
        self.functions = {}
        self.records = {}
        for u in units.values():
            for f in u.functions.values():
                # first non-static definition wins; statics are keyed too unless shadowed
                if f.name not in self.functions or not f.static:
                    self.functions[f.name] = f
            for rn, r in u.records.items():
                self.records.setdefault(rn, r)
        self._tables = None

    def fn(self, name):
        return self.functions.get(name)

    def need(self, name):
        f = self.functions.get(name)
        if f is None:
            raise AnalysisBroken("anchor function %s not found in the analysed units" % name)
        return f

    def all_functions(self):
        for u in self.units.values():
            for f in u.functions.values():
                yield f

    # ---- class tables -------------------------------------------------------------
    def class_tables(self):
        """[{unit, var, type, slots: {slotpath: function name}, order:[slotpath]}] from global
        initialisers whose record type has function-pointer fields."""
        if self._tables is not None:
            return self._tables
        from .expr import strip
        out = []
        for u in self.units.values():
            for g in u.all_globals:
                if not g.get("inmain") or g.get("init") is None:
                    continue
                init = g["init"]
                if init.get("k") != "initlist":
                    continue
                tname = g.get("tc", g.get("t", ""))
                m = re.search(r"struct (\w+)", tname)
                rec = u.records.get(m.group(1)) if m else None
                if rec is None:
                    rec = u.records.get(g.get("t", "").replace("const ", "").strip())
                if rec is None:
                    continue
                slots = {}
                order = []

                def fill(rec, il, prefix):
                    vals = [c for c in il.get("ch", [])]
                    for fld, v in zip(rec["fields"], vals):
                        if v is None:
                            continue
                        if v.get("k") == "initlist" and fld.get("rec") and fld["rec"] in u.records:
                            fill(u.records[fld["rec"]], v, prefix + fld["n"] + ".")
                            continue
                        s = strip(v)
                        key = prefix + fld["n"]
                        if s.get("k") == "ref" and s.get("rk") == "func":
                            slots[key] = s["n"]
                            order.append(key)
                        elif s.get("k") == "str":
                            slots[key] = ("str", s.get("sv"))
                            order.append(key)
                fill(rec, init, "")
                nfunc = sum(1 for v in slots.values() if isinstance(v, str))
                if nfunc >= 3:
                    out.append({"unit": u.name, "var": g["n"], "type": rec["n"], "slots": slots, "order": order})
        self._tables = out
        return out

    def slot_functions(self):
        """function name -> list of (table var, slot)"""
        res = {}
        for t in self.class_tables():
            for s, v in t["slots"].items():
                if isinstance(v, str):
                    res.setdefault(v, []).append((t["var"], s))
        return res


def _parse_make_vars(path):
    vars_ = {}
    try:
        txt = open(path, errors="replace").read()
    except OSError:
        return vars_
    txt = txt.replace("\\\n", " ")
    for line in txt.splitlines():
        m = re.match(r"^([A-Za-z_][A-Za-z0-9_]*)\s*[:+]?=\s*(.*)$", line)
        if m:
            vars_[m.group(1)] = m.group(2).strip()
    return vars_


def _expand(s, vars_, depth=0):
    if depth > 10:
        return s

    def rep(m):
        return _expand(vars_.get(m.group(1), ""), vars_, depth + 1)
    return re.sub(r"\$[({]([A-Za-z_][A-Za-z0-9_]*)[)}]", rep, s)


def build_settings(repo=None):
    """(flags, units) read from the generated src/Makefile and src/Makefile.am (text only)."""
    repo = repo or REPO
    mk = _parse_make_vars(os.path.join(repo, "src", "Makefile"))
    am = _parse_make_vars(os.path.join(repo, "src", "Makefile.am"))
    flags = []
    if mk:
        for v in ("DEFS", "DEFAULT_INCLUDES", "AM_CPPFLAGS", "INCLUDES", "CPPFLAGS"):
            if v in mk:
                flags += _expand(mk[v], mk).split()
    flags = [f for f in flags if f.startswith(("-D", "-I", "-U"))]
    seen = set()
    flags = [f for f in flags if not (f in seen or seen.add(f))]
    if not flags:
        flags = list(DEFAULT_FLAGS)
    units = []
    src = am.get("libast_la_SOURCES") or mk.get("libast_la_SOURCES")
    if src:
        units = [s for s in _expand(src, am or mk).split() if s.endswith(".c")]
    if not units:
        units = list(DEFAULT_UNITS)
    units = [u for u in units if os.path.exists(os.path.join(repo, "src", u))]
    return flags, units


def make_config_dir(scratch, repo, edits):
    """Shadow config.h with `edits` = {MACRO: value or None (undef)}; returns include dir."""
    d = tempfile.mkdtemp(prefix="cfg", dir=scratch)
    src = open(os.path.join(repo, "config.h"), errors="replace").read()
    for k, v in edits.items():
        pat = re.compile(r"^[ \t]*#[ \t]*define[ \t]+%s\b.*$|^/\*[ \t]*#[ \t]*undef[ \t]+%s\b.*\*/$" % (k, k), re.M)
        rep = ("#define %s %s" % (k, v)) if v is not None else ("/* #undef %s */" % k)
        if pat.search(src):
            src = pat.sub(rep, src)
        elif v is not None:
            src += "\n" + rep + "\n"
    open(os.path.join(d, "config.h"), "w").write(src)
    return d


_gen_cache = {}


def gen_headers(repo):
    """Regenerate the configure-generated headers (include/libast/types.h from types.h.in, sysdefs.h from
    sysdefs.h.in) into a scratch include dir with the tree's own config.status, so that an edit of a
    template is analysed even though `make` is never run.  Returns ['-I<dir>'] or [] when not possible."""
    if repo in _gen_cache:
        return _gen_cache[repo]
    res = []
    cs = os.path.join(repo, "config.status")
    tin = os.path.join(repo, "include", "libast", "types.h.in")
    sin = os.path.join(repo, "include", "libast", "sysdefs.h.in")
    if os.path.exists(cs) and os.path.exists(tin):
        d = tempfile.mkdtemp(prefix="gen", dir=scratch_dir())
        os.makedirs(os.path.join(d, "libast"))
        cmd = ["/bin/sh", cs, "--file=libast/types.h:" + tin]
        if os.path.exists(sin):
            cmd.append("--header=libast/sysdefs.h:" + sin)
        try:
            p = subprocess.run(cmd, cwd=d, stdout=subprocess.PIPE, stderr=subprocess.STDOUT, text=True, timeout=60)
            if p.returncode == 0 and os.path.exists(os.path.join(d, "libast", "types.h")):
                res = ["-I" + d]
        except (OSError, subprocess.SubprocessError):
            res = []
    _gen_cache[repo] = res
    return res


def _run_plugin(args):
    srcdir, unit, flags, out, extra = args
    cmd = ["clang", "-fsyntax-only", "-w", "-fplugin=" + PLUGIN, "-Xclang", "-plugin", "-Xclang", "lafacts",
           "-Xclang", "-plugin-arg-lafacts", "-Xclang", "out=" + out] + extra + flags + [unit]
    p = subprocess.run(cmd, cwd=srcdir, stdout=subprocess.PIPE, stderr=subprocess.STDOUT, text=True)
    return unit, p.returncode, p.stdout


_scratch_dirs = []


def scratch_dir():
    d = tempfile.mkdtemp(prefix="la_")
    _scratch_dirs.append(d)
    return d


def cleanup():
    for d in _scratch_dirs:
        shutil.rmtree(d, ignore_errors=True)
    del _scratch_dirs[:]


import atexit
atexit.register(cleanup)


def extract(repo=None, units=None, config_edits=None, extra_flags=None, srcdir=None, only=None):
    """Extract facts for all built units (or `units`) and return a Program."""
    repo = repo or REPO
    if not os.path.exists(PLUGIN):
        raise AnalysisBroken("plugin %s not built (run setup)" % PLUGIN)
    srcdir = srcdir or os.path.join(repo, "src")
    if not os.path.exists(os.path.join(repo, "config.h")):
        raise AnalysisBroken("config.h missing in %s" % repo)
    flags, all_units = build_settings(repo)
    units = units or all_units
    if only:
        units = [u for u in units if u in only]
    scratch = scratch_dir()
    extra = gen_headers(repo) + list(extra_flags or [])
    if config_edits is None and os.environ.get("LA_CONFIG_EDITS"):
        # thorough tier: the same rules over another build configuration, e.g. LA_CONFIG_EDITS="DEBUG=0"
        config_edits = {}
        for kv in os.environ["LA_CONFIG_EDITS"].split(","):
            k, _, v = kv.partition("=")
            config_edits[k.strip()] = v.strip() if v.strip() != "undef" else None
    if config_edits:
        d = make_config_dir(scratch, repo, config_edits)
        extra = ["-I" + d] + extra
    jobs = [(srcdir, u, flags, os.path.join(scratch, u + ".json"), extra) for u in units]
    loaded = {}
    with concurrent.futures.ThreadPoolExecutor(max_workers=16) as ex:
        for unit, rc, out in ex.map(_run_plugin, jobs):
            if rc != 0:
                raise AnalysisBroken("clang failed on %s: %s" % (unit, out[-2000:]))
    for srcdir_, u, _f, out, _e in jobs:
        with open(out) as fh:
            loaded[u] = Unit(u, json.load(fh), srcdir_)
        os.unlink(out)
    return Program(loaded, flags + extra, config_edits or {})


def extract_file(path, repo=None, config_edits=None, extra_flags=None):
    """Extract one out-of-tree unit (a generated probe) with the real build flags; returns a Unit."""
    repo = repo or REPO
    if not os.path.exists(PLUGIN):
        raise AnalysisBroken("plugin %s not built (run setup)" % PLUGIN)
    flags, _ = build_settings(repo)
    scratch = scratch_dir()
    extra = gen_headers(repo) + list(extra_flags or [])
    if config_edits:
        extra = ["-I" + make_config_dir(scratch, repo, config_edits)] + extra
    out = os.path.join(scratch, "probe.json")
    unit, rc, txt = _run_plugin((os.path.join(repo, "src"), path, flags, out, extra))
    if rc != 0:
        raise AnalysisBroken("clang failed on probe %s: %s" % (path, txt[-3000:]))
    with open(out) as fh:
        u = Unit(os.path.basename(path), json.load(fh), os.path.join(repo, "src"))
    os.unlink(out)
    return u


def clang_diagnostics(repo=None, warn_flags=(), units=None):
    """Run clang -fsyntax-only with the given -W flags; returns [(unit, file, line, col, flag, msg)]."""
    repo = repo or REPO
    flags, all_units = build_settings(repo)
    units = units or all_units
    srcdir = os.path.join(repo, "src")

    def run(u):
        cmd = ["clang", "-fsyntax-only", "-w"] + list(warn_flags) + flags + [u]
        # -w silences everything, so enable only requested groups explicitly after it
        cmd = ["clang", "-fsyntax-only", "-Wno-everything"] + list(warn_flags) + flags + [u]
        p = subprocess.run(cmd, cwd=srcdir, stdout=subprocess.PIPE, stderr=subprocess.STDOUT, text=True)
        return u, p.stdout
    res = []
    with concurrent.futures.ThreadPoolExecutor(max_workers=16) as ex:
        for u, out in ex.map(run, units):
            for m in re.finditer(r"^([^:\n]+):(\d+):(\d+): warning: (.*?) \[(-W[^\]]+)\]$", out, re.M):
                res.append((u, m.group(1), int(m.group(2)), int(m.group(3)), m.group(5), m.group(4)))
    return res
