"""C02 — every list implementation is the same abstract sequence (incl. iterators).

The behavioural whole (observational equality of three classes over all histories) is not statically decided.  Decided
here are the clauses whose truth is in the shape of the code, each a necessary condition of the property:

  N1  negative positions are normalised with `idx += len` before use                       (insert_at / get / remove_at)
  P1  insert_at puts the element at position idx: every splice / delegation / slot store is proven to happen at the
      normalised position (GHOSTPOS: linear constraints over idx, len, loop counters and ghost node positions)
  P2  get returns the element whose position is idx;  P3  remove_at unlinks the node whose position is idx
  P4  insert_at refuses only positions that normalise below zero; get / remove_at only those outside [0, len)
  P5  index() reports the position of the matching node; to_array() fills slot i from node i
  D1  every dereference of a chain pointer is provably inside the chain (no NULL dereference in any list state)
  D2  element comparisons never dispatch through an element that may be a NULL placeholder
  L2  unlinking updates predecessor, successor, head and tail, and head/tail updates are independent
  L3  a created node is linked forwards and (doubly linked) backwards on every successful path;  L5  len accounting
  L4  reverse updates head (and tail)
  I1-I3 iterator protocol
  B1  array storage: every access within items[0..len) and `items has exactly len slots` preserved (CAP)
  U1  no use of an uninitialised local (clang -Wuninitialized / -Wsometimes-uninitialized)
"""
import re

from .. import facts, expr as X, nullness, classinfo, listrules as LR
from ..capcheck import run_cap
from ..report import Check

NORETURN = {"libast_fatal_error"}
UNITS = ["array.c", "linked_list.c", "dlinked_list.c"]


def init_diag(chk, prog, units, rule="U1", only=None):
    diags = facts.clang_diagnostics(warn_flags=["-Wuninitialized", "-Wsometimes-uninitialized"], units=units)
    n = 0
    for u, file, line, col, flag, msg in diags:
        fn = None
        for f in prog.units[u].functions.values():
            if f.line and f.endline and f.line <= line <= f.endline:
                fn = f
        if fn is None or (only is not None and fn.name not in only):
            continue
        n += 1
        var = re.search(r"'([^']+)'", msg)
        chk.ob(rule, fn.name, "uninit:%s" % (var.group(1) if var else flag), False, loc="src/%s:%d" % (u, line),
               detail="%s: %s [%s] - a list state the interface can produce reaches a use of an unset local" % (fn.name, msg, flag))
    if not n:
        chk.ob(rule, "*", "uninitialised-locals", True, loc="src/{%s}" % ",".join(units), proof="clang reports no (sometimes-)uninitialised use")
    return n


def cap_array(chk, prog, fns, rule="B1"):
    fns = [f for f in fns if f.unit.name == "array.c" and not f.name.endswith("_show")]
    return run_cap(chk, prog, fns, rule=rule, noreturn=NORETURN)


def run(tier="quick"):
    chk = Check("C02", level="other", tier=tier,
                explanation="GHOSTPOS (relational abstract interpretation with ghost node positions, Fourier-Motzkin entailment) for the "
                            "index clauses of the list interface; link-effect, ownership-of-storage and iterator-protocol rules over the "
                            "resolved class tables of all three implementations; CAP for the array storage")
    for rid, txt in (("N1", "negative positions count from the end"), ("P1", "insert_at inserts at the normalised position"),
                     ("P2", "get returns the element at idx"), ("P3", "remove_at removes the node at idx"),
                     ("P4", "only out-of-range positions are refused"), ("P5", "index/to_array positions"),
                     ("D1", "chain pointers dereferenced only inside the chain"), ("D2", "no dispatch through a NULL placeholder"),
                     ("L2", "unlink updates pred/succ/head/tail independently"),
                     ("L3", "created node linked forwards and backwards"), ("L4", "reverse updates head and tail"), ("L7", "every node of a doubly linked copy is back-linked"),
                     ("L5", "len follows every insertion and removal"), ("I1", "iterator starts at the first element"),
                     ("I2", "next() yields the element under the cursor and steps once"), ("I3", "has_next() exact"),
                     ("B1", "array storage bounds and len/items invariant"), ("U1", "no uninitialised local")):
        chk.rule(rid, txt)
    prog = facts.extract(units=UNITS + ["obj.c", "objpair.c"])
    summ = nullness.Summaries(prog, noreturn=NORETURN)
    fns = LR.iface_functions(prog, "list")
    names = {f.name for f in fns}
    npos = 0
    for u in UNITS:
        npos += LR.check_positions(chk, prog, u)
    nd = 0
    for u in ("linked_list.c", "dlinked_list.c"):
        nd += LR.check_chain_derefs(chk, prog, u, only=names)[1]
    nnull = LR.check_nullable_data(chk, prog, summ, fns, "D2")
    nun = LR.check_unlink_effects(chk, prog, "dlinked_list.c", True, only=names) + LR.check_unlink_effects(chk, prog, "linked_list.c", False, only=names)
    nins = LR.check_insert_effects(chk, prog, "dlinked_list.c", True, only=names) + LR.check_insert_effects(chk, prog, "linked_list.c", False, only=names)
    nrev = sum(LR.check_reverse(chk, prog, u, u == "dlinked_list.c") for u in ("linked_list.c", "dlinked_list.c"))
    nlen = sum(LR.check_len_on_remove(chk, prog, u, only=names) for u in ("linked_list.c", "dlinked_list.c"))
    nbal = sum(LR.check_len_balance(chk, prog, u, only=names) for u in ("linked_list.c", "dlinked_list.c"))
    chk.count("len_balance_functions", nbal, floor=1)
    nbl = LR.check_dup_backlinks(chk, prog, only={f.name for f in LR.iface_functions(prog, "list", with_parent=True)})
    chk.count("dlinked_dup_functions", nbl, floor=1)
    nit = LR.check_iterators(chk, prog)
    nf, nund, samples = cap_array(chk, prog, fns)
    init_diag(chk, prog, UNITS, only=names)
    chk.count("list_functions", len(fns), floor=40)
    chk.count("position_obligations", npos, floor=30)
    chk.count("chain_deref_sites", nd, floor=40)
    chk.count("placeholder_functions", nnull, floor=6)
    chk.count("unlink_functions", nun, floor=4)
    chk.count("insert_functions", nins, floor=6)
    chk.count("reverse_functions", nrev, floor=2)
    chk.count("len_on_remove", nlen, floor=4)
    chk.count("iterator_classes", nit, floor=3)
    chk.count("cap_functions", nf, floor=12)
    chk.count("cap_undecided", nund)
    if samples:
        chk.note("CAP undecided (not reported): " + " | ".join(samples))
    chk.analysed = {"units": UNITS, "functions": sorted(names)}
    chk.assume("entry states satisfy the representation invariant the property's anchors state: the next-chain from head has exactly len "
               "nodes, tail is its last node, prev mirrors next (the L2-L5 rules check that every mutator re-establishes it)")
    chk.assume("self and element arguments are non-NULL objects (NULL handling is C16's contract); index arithmetic does not overflow")
    chk.assume("NOT decided: observational equality of the three classes over histories; dup / comp value semantics (C05)")
    return chk.finish()
