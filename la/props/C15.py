"""C15 — the debug memory tracker mirrors the live allocation set.

Structural clauses decided:
  T1  each tracked wrapper (malloc, calloc, realloc, free, strdup): on every path, table edits happen exactly when the
      runtime level is at the memory-debugging level, with the wrapper's own pointer / size / file / line, in the
      right order relative to the allocator call (decision table over enumerated paths)
  T2  every table-edit call in mem.c's wrappers is dominated by the runtime gate (no ungated edit) — sibling agreement
  T4  memrec_rem_var / memrec_chg_var do not touch the table when the pointer is not found
  T5  the tracking realloc and the untracked REALLOC macro have the same (ptr NULL?, size 0?) decision table
  T6  MALLOC/CALLOC/REALLOC/FREE/STRDUP map to the tracking wrappers iff DEBUG >= DEBUG_MEM; FREE nulls its argument
  T7  no raw allocator call outside mem.c except through the allocation macros (frozen exceptions with reasons)
  T8  the record's file name is copied with a bound equal to the size of the field it is copied into
  T12 a field of the tracking record that takes a wrapper parameter unchanged (size, line) has at least min(width of the parameter, 32) bits
  T9  removing a record moves exactly the records behind its slot down by one (GHOSTPOS over count and slot offset)
  T11 the lookup answers from the table it is given: it reads no other mutable state, or every record it returns was compared
      with the pointer asked for on the way to the return (a remembered slot must be re-validated)
"""
import json
import os
import re

from .. import facts, expr as X, paths, nullness, flow
from ..facts import walk, AnalysisBroken, VERIF, REPO
from ..report import Check, canon

ALLOC = {"malloc", "calloc", "realloc"}
EDITS = {"memrec_add_var", "memrec_rem_var", "memrec_chg_var"}
MACROS = ["MALLOC", "CALLOC", "REALLOC", "FREE", "STRDUP"]
RAW = {"malloc", "calloc", "realloc", "free", "strdup", "strndup"}
EXC_TABLE = os.path.join(VERIF, "tables", "c15_raw_alloc_exceptions.json")


INLINE = {}             # unit-local static helpers of mem.c whose paths are spliced into the wrappers' (filled by run())


def epaths(fn):
    """paths of a wrapper with its static helpers spliced in and flag locals / compound tests split into atomic tests"""
    return paths.enumerate_paths(fn, noreturn={"libast_fatal_error"}, inline=INLINE, expand=True, decls=True)


GATE_HELPERS = {}       # predicate helpers that answer the runtime gate: name -> (level, polarity); filled by find_gate_helpers()


def find_gate_helpers(prog, unit):
    """unit-local predicates without parameters whose every path tests the runtime level once and returns a constant that is
    non-zero exactly on one side of that test (static int tracking(void) { if (level < MEM) return 0; return 1; })"""
    GATE_HELPERS.clear()
    for g in unit.functions.values():
        if g.body is None or g.cfg is None or g.params:
            continue
        try:
            ps = paths.enumerate_paths(g, noreturn={"libast_fatal_error"})
        except Exception:
            continue
        verdict = {}
        ok = bool(ps)
        lvl = None
        for p in ps:
            gt = None
            ret = None
            for ev in p:
                if ev[0] == "cond":
                    gp = gate_pol(ev[1])
                    if gp is None or gt is not None:
                        ok = False
                        break
                    lvl = gp[0] if lvl is None else lvl
                    if gp[0] != lvl:
                        ok = False
                        break
                    gt = ev[2] if gp[1] else (not ev[2])
                elif ev[0] == "call":
                    ok = False
                    break
                elif ev[0] == "ret":
                    ret = ev[1]
            if not ok or gt is None or ret is None or ret.get("val") is None or X.const_val(ret["val"]) is None:
                ok = False
                break
            tv = bool(X.const_val(ret["val"]))
            if verdict.setdefault(gt, tv) != tv:
                ok = False
                break
        if ok and set(verdict) == {True, False} and verdict[True] != verdict[False]:
            GATE_HELPERS[g.name] = (lvl, verdict[True])


def gate_pol(cond):
    """(level, polarity) if cond is - up to negation, parentheses and `? 1 : 0` wrappers - the runtime gate
    libast_debug_level >= <const>;  polarity False means the condition is the negated gate"""
    c = X.strip(cond)
    if c is None:
        return None
    if c.get("k") == "call" and X.callee_name(c) in GATE_HELPERS:
        return GATE_HELPERS[X.callee_name(c)]
    if c.get("k") == "ref" and c.get("flagdef") is not None:
        return gate_pol(c["flagdef"])            # a flag local that stands for the gate (record = level >= N ? 1 : 0)
    if c.get("k") == "un" and c.get("op") == "!":
        g = gate_pol(c["ch"][0])
        return (g[0], not g[1]) if g else None
    if c.get("k") == "cond":
        tv, fv = X.const_val(c["ch"][1]), X.const_val(c["ch"][2])
        if tv is not None and fv is not None and bool(tv) != bool(fv):
            g = gate_pol(c["ch"][0])
            return (g[0], g[1] if tv else not g[1]) if g else None
        return None
    if c.get("k") == "bin" and c.get("op") in ("!=", "==") and X.const_val(c["ch"][1]) == 0:
        g = gate_pol(c["ch"][0])
        return (g[0], g[1] if c["op"] == "!=" else not g[1]) if g else None
    if c.get("k") == "bin" and c.get("op") in (">=", ">", "<", "<="):
        a = X.strip(c["ch"][0])
        if a.get("k") == "ref" and a.get("n") == "libast_debug_level" and X.const_val(c["ch"][1]) is not None:
            v = X.const_val(c["ch"][1])
            if c["op"] == ">=":
                return (v, True)
            if c["op"] == ">":
                return (v + 1, True)
            if c["op"] == "<":
                return (v, False)
            return (v + 1, False)
    return None


def gate_cond(cond):
    g = gate_pol(cond)
    return g[0] if g else None


def is_param(e, fn, name=None):
    s = X.strip(e)
    if s is not None and s.get("k") == "ref" and s.get("rk") == "param":
        return s.get("pi")
    return None


def path_summary(fn, p, mem_level):
    """events of one path: ordered calls of interest, gate truth, tests on parameters"""
    gate = None
    calls = []
    tests = {}
    ret = None
    unknown = []
    for ev in p:
        if ev[0] == "cond":
            gp = gate_pol(ev[1])
            if gp is not None:
                if gp[0] == mem_level:
                    truth_ = ev[2] if gp[1] else (not ev[2])
                    gate = truth_ if gate is None else (gate and truth_)
                continue   # other debug-level tests (D_MEM output, ASSERT arms) do not matter
            facts_ = X.implied(ev[1], ev[2])
            hit = False
            for f in facts_:
                if f[0] in ("nn", "null", "eq", "ne", "true", "false"):
                    tests[f[1]] = f
                    hit = True
            if not hit:
                unknown.append(X.render(ev[1]))
        elif ev[0] == "call":
            if ev[1] in ALLOC | EDITS | {"free", "strcpy", "memcpy", "strlen"} or ev[1].startswith("spifmem_"):
                calls.append((ev[1], ev[2]))
        elif ev[0] == "ret":
            ret = ev[1]
    return gate, calls, tests, ret, unknown


def resolve_on_path(path, call, e, depth=0):
    """the expression a local / a field of a struct local stands for at `call`, following the assignments made along this path
    before the call (site.filename = filename; ...; helper(&site): site->filename is the wrapper's parameter)"""
    s = X.strip(e)
    if path is None or s is None or depth > 5:
        return e
    locals_, fields_ = {}, {}
    for ev in path:
        if ev[0] == "call" and ev[2] is call:
            break
        if ev[0] == "assign" and ev[2].get("op") == "=":
            l = X.strip(ev[2]["ch"][0])
            if l is None:
                continue
            if l.get("k") == "ref" and l.get("rk") == "local":
                locals_[l["d"]] = ev[2]["ch"][1]
            elif l.get("k") == "member":
                b = X.strip(l["ch"][0])
                if b is not None and not l.get("arrow") and b.get("k") == "ref" and b.get("rk") == "local":
                    fields_[(b["d"], l["n"])] = ev[2]["ch"][1]
    if s.get("k") == "ref" and s.get("rk") == "local" and s["d"] in locals_:
        r = locals_[s["d"]]
        if not any(y.get("k") == "ref" and y.get("d") == s["d"] for y in walk(r)):
            return resolve_on_path(path, call, r, depth + 1)
    if s.get("k") == "member":
        b = X.strip(s["ch"][0])
        key = None
        if b is not None and s.get("arrow") and b.get("k") == "un" and b.get("op") == "&":
            t = X.strip(b["ch"][0])
            if t is not None and t.get("k") == "ref" and t.get("rk") == "local":
                key = (t["d"], s["n"])
        elif b is not None and not s.get("arrow") and b.get("k") == "ref" and b.get("rk") == "local":
            key = (b["d"], s["n"])
        if key in fields_:
            return resolve_on_path(path, call, fields_[key], depth + 1)
    if s.get("k") == "cond":
        # NONULL(x) = (x) ? x : "<null>": resolve the value arm
        return e
    return e


def arg_is(fn, call, idx, what, path=None):
    """what: ('param', i) | ('local', declid) | ('addr_global', name)"""
    args = call["ch"][1:]
    if idx >= len(args):
        return False
    s = X.strip(args[idx])
    if path is not None and what[0] == "param":
        s0 = s
        if s0 is not None and s0.get("k") == "cond":
            s0 = X.strip(s0["ch"][1])            # NONULL(filename) = (filename) ? filename : "<null>"
        r_ = X.strip(resolve_on_path(path, call, s0))
        if r_ is not None and r_ is not s0:
            if r_.get("k") == "cond":
                r_ = X.strip(r_["ch"][1])
            if r_.get("k") == "ref" and r_.get("rk") == "param" and r_.get("pi") == what[1] and (r_.get("d") in {p_["d"] for p_ in fn.params}):
                return True
    if what[0] == "param" and s is not None and s.get("k") == "ref" and s.get("rk") == "local":
        # a local written exactly once (where = NONULL(filename)): its defining expression
        defs = []
        for x in walk(fn.body):
            if x.get("k") == "assign" and X.strip(x["ch"][0]).get("d") == s["d"]:
                defs.append(x["ch"][1] if x.get("op") == "=" else None)
            elif x.get("k") == "un" and x.get("op") in ("++", "--", "&") and X.strip(x["ch"][0]).get("d") == s["d"]:
                defs.append(None)
            elif x.get("k") == "decl":
                defs += [dc["init"] for dc in x.get("decls", ()) if dc["d"] == s["d"] and dc.get("init") is not None]
        if len(defs) == 1 and defs[0] is not None:
            s = X.strip(defs[0])
            # the parameter it copies must not be re-assigned either
            ps_ = [y for y in walk(defs[0]) if y.get("k") == "ref" and y.get("rk") == "param"]
            if any(x.get("k") == "assign" and X.strip(x["ch"][0]).get("rk") == "param" and X.strip(x["ch"][0]).get("d") in {y["d"] for y in ps_}
                   for x in walk(fn.body)):
                return False
    if what[0] == "param":
        # NONULL(filename) = (filename) ? filename : "<null>"
        if s.get("k") == "cond":
            s = X.strip(s["ch"][1])
        return s.get("k") == "ref" and s.get("rk") == "param" and s.get("pi") == what[1]
    if what[0] == "local":
        return s.get("k") == "ref" and s.get("d") == what[1]
    if what[0] == "addr_global":
        return s.get("k") == "un" and s.get("op") == "&" and X.strip(s["ch"][0]).get("n") == what[1]
    return False


def arg_is_returned_value(path, call, idx, ret):
    """Along this path, is argument idx of `call` the very value the function returns - the same local, or locals that are plain
    copies of one another on the path (moved = realloc(..); record(.., moved); result = moved; return result)?"""
    if ret is None or ret.get("val") is None:
        return False
    args = call["ch"][1:]
    if idx >= len(args):
        return False
    a = X.strip(args[idx])
    r = X.strip(ret["val"])
    if a is None or r is None or a.get("k") != "ref" or r.get("k") != "ref":
        return False
    origin = {}

    def org(d):
        return origin.get(d, ("init", d))
    at_call = None
    for ev in path:
        if ev[0] == "assign":
            n = ev[2]
            l = X.strip(n["ch"][0])
            if l.get("k") == "ref" and l.get("rk") == "local":
                rr = X.strip(n["ch"][1])
                if n.get("op") == "=" and rr is not None and rr.get("k") == "ref" and rr.get("rk") in ("local", "param"):
                    origin[l["d"]] = org(rr["d"])
                else:
                    origin[l["d"]] = ("def", n["i"])
        elif ev[0] == "call" and ev[2] is call:
            at_call = org(a["d"])
    return at_call is not None and at_call == org(r["d"])


def returned_local(ret):
    if ret is None or ret.get("val") is None:
        return None
    s = X.strip(ret["val"])
    if s.get("k") == "ref" and s.get("rk") == "local":
        return s["d"]
    return None


def check_alloc_wrapper(chk, prog, fn, allocator, edit, mem_level, size_desc, pidx):
    """malloc/calloc style wrapper. pidx = dict(file=, line=) parameter indices."""
    loc = fn.loc(fn.body)
    ps = epaths(fn)
    n = 0
    for p in ps:
        gate, calls, tests, ret, unknown = path_summary(fn, p, mem_level)
        names = [c[0] for c in calls]
        if allocator not in names:
            continue
        rl = returned_local(ret)
        acall = [c for c in calls if c[0] == allocator][0][1]
        # failure path of the allocator (ASSERT arm): returns NULL, no edit required
        if ret is not None and ret.get("val") is not None and X.is_null_const(ret["val"]):
            bad = edit in names
            chk.ob("T1", fn.name, "no-edit-on-failure", not bad, loc=loc,
                   detail="%s records a block although the allocator failed" % fn.name, proof="no table edit on the NULL return path")
            continue
        n += 1
        edits = [c for c in calls if c[0] in EDITS]
        want = bool(gate)
        site = "%s:gate=%s" % (edit, gate)
        if any(ev[0] == "noreturn" for ev in p):
            continue        # the allocation failed and the process ends on the fatal path
        if gate is None:
            # a path on which the allocation succeeded but the runtime level was never consulted: whether the block gets recorded
            # is then decided by something else (an unrelated condition in front of the gate), so at the memory-debugging level the
            # table misses it
            chk.ob("T1", fn.name, site, False, loc=loc,
                   detail="%s %s on a path on which the allocation succeeded and the runtime level was never tested against the "
                          "memory-debugging level" % (fn.name, "edits the table" if edits else "leaves the table unedited whatever the level"))
            continue
        if want:
            ok = len(edits) == 1 and edits[0][0] == edit
            why = "expected exactly one %s call at runtime level >= %d, found %s" % (edit, mem_level, [e[0] for e in edits])
            if ok:
                e = edits[0][1]
                order_ok = names.index(allocator) < names.index(edit)
                ptr_ok = (rl is not None and arg_is(fn, e, 3, ("local", rl))) or arg_is_returned_value(p, e, 3, ret)
                tab_ok = arg_is(fn, e, 0, ("addr_global", "malloc_rec"))
                file_ok = arg_is(fn, e, 1, ("param", pidx["file"]), path=p)
                line_ok = arg_is(fn, e, 2, ("param", pidx["line"]), path=p)
                size_ok = size_matches(fn, e["ch"][1:][4], acall, size_desc)
                ok = order_ok and ptr_ok and tab_ok and file_ok and line_ok and size_ok
                why = "the %s call does not record the wrapper's own block: %s" % (edit, ", ".join(
                    w for w, o in (("recorded before allocating", order_ok), ("pointer is not the returned block", ptr_ok),
                                   ("not the malloc table", tab_ok), ("file is not the caller's file", file_ok),
                                   ("line is not the caller's line", line_ok), ("size is not the requested size", size_ok)) if not o))
        else:
            ok = not edits
            why = "the table is edited (%s) although the runtime level is below %d" % ([e[0] for e in edits], mem_level)
        chk.ob("T1", fn.name, site, ok, loc=loc, detail="%s: %s" % (fn.name, why),
               proof="one %s(&malloc_rec, file, line, returned block, requested size) after the allocation iff level >= %d" % (edit, mem_level))
    return n


def size_matches(fn, size_arg, alloc_call, desc):
    s = X.strip(size_arg)
    a = alloc_call["ch"][1:]
    if desc == "arg0":
        return canon(fn, size_arg) == canon(fn, a[0])
    if desc == "arg1":
        return canon(fn, size_arg) == canon(fn, a[1])
    if desc == "product":
        # a local defined as the product of the two calloc arguments, or the product itself
        want = {canon(fn, a[0]), canon(fn, a[1])}

        def is_product(e):
            e = X.strip(e)
            return e.get("k") == "bin" and e.get("op") == "*" and {canon(fn, e["ch"][0]), canon(fn, e["ch"][1])} == want
        if is_product(size_arg):
            return True
        if s.get("k") == "ref" and s.get("rk") == "local":
            defs = []
            for n in walk(fn.body):
                if n.get("k") == "assign" and n.get("op") == "=" and X.strip(n["ch"][0]).get("d") == s["d"]:
                    defs.append(n["ch"][1])
                if n.get("k") == "decl":
                    for d in n.get("decls", ()):
                        if d["d"] == s["d"] and d.get("init") is not None:
                            defs.append(d["init"])
            return len(defs) == 1 and is_product(defs[0])
    return False


def check_free(chk, prog, fn, mem_level):
    loc = fn.loc(fn.body)
    ps = epaths(fn)
    ptr_path = "d%d" % fn.params[3]["d"] if len(fn.params) > 3 else None
    n = 0
    for p in ps:
        gate, calls, tests, ret, unknown = path_summary(fn, p, mem_level)
        names = [c[0] for c in calls]
        t = tests.get(ptr_path)
        isnull = t is not None and t[0] == "null"
        nonnull = t is not None and t[0] == "nn"
        n += 1
        if isnull:
            ok = "free" not in names and "memrec_rem_var" not in names
            chk.ob("T1", fn.name, "free(NULL)", ok, loc=loc, detail="%s(NULL) frees or edits the table" % fn.name,
                   proof="no free and no edit for a NULL pointer")
            continue
        if not nonnull:
            ok = "free" not in names and "memrec_rem_var" not in names
            chk.ob("T1", fn.name, "free:untested", ok, loc=loc,
                   detail="%s frees or edits the table on a path that did not test the pointer" % fn.name, proof="pointer tested first")
            continue
        rem = [c for c in calls if c[0] == "memrec_rem_var"]
        fr = [c for c in calls if c[0] == "free"]
        ok = len(fr) == 1 and arg_is(fn, fr[0][1], 0, ("param", 3))
        why = "the block is not freed exactly once"
        if ok:
            if gate:
                ok = len(rem) == 1 and arg_is(fn, rem[0][1], 4, ("param", 3), path=p) and arg_is(fn, rem[0][1], 0, ("addr_global", "malloc_rec")) \
                    and names.index("memrec_rem_var") < names.index("free")
                why = "at runtime level >= %d the record must be removed (for this pointer, from the malloc table) before the block is freed" % mem_level
            else:
                ok = not rem
                why = "the table is edited although the runtime level is below %d (or the level is never tested)" % mem_level
        chk.ob("T1", fn.name, "free:gate=%s" % gate, ok, loc=loc, detail="%s: %s" % (fn.name, why),
               proof="memrec_rem_var(&malloc_rec, .., ptr) then free(ptr) iff level >= %d; free(ptr) alone otherwise" % mem_level)
    return n


def realloc_table(fn, mem_level, tracked):
    """{(ptr_null, size_zero): outcome} by path enumeration. outcome in {'malloc','realloc','free','none'}"""
    ps = epaths(fn)
    if tracked:
        ptr_p, size_p = "d%d" % fn.params[3]["d"], "d%d" % fn.params[4]["d"]
    else:
        ptr_p, size_p = "d%d" % fn.params[0]["d"], "d%d" % fn.params[1]["d"]
    table = {}
    for p in ps:
        gate, calls, tests, ret, unknown = path_summary(fn, p, mem_level)
        names = [c[0] for c in calls]
        pt, st = tests.get(ptr_p), tests.get(size_p)
        pn = None if pt is None else (pt[0] == "null")
        sz = None
        if st is not None:
            if st[0] in ("false",) or (st[0] == "eq" and st[2] == 0):
                sz = True
            elif st[0] in ("true",) or (st[0] == "ne" and st[2] == 0):
                sz = False
        if "spifmem_malloc" in names or "malloc" in names:
            out = "malloc"
        elif "realloc" in names:
            out = "realloc"
        elif "spifmem_free" in names or "free" in names:
            out = "free"
        else:
            out = "none"
        if ret is not None and ret.get("val") is not None and X.is_null_const(ret["val"]) and out in ("malloc", "realloc"):
            continue   # allocator-failure arm
        for a in ([pn] if pn is not None else [True, False]):
            for b in ([sz] if sz is not None else [True, False]):
                table.setdefault((a, b), set()).add(out)
    return table


def check_not_found(chk, prog, fn):
    """T4: on the path where memrec_find_var returned NULL nothing is written or moved."""
    ps = paths.enumerate_paths(fn, noreturn={"libast_fatal_error"})
    seen = False
    bad = None
    for p in ps:
        found = None
        after = []
        for ev in p:
            if ev[0] == "cond":
                for f in X.implied(ev[1], ev[2]):
                    if f[0] in ("nn", "null") and re.match(r"^d\d+$", f[1]) and X.root_decl(f[1]) in fn.vardecls:
                        found = (f[0] == "nn")
                        after = []
                        break
            elif found is False:
                after.append(ev)
        if found is False:
            seen = True
            for ev in after:
                if ev[0] == "call" and ev[1] in ("memmove", "memcpy", "realloc", "free", "spiftool_safe_strncpy", "strcpy", "memset"):
                    bad = ev
                if ev[0] == "assign" and not re.match(r"^\w+$", ev[1]):
                    bad = ev
    chk.ob("T4", fn.name, "not-found-leaves-table", seen and bad is None, loc=fn.loc(bad[2]) if bad else fn.loc(fn.body),
           detail="%s modifies the table (%s) although the pointer was not found in it" % (fn.name, X.render(bad[2])[:50] if bad else "no not-found path recognised"),
           proof="the not-found path performs no store, move or reallocation")


def check_lookup_answer(chk, prog, fn):
    """T11: memrec_find_var returns the record of the pointer asked for: a function that reads nothing but its arguments (and
    the diagnostic level) answers from the table alone; one that also consults file-scope state (a remembered slot) must have
    compared the returned record's pointer with the argument on every path to that return."""
    quiet = ("libast_debug_level", "stderr", "stdout")
    outside = []
    for n in walk(fn.body):
        if n.get("k") == "ref" and n.get("rk") in ("global", "slocal") and n.get("n") not in quiet and "const" not in (n.get("t") or "").rsplit("*", 1)[-1]:
            outside.append(n)
    pptr = [p_["d"] for p_ in fn.params if p_.get("tp")]

    def matched_record(cond, truth):
        """apath of X when the edge says X->ptr == <pointer parameter>"""
        out = set()
        c = X.strip(cond)
        if c is None:
            return out
        if c.get("k") == "un" and c.get("op") == "!":
            return matched_record(c["ch"][0], not truth)
        if c.get("k") == "bin" and c.get("op") in ("&&", "||"):
            a, b = matched_record(c["ch"][0], truth), matched_record(c["ch"][1], truth)
            if (c["op"] == "&&") == truth:
                return a | b
            return a & b
        if c.get("k") == "bin" and c.get("op") in ("==", "!=") and ((c["op"] == "==") == truth):
            for x, y in ((c["ch"][0], c["ch"][1]), (c["ch"][1], c["ch"][0])):
                sx, sy = X.strip(x), X.strip(y)
                if sx is not None and sx.get("k") == "member" and sy is not None and sy.get("k") == "ref" and sy.get("d") in pptr:
                    b = X.strip(sx["ch"][0])
                    if sx.get("arrow"):
                        pa = X.apath(b)
                    else:
                        pa = X.apath(b)
                        pa = ("&" + pa) if pa is not None else None
                    if pa is not None:
                        out.add(("m", pa))
        return out

    def record_path(v):
        """the record an expression points to: p, &A[i], A + i"""
        v = X.strip(v)
        if v is None:
            return None
        pa = X.apath(v)
        if pa is not None:
            return pa
        if v.get("k") == "un" and v.get("op") == "&":
            q = X.apath(v["ch"][0])
            return ("&" + q) if q is not None else None
        if v.get("k") == "bin" and v.get("op") == "+":
            a, b = X.strip(v["ch"][0]), X.strip(v["ch"][1])
            if not X.is_pointer(a):
                a, b = b, a
            qa, qb = X.apath(a), X.apath(b)
            if qa is not None and (qb is not None or X.const_val(b) is not None):
                return "&%s[%s]" % (qa, qb if X.const_val(b) is None else X.const_val(b))
        return None

    def roots(pa):
        return set(int(m_) for m_ in re.findall(r"d(\d+)", pa))

    def transfer(st, n, blk):
        tgt = None
        if n.get("k") == "assign" or (n.get("k") == "un" and n.get("op") in ("++", "--")):
            tgt = X.strip(n["ch"][0])
        if tgt is not None:
            if tgt.get("k") == "ref":
                src = record_path(n["ch"][1]) if (n.get("k") == "assign" and n.get("op") == "=") else None
                carry = src is not None and ("m", src) in st and tgt.get("d") not in roots(src)
                st = frozenset(f for f in st if tgt.get("d") not in roots(f[1]))
                if carry:
                    st = st | {("m", "d%d" % tgt["d"])}
            else:
                st = frozenset()          # a store through memory: the records themselves may have changed
        elif n.get("k") == "call" and (X.callee_name(n) or "") not in ("fprintf", "fflush", "libast_dprintf", "time", "libast_print_warning", "libast_print_error"):
            st = frozenset()
        return st

    def refine(st, cond, truth, blk=None):
        if isinstance(truth, tuple):
            return st
        return st | matched_record(cond, truth)
    rets = []

    def visit(st, n, blk):
        if n.get("k") == "return" and n.get("val") is not None:
            v = X.strip(n["val"])
            if v is None or X.is_null_const(v) or X.const_val(v) == 0:
                return
            pa = record_path(v)
            rets.append((n, pa is not None and ("m", pa) in st))
    cfg = nullness.prepared_cfg(fn, {"libast_fatal_error"})
    flow.forward(cfg, frozenset(), transfer, refine=refine, visit=visit)
    chk.count("lookup_returns", len(rets), floor=1)
    unjust = [n for n, ok in rets if not ok]
    bad = bool(outside) and bool(unjust)
    chk.ob("T11", fn.name, "answers-from-the-table", not bad, loc=fn.loc(unjust[0]) if bad else fn.loc(fn.body),
           detail="%s consults state outside the table it was given (%s) and returns a record (%s) without having compared that record's pointer "
                  "with the one asked for: after the table is edited the remembered answer names another allocation" %
                  (fn.name, ", ".join(sorted(set(n.get("n") or "?" for n in outside))), X.render(unjust[0])[:40] if unjust else ""),
           proof=("reads only its arguments" if not outside else "every returned record was compared with the pointer asked for on the way to the return"))


def probe_source():
    L = ['#ifdef HAVE_CONFIG_H', '# include <config.h>', '#endif', '#include <libast_internal.h>',
         'const int la_debug_value = DEBUG;', 'const int la_mem_level = DEBUG_MEM;',
         'void *la_probe_MALLOC(size_t n) { return MALLOC(n); }',
         'void *la_probe_CALLOC(size_t n) { return CALLOC(char, n); }',
         'void *la_probe_REALLOC(void *p, size_t n) { return REALLOC(p, n); }',
         'void *la_probe_FREE(void *p) { FREE(p); return p; }',
         'char *la_probe_STRDUP(const char *s) { return STRDUP(s); }']
    return "\n".join(L) + "\n"


def run(tier="quick", mktable=False):
    chk = Check("C15", level="other", tier=tier,
                explanation="decision tables of the five tracking wrappers by CFG path enumeration (gate, order, arguments), gate agreement of "
                            "all table edits, not-found paths, REALLOC macro vs tracking realloc over (NULL?, 0?), macro mapping over the "
                            "DEBUG matrix, raw allocator who-may-call, file-name bound")
    for rid, txt in (("T1", "wrapper mirrors its allocation exactly when the runtime level is at the memory level"),
                     ("T2", "every table edit is dominated by the runtime gate"), ("T4", "not-found leaves the table unchanged"),
                     ("T11", "the lookup returns a record only of the pointer asked for (no unvalidated remembered slot)"),
                     ("T5", "REALLOC macro and spifmem_realloc agree on (NULL?,0?)"), ("T6", "allocation macros map to wrappers iff DEBUG >= DEBUG_MEM"),
                     ("T7", "no raw allocator call outside mem.c except via the macros"), ("T9", "removing a record closes the gap with exactly the records behind it"), ("T8", "file name copied with the bound of its field"),
                     ("T12", "a record field that takes a wrapper parameter keeps at least min(its width, 32) bits of it")):
        chk.rule(rid, txt)
    prog = facts.extract()
    u = prog.units.get("mem.c")
    if u is not None:
        find_gate_helpers(prog, u)
        INLINE.clear()
        INLINE.update({g.name: g for g in u.functions.values() if g.static and g.name not in GATE_HELPERS and g.name not in EDITS
                       and not g.name.startswith("memrec_") and paths.inlinable(g)})
    if u is None:
        raise AnalysisBroken("mem.c not analysed")
    # the memory-debugging level as the header defines it
    scratch = facts.scratch_dir()
    probe = os.path.join(scratch, "la_mem_probe.c")
    open(probe, "w").write(probe_source())
    pu = facts.extract_file(probe)
    g = {x["n"]: x for x in pu.all_globals}
    mem_level = X.const_val(g["la_mem_level"]["init"])
    if mem_level is None:
        raise AnalysisBroken("DEBUG_MEM not constant")
    npaths = 0
    f = prog.need("spifmem_malloc")
    npaths += check_alloc_wrapper(chk, prog, f, "malloc", "memrec_add_var", mem_level, "arg0", {"file": 0, "line": 1})
    f = prog.need("spifmem_calloc")
    npaths += check_alloc_wrapper(chk, prog, f, "calloc", "memrec_add_var", mem_level, "product", {"file": 0, "line": 1})
    f = prog.need("spifmem_free")
    npaths += check_free(chk, prog, f, mem_level)
    # realloc: grow arm mirrors with chg_var; NULL arm delegates; 0 arm frees
    f = prog.need("spifmem_realloc")
    ps = epaths(f)
    for p in ps:
        gate, calls, tests, ret, unknown = path_summary(f, p, mem_level)
        names = [c[0] for c in calls]
        if "realloc" not in names:
            continue
        if ret is not None and ret.get("val") is not None and X.is_null_const(ret["val"]):
            continue
        if any(ev[0] == "noreturn" for ev in p):
            continue
        npaths += 1
        edits = [c for c in calls if c[0] in EDITS]
        rl = returned_local(ret)
        if gate:
            ok = len(edits) == 1 and edits[0][0] == "memrec_chg_var"
            why = "expected one memrec_chg_var at level >= %d, found %s" % (mem_level, [e[0] for e in edits])
            if ok:
                e = edits[0][1]
                rc = [c for c in calls if c[0] == "realloc"][0][1]
                conds = (("not the malloc table", arg_is(f, e, 0, ("addr_global", "malloc_rec"))),
                         ("file", arg_is(f, e, 2, ("param", 1), path=p)), ("line", arg_is(f, e, 3, ("param", 2), path=p)),
                         ("old pointer", arg_is(f, e, 4, ("param", 3), path=p)), ("new pointer is not the returned block", (rl is not None and arg_is(f, e, 5, ("local", rl))) or arg_is_returned_value(p, e, 5, ret)),
                         ("size", canon(f, e["ch"][1:][6]) == canon(f, rc["ch"][1:][1])),
                         ("edited before reallocating", names.index("realloc") < names.index("memrec_chg_var")))
                ok = all(o for _, o in conds)
                why = "memrec_chg_var does not record the moved block: wrong " + ", ".join(w for w, o in conds if not o)
        elif gate is None:
            ok = False
            why = ("a path on which realloc succeeded never tests the runtime level: the record keeps the old size / file / line (or the "
                   "table is edited ungated); tests on that path: %s" % str(tests)[:200])
        else:
            ok = not edits
            why = "table edited below the memory-debugging level (or without testing it)"
        chk.ob("T1", f.name, "realloc:gate=%s" % gate, ok, loc=f.loc(f.body), detail="%s: %s" % (f.name, why),
               proof="memrec_chg_var(&malloc_rec, .., old, new, size) after realloc iff level >= %d" % mem_level)
    # strdup delegates to the tracking malloc with strlen+1
    f = prog.need("spifmem_strdup")
    ok = False
    for c in X.calls_in(f.body):
        if X.callee_name(c) == "spifmem_malloc":
            a = c["ch"][1:]
            ok = arg_is(f, c, 1, ("param", 2)) and arg_is(f, c, 0, ("param", 1))
    direct = [c for c in X.calls_in(f.body) if X.callee_name(c) in EDITS | ALLOC]
    chk.ob("T1", f.name, "strdup-delegates", ok and not direct, loc=f.loc(f.body),
           detail="%s does not obtain its block through the tracking malloc with the caller's file and line (or edits the table itself)" % f.name,
           proof="block comes from spifmem_malloc(file, line, len)")
    # T2: gate agreement for every edit call on malloc_rec in mem.c
    nedit = 0
    for fn in u.functions.values():
        if fn.name in EDITS:
            continue
        cfg = nullness.prepared_cfg(fn, {"libast_fatal_error"})
        hits = []

        def refine(state, cond, truth, blk):
            if isinstance(truth, tuple):
                return state
            gp = gate_pol(cond)
            if gp is not None and truth == gp[1]:
                return state | {("gate", gp[0])}
            if gp is None:
                # a compound test / a flag local standing for one: the gate holds when every way the test can come out this way
                # includes it (forget = ptr != NULL && level >= N; if (forget) ..)
                alts = paths.dnf(cond, truth)
                lv = None
                for alt in alts:
                    here = set()
                    for c_, t_ in alt:
                        g_ = gate_pol(c_) if c_ is not cond else None
                        if g_ is not None and t_ == g_[1]:
                            here.add(g_[0])
                    lv = here if lv is None else (lv & here)
                if lv:
                    return state | {("gate", l_) for l_ in lv}
            return state

        def visit(state, n, blk):
            if n.get("k") == "call" and X.callee_name(n) in EDITS and arg_is(fn, n, 0, ("addr_global", "malloc_rec")):
                hits.append((n, ("gate", mem_level) in state))
        flow.forward(cfg, frozenset(), lambda s, n, b: s, refine=refine, visit=visit)
        for n, ok in hits:
            nedit += 1
            chk.ob("T2", fn.name, "gated:" + X.callee_name(n), ok, loc=fn.loc(n),
                   detail="%s edits the allocation table (%s) without being dominated by the runtime gate DEBUG_LEVEL >= %d that every other "
                          "wrapper applies: records made below that level are never removed by the gated free" % (fn.name, X.callee_name(n), mem_level),
                   proof="dominated by libast_debug_level >= %d" % mem_level)
    # T4
    for nm in ("memrec_rem_var", "memrec_chg_var"):
        check_not_found(chk, prog, prog.need(nm))
    # T11: the lookup answers from the table it was given.  Either it reads no other mutable state at all, or (a lookup cache) every
    # record it returns has just been compared with the pointer asked for.
    check_lookup_answer(chk, prog, prog.need("memrec_find_var"))
    # T5: decision tables
    tr = realloc_table(prog.need("spifmem_realloc"), mem_level, True)
    # untracked macro: probe compiled with the tree's default DEBUG if below mem_level, else DEBUG=mem_level-1
    pu_off = facts.extract_file(probe, config_edits={"DEBUG": max(mem_level - 1, 0)})
    mf = pu_off.functions.get("la_probe_REALLOC")
    if mf is None:
        raise AnalysisBroken("REALLOC probe missing")
    mt = realloc_table(mf, mem_level, False)
    for key in sorted(set(tr) | set(mt), key=str):
        a, b = tr.get(key, {"?"}), mt.get(key, {"?"})
        chk.ob("T5", "spifmem_realloc", "realloc(ptr%s,size%s)" % ("==NULL" if key[0] else "!=NULL", "==0" if key[1] else "!=0"),
               a == b, loc=prog.need("spifmem_realloc").loc(prog.need("spifmem_realloc").body),
               detail="REALLOC(ptr %s NULL, size %s 0): tracking build does %s, non-tracking macro does %s" % (
                   "==" if key[0] else "!=", "==" if key[1] else "!=", sorted(a), sorted(b)),
               proof="both do %s" % sorted(a))
    # T6: macro mapping over the DEBUG matrix
    matrix = [0, 1, 4, mem_level - 1, mem_level, mem_level + 1, 9999] if tier == "thorough" else [0, mem_level - 1, mem_level, 9999]
    want_on = {"MALLOC": "spifmem_malloc", "CALLOC": "spifmem_calloc", "REALLOC": "spifmem_realloc", "FREE": "spifmem_free", "STRDUP": "spifmem_strdup"}
    want_off = {"MALLOC": {"malloc"}, "CALLOC": {"calloc"}, "REALLOC": {"realloc", "malloc", "free"}, "FREE": {"free"}, "STRDUP": {"strdup"}}
    for D in sorted(set(matrix)):
        pd = facts.extract_file(probe, config_edits={"DEBUG": D})
        for m in MACROS:
            pf = pd.functions.get("la_probe_" + m)
            if pf is None:
                raise AnalysisBroken("probe for %s missing" % m)
            callees = {X.callee_name(c) for c in X.calls_in(pf.body)} - {None}
            if D >= mem_level:
                ok = callees == {want_on[m]}
            else:
                ok = callees == want_off[m]
            chk.ob("T6", m, "%s@DEBUG=%d" % (m, D), ok, loc="include/libast.h",
                   detail="%s compiled with DEBUG=%d calls %s; expected %s" % (m, D, sorted(callees),
                                                                            want_on[m] if D >= mem_level else sorted(want_off[m])),
                   proof="calls %s" % sorted(callees))
            if m == "FREE":
                nulls = any(n.get("k") == "assign" and X.is_null_const(n["ch"][1]) and X.strip(n["ch"][0]).get("rk") == "param"
                            for n in walk(pf.body))
                chk.ob("T6", m, "FREE-nulls@DEBUG=%d" % D, nulls, loc="include/libast.h",
                       detail="FREE(p) compiled with DEBUG=%d does not reset p to NULL" % D, proof="(p) = NULL follows the release")
    # T7: raw allocator calls outside mem.c
    try:
        exc = {(e["function"], e["callee"]): e for e in json.load(open(EXC_TABLE))["exceptions"]}
    except (OSError, ValueError):
        exc = {}
    found_exc = []
    nraw = 0
    for fn in prog.all_functions():
        if fn.unit.name in ("mem.c", "snprintf.c"):
            continue
        for c in X.calls_in(fn.body):
            cn = X.callee_name(c)
            if cn in RAW:
                nraw += 1
                via = [m for m in c.get("m", []) if m.startswith("b:") and m[2:] in MACROS + ["SPIF_ALLOC", "SPIF_DEALLOC"]]
                if via:
                    continue
                key = (fn.name, cn)
                found_exc.append({"function": fn.name, "callee": cn, "unit": fn.unit.name})
                if key in exc:
                    continue
                chk.ob("T7", fn.name, "raw:" + cn, False, loc=fn.loc(c),
                       detail="%s calls %s() directly instead of through the allocation macros: a tracking build never sees this block "
                              "(or frees an untracked one)" % (fn.name, cn))
    if mktable:
        seen = set()
        out = []
        for e in found_exc:
            k = (e["function"], e["callee"])
            if k not in seen:
                seen.add(k)
                e["reason"] = exc.get(k, {}).get("reason", "present on the reviewed tree; memory obtained from / handed to libc APIs that allocate themselves")
                out.append(e)
        json.dump({"comment": "raw allocator calls outside mem.c that do not go through MALLOC/CALLOC/REALLOC/FREE/STRDUP on the reviewed tree",
                   "exceptions": out}, open(EXC_TABLE, "w"), indent=1)
        print("wrote %d exceptions" % len(out))
        return 0
    chk.ob("T7", "libast", "raw-allocator-calls", not any(o.rule == "T7" and not o.ok for o in chk.obls), loc="src/",
           proof="%d raw allocator calls outside mem.c, all through the allocation macros or frozen exceptions" % nraw, detail="see individual reports")
    # T9 removing a record keeps every other record: the function that takes a slot out of the pointer table closes the gap
    # with a move of exactly (records after the slot) elements whenever there are any.  GHOSTPOS over cnt and the slot's
    # offset (pointer expressions are read as element offsets from memrec->ptrs), so the clause does not depend on how the
    # code spells the slot (pointer, index, &ptrs[i]).
    from ..ghostpos import GhostPos
    from ..lin import Lin, entails, feasible
    n9 = 0
    for fn in u.functions.values():
        finds = []
        for x in walk(fn.body):
            rhs = None
            if x.get("k") == "assign" and x.get("op") == "=":
                lhs, rhs = X.strip(x["ch"][0]), x["ch"][1]
            elif x.get("k") == "decl":
                for dcl in x.get("decls", ()):
                    if dcl.get("init") is not None:
                        lhs, rhs = {"k": "ref", "d": dcl["d"], "rk": "local"}, dcl["init"]
            if rhs is not None and X.strip(rhs).get("k") == "call" and X.callee_name(X.strip(rhs)) == "memrec_find_var" and lhs.get("k") == "ref":
                finds.append(lhs["d"])
        decs = [x for x in walk(fn.body) if (x.get("k") == "un" and x.get("op") == "--" or (x.get("k") == "assign" and x.get("op") in ("-=", "="))) and
                X.strip(x["ch"][0]).get("k") == "member" and X.strip(x["ch"][0]).get("n") == "cnt"]
        slot_is_param = False
        if not finds and decs and fn.static and any(X.callee_name(c_) in ("memmove", "memcpy") for c_ in X.calls_in(fn.body)):
            # the removal proper moved into a helper that is handed the slot: the slot is the record-pointer parameter, and every
            # caller hands it what memrec_find_var answered
            cands_ = [p_ for p_ in fn.params[1:] if p_.get("tp") and re.search(r"spifmem_ptr_t", (p_.get("tc") or "") + (p_.get("t") or ""))]
            if len(cands_) == 1:
                pj_ = [i_ for i_, p_ in enumerate(fn.params) if p_ is cands_[0]][0]
                ok_callers = True
                ncall_ = 0
                for g_ in u.functions.values():
                    if g_.body is None:
                        continue
                    for c_ in X.calls_in(g_.body):
                        if X.callee_name(c_) == fn.name:
                            ncall_ += 1
                            a_ = X.strip(c_["ch"][1:][pj_]) if pj_ < len(c_["ch"][1:]) else None
                            if a_ is None or a_.get("k") != "ref" or not any(
                                    (X.strip(y_["ch"][0]) or {}).get("d") == a_.get("d") and any(X.callee_name(c2_) == "memrec_find_var" for c2_ in X.calls_in(y_["ch"][1]))
                                    for y_ in walk(g_.body) if y_.get("k") == "assign" and y_.get("op") == "="):
                                ok_callers = False
                if ok_callers and ncall_:
                    finds.append(cands_[0]["d"])
                    slot_is_param = True
        if not finds or not decs or not fn.params:
            continue
        n9 += 1
        slot_d = finds[0]
        rec_d = fn.params[0]["d"]
        # other pointer locals of the record type: places of the table
        off_locals = {d_ for d_, vd_ in fn.vardecls.items() if vd_.get("tp") and d_ != slot_d and d_ not in {p_["d"] for p_ in fn.params}
                      and (vd_.get("t") or "") == (fn.vardecls.get(slot_d) or {}).get("t")}

        class RecPos(GhostPos):
            def base_off(self, e):
                """element offset (Lin) of a pointer expression from memrec->ptrs, or None"""
                s_ = X.strip(e)
                if s_ is None:
                    return None
                if s_.get("k") == "member" and s_.get("n") == "ptrs":
                    return Lin.const(0)
                if s_.get("k") == "ref" and s_.get("d") == slot_d:
                    return Lin.sym("idx")
                if s_.get("k") == "ref" and s_.get("rk") == "local" and s_.get("d") in off_locals:
                    return Lin.sym("o%d" % s_["d"])      # a local that holds another place of the table (last = ptrs + cnt)
                if s_.get("k") == "bin" and s_.get("op") in ("+", "-") and s_.get("tp"):
                    b0 = self.base_off(s_["ch"][0])
                    k0 = self.lin(s_["ch"][1])
                    if b0 is not None and k0 is not None:
                        return b0 + k0 if s_["op"] == "+" else b0 - k0
                if s_.get("k") == "un" and s_.get("op") == "&":
                    t_ = X.strip(s_["ch"][0])
                    if t_.get("k") == "index":
                        b0 = self.base_off(t_["ch"][0])
                        k0 = self.lin(t_["ch"][1])
                        if b0 is not None and k0 is not None:
                            return b0 + k0
                return None

            def lin(self, e):
                s_ = X.strip(e)
                if s_ is not None and s_.get("k") == "member" and s_.get("n") == "cnt":
                    return Lin.sym("cnt")
                if s_ is not None and s_.get("k") == "bin" and s_.get("op") == "-" and not s_.get("tp"):
                    a0, b0 = self.base_off(s_["ch"][0]), self.base_off(s_["ch"][1])
                    if a0 is not None and b0 is not None:
                        return a0 - b0
                if s_ is not None and s_.get("k") == "bin" and s_.get("op") == "*":
                    # sizeof(record) * n: count in elements
                    for x_, y_ in ((s_["ch"][0], s_["ch"][1]), (s_["ch"][1], s_["ch"][0])):
                        if X.strip(x_).get("k") == "sizeof" or (X.const_val(x_) is not None and X.const_val(x_) >= 16):
                            return self.lin(y_)
                return GhostPos.lin(self, e)

            def transfer(self, cons, x, blk=None):
                if x.get("k") in ("un", "assign"):
                    t_ = X.strip(x["ch"][0])
                    if t_.get("k") == "member" and t_.get("n") == "cnt":
                        cons = self.assign_sym(cons, "removed", Lin.const(1))      # the count changes: a slot may be gone from here on
                        if x.get("k") == "un" and x.get("op") in ("++", "--"):
                            return self.assign_sym(cons, "cnt", Lin.sym("cnt") + (1 if x["op"] == "++" else -1))
                        r_ = self.lin(x["ch"][1]) if x.get("k") == "assign" else None
                        if x.get("op") == "-=" and r_ is not None:
                            return self.assign_sym(cons, "cnt", Lin.sym("cnt") - r_)
                        return self.assign_sym(cons, "cnt", r_ if x.get("op") == "=" else None)
                if x.get("k") == "call" and X.callee_name(x) in ("memmove", "memcpy") and len(x["ch"]) >= 4:
                    d_, s__, n_ = self.base_off(x["ch"][1]), self.base_off(x["ch"][2]), self.lin(x["ch"][3])
                    if d_ is not None and s__ is not None and n_ is not None:
                        ok_ = (self.proves_eq(cons, d_, Lin.sym("idx")) and self.proves_eq(cons, s__, Lin.sym("idx") + 1) and
                               self.proves_eq(cons, n_, Lin.sym("cnt") - Lin.sym("idx")))
                        return frozenset(cons) | ({Lin.sym("moved") - 1} if ok_ else {Lin.sym("badmove") - 1})
                if x.get("k") == "assign" and X.strip(x["ch"][0]).get("d") == slot_d:
                    return self.assign_sym(cons, "idx", None)
                if x.get("k") == "assign" and X.strip(x["ch"][0]).get("d") in off_locals:
                    return self.assign_sym(cons, "o%d" % X.strip(x["ch"][0])["d"], self.base_off(x["ch"][1]) if x.get("op") == "=" else None)
                if x.get("k") == "decl":
                    out_ = cons
                    for dcl_ in x.get("decls", ()):
                        if dcl_["d"] in off_locals:
                            out_ = self.assign_sym(out_, "o%d" % dcl_["d"], self.base_off(dcl_["init"]) if dcl_.get("init") is not None else None)
                    if out_ is not cons:
                        return GhostPos.transfer(self, out_, x, blk)
                return GhostPos.transfer(self, cons, x, blk)

            def ptr_fact(self, cons, e, isnull):
                s_ = X.strip(e)
                if s_ is not None and s_.get("k") == "ref" and s_.get("d") == slot_d:
                    # memrec_find_var: NULL, or a slot of the table
                    return [] if isnull else [Lin.sym("idx"), Lin.sym("cnt") - 1 - Lin.sym("idx"), Lin.sym("found") - 1]
                return None if isnull and s_ is not None and s_.get("d") == rec_d else []

            def refine(self, cons, cond, truth, blk=None):
                c_ = X.strip(cond)
                if c_ is not None and c_.get("k") == "bin" and c_.get("op") in ("<", "<=", ">", ">=", "==", "!=") and not isinstance(truth, tuple):
                    a0, b0 = self.base_off(c_["ch"][0]), self.base_off(c_["ch"][1])
                    if a0 is not None and b0 is not None:
                        op_ = c_["op"] if truth else self.NEG[c_["op"]]
                        return self._add(cons, self._cmp(cons, op_, a0, b0))
                if c_ is not None and c_.get("k") == "assign" and X.strip(c_["ch"][0]).get("d") == slot_d:
                    # if (!(p = memrec_find_var(..)))
                    r_ = self.ptr_fact(cons, c_["ch"][0], not truth)
                    return None if r_ is None else self._add(cons, r_)
                return GhostPos.refine(self, cons, cond, truth, blk)
        g9 = RecPos(fn, prog, self_index=None)
        init9 = [Lin.sym("cnt"), Lin.sym("removed"), Lin.const(0) - Lin.sym("removed")]
        if slot_is_param:
            init9 += [Lin.sym("idx"), Lin.sym("cnt") - 1 - Lin.sym("idx"), Lin.sym("found") - 1]
        g9.run(init9)
        ends = []

        def v9(st, x, blk):
            pass
        # evaluate at every exit of the function: explicit returns and the fall-through end
        cfg9 = g9.cfg
        # the states on the edges into the exit block (after the refinement of the branch that leads there)
        outs = [(k_[0], o_) for k_, o_ in g9.edge_out.items() if k_[2] == cfg9.exit]
        bad9 = None
        for b_, st_ in outs:
            if not entails(list(st_), Lin.sym("found") - 1):
                continue                       # the not-found exit (T4's subject)
            if entails(list(st_), Lin.const(0) - Lin.sym("removed")):
                continue                       # the count was never changed on the way here: no slot was taken out
            if entails(list(st_), Lin.sym("badmove") - 1):
                bad9 = (b_, st_, "moves the wrong range")
                break
            if entails(list(st_), Lin.sym("moved") - 1):
                continue
            if entails(list(st_), Lin.sym("idx") - Lin.sym("cnt")):
                continue                       # nothing after the slot: no move needed
            bad9 = (b_, st_, "can leave without moving the records behind the slot down although there may be some (records after the slot = cnt - slot > 0 is possible)")
            break
        loc9 = fn.loc(decs[0])
        chk.ob("T9", fn.name, "gap-closed", bad9 is None, loc=loc9,
               detail="%s removes a slot from the table but %s: the records behind it are lost or duplicated and the table no longer "
                      "mirrors the live set (state at the exit: %s)" % (fn.name, bad9[2] if bad9 else "", " & ".join(sorted("%r>=0" % c for c in (bad9[1] if bad9 else [])))[:200]),
               proof="every exit after a successful lookup has moved cnt - slot records from slot+1 to slot, or has cnt - slot <= 0")
    chk.count("slot_removal_functions", n9, floor=1)
    # T10 the record list has no capacity of its own (the record set is a count and a pointer), so its size IS its count: a
    # function that raises the count resizes the list to the new count before it uses the list - on every path.  Growing in
    # blocks on some paths only, while the removal shrinks to the exact count, leaves the add writing one record past the end
    # after any removal above the block size.
    chk.rule("T10", "after raising the count, the record list is resized to the count on every path before it is used")
    n10 = 0

    class CapPos(GhostPos):
        """cnt: the record count; cap: the number of records the list was last sized to (a ghost: set by realloc of ->ptrs)"""
        def lin(self, e):
            s_ = X.strip(e)
            if s_ is not None and s_.get("k") == "member" and s_.get("n") == "cnt":
                return Lin.sym("cnt")
            if s_ is not None and s_.get("k") == "bin" and s_.get("op") == "*":
                for x_, y_ in ((s_["ch"][0], s_["ch"][1]), (s_["ch"][1], s_["ch"][0])):
                    if X.strip(x_).get("k") == "sizeof" or (X.const_val(x_) is not None and X.const_val(x_) >= 16):
                        return self.lin(y_)
            return GhostPos.lin(self, e)

        def transfer(self, cons, x, blk=None):
            if x.get("k") in ("un", "assign") and x.get("ch"):
                t_ = X.strip(x["ch"][0])
                if t_ is not None and t_.get("k") == "member" and t_.get("n") == "cnt":
                    cons = self.assign_sym(cons, "touched", Lin.const(1))
                    if x.get("k") == "un" and x.get("op") in ("++", "--"):
                        return self.assign_sym(cons, "cnt", Lin.sym("cnt") + (1 if x["op"] == "++" else -1))
                    r_ = self.lin(x["ch"][1]) if x.get("k") == "assign" else None
                    if x.get("op") in ("+=", "-=") and r_ is not None:
                        return self.assign_sym(cons, "cnt", Lin.sym("cnt") + r_ if x["op"] == "+=" else Lin.sym("cnt") - r_)
                    return self.assign_sym(cons, "cnt", r_ if x.get("op") == "=" else None)
            if x.get("k") == "call" and X.callee_name(x) in ("realloc", "spifmem_realloc") and len(x["ch"]) >= 3 and any(
                    y.get("k") == "member" and y.get("n") == "ptrs" for y in walk(x["ch"][-2])):
                return self.assign_sym(cons, "cap", self.lin(x["ch"][-1]))
            return GhostPos.transfer(self, cons, x, blk)
    for fn in u.functions.values():
        if fn.body is None or fn.cfg is None or not fn.params:
            continue
        touches = [x for x in walk(fn.body) if x.get("k") in ("un", "assign") and x.get("ch") and (X.strip(x["ch"][0]) or {}).get("k") == "member"
                   and X.strip(x["ch"][0]).get("n") == "cnt" and (x.get("k") == "assign" or x.get("op") in ("++", "--"))]
        stores_rec = any(x.get("k") == "assign" and (X.strip(x["ch"][0]) or {}).get("k") == "member" and X.strip(x["ch"][0]).get("n") in ("ptr", "size", "line")
                         for x in walk(fn.body))
        if not touches:
            continue
        rec_ = prog.records.get((X.strip(touches[0]["ch"][0]).get("rec") or ""))
        extra_int = [fl["n"] for fl in (rec_ or {}).get("fields", []) if fl["n"] not in ("cnt", "ptrs") and not fl.get("tp") and fl.get("tw")]
        if extra_int:
            chk.note("T10: the record set has further integer fields (%s): a capacity kept separately is not decided here" % ", ".join(extra_int))
            continue
        g10 = CapPos(fn, prog, self_index=None)
        # on entry the list holds at least its records (the invariant every exit of add / rem re-establishes; rem leaves it exact)
        g10.run([Lin.sym("cnt"), Lin.sym("cap") - Lin.sym("cnt"), Lin.sym("touched"), Lin.const(0) - Lin.sym("touched")])
        bad10 = []

        def v10(st, x, blk, fn=fn, bad10=bad10):
            if x.get("k") != "member" or x.get("n") != "ptrs":
                return
            par = fn.parent.get(x["i"])
            while par is not None and par.get("k") in ("paren", "icast", "cast"):
                par = fn.parent.get(par["i"])
            if par is not None and par.get("k") == "call" and X.callee_name(par) in ("realloc", "spifmem_realloc"):
                return
            if par is not None and par.get("k") == "assign" and par.get("op") == "=" and X.strip(par["ch"][0]) is x:
                return
            if not feasible(list(st)) or entails(list(st), Lin.const(0) - Lin.sym("touched")):
                return
            if not entails(list(st), Lin.sym("cap") - Lin.sym("cnt")):
                bad10.append((x, st))
        g10.visit(v10)
        n10 += 1
        chk.ob("T10", fn.name, "list-sized-to-count", not bad10, loc=fn.loc(bad10[0][0]) if bad10 else fn.loc(touches[0]),
               detail="%s raises the record count and then uses the list on a path on which the list is not known to hold that many "
                      "records (state: %s): the record set keeps no capacity and the removal shrinks the list to the exact count, so the "
                      "slot at cnt - 1 can lie past the end of the list" % (fn.name, " & ".join(sorted("%r>=0" % c for c in (bad10[0][1] if bad10 else [])))[:160]),
               proof="wherever the list is used after the count was raised, the size it was last given is at least the count")
    chk.count("count_raising_functions", n10, floor=1)
    # T8
    nb = 0
    file_recs = set()
    # every bounded copy into a record's `file` field, wherever mem.c does it (the two edit primitives today; a shared helper
    # after a refactoring)
    for fn in u.functions.values():
        nm = fn.name
        for c in X.calls_in(fn.body):
            if X.callee_name(c) in ("spiftool_safe_strncpy", "strncpy", "memcpy"):
                a = c["ch"][1:]
                d = X.strip(a[0])
                if d.get("k") == "member" and d.get("n") == "file":
                    nb += 1
                    if d.get("rec"):
                        file_recs.add(d["rec"])
                    t = d.get("tc") or d.get("t") or ""
                    m = re.search(r"\[(\d+)\]", t)
                    bound = X.const_val(a[2])
                    ok = m is not None and bound == int(m.group(1))
                    chk.ob("T8", nm, "file-bound", ok, loc=fn.loc(c),
                           detail="%s copies the file name with bound %s into a field of %s bytes" % (nm, bound, m.group(1) if m else "?"),
                           proof="bound == sizeof(field) == %s" % bound)
    # T12: a field of the tracking record that takes a wrapper parameter unchanged keeps it whole: at least min(width of the
    # parameter, 32) bits (a line number is any value up to 2^31 - 1 - #line, generated and amalgamated sources -, a size is a
    # size_t).  The record type is the one whose `file` field T8 found; decided on the resolved types (typedefs looked through).
    nw = 0
    for fn in u.functions.values():
        if fn.body is None:
            continue
        pw = {p_["n"]: p_.get("tw") for p_ in (fn.params or []) if p_.get("tw")}
        for x in walk(fn.body):
            if x.get("k") != "assign" or x.get("op") != "=" or not x.get("ch"):
                continue
            d = X.strip(x["ch"][0]) or {}
            r = X.strip(x["ch"][1]) or {}
            if d.get("k") != "member" or d.get("rec") not in file_recs or not d.get("tw"):
                continue
            if r.get("k") != "ref" or r.get("rk") != "param" or not pw.get(r.get("n")):
                continue
            nw += 1
            need = min(pw[r["n"]], 32)
            chk.ob("T12", fn.name, "field-width:%s" % d.get("n"), d["tw"] >= need, loc=fn.loc(x),
                   detail="%s stores its parameter %s (%d bits) in the record field %s of %d bits: a value of 2^%d or more (a line number "
                          "of a generated or amalgamated source, a #line directive) is recorded as a different one"
                          % (fn.name, r["n"], pw[r["n"]], d.get("n"), d["tw"], d["tw"]),
                   proof="field %s has %d bits >= min(width of the parameter, 32) = %d" % (d.get("n"), d["tw"], need))
    chk.count("record_field_stores_of_parameters", nw, floor=1)   # 4 today; a shared fill helper would leave 2
    chk.count("wrapper_paths", npaths, floor=8)
    chk.count("gated_edit_sites", nedit, floor=4)
    chk.count("raw_allocator_calls_outside_mem", nraw, floor=100)
    chk.count("file_copy_sites", nb, floor=2)
    chk.analysed = {"units": sorted(prog.units), "mem_level": mem_level, "debug_matrix": sorted(set(matrix))}
    chk.assume("table == live set over all interleavings is not decided; these are the per-operation necessary conditions")
    return chk.finish()
