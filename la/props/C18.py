"""C18 — built-in hashes equal their published definitions (rule family HASHNF).

Each hash function in src/builtin_hashes.c and its reference in ref/hashes_ref.c is evaluated symbolically
into a normal form over Z/2^32 (la/hashnf.py); equal normal forms imply equal functions for every key,
length, seed and alignment.  Additional structural obligations: the byte-wise and word-wise Jenkins variants
have the same normal form; every wide load in the word-wise variant is control-dependent on the alignment
test; the functions read no global state.
"""
import os

import re

from .. import facts, expr as X, hashnf
from ..report import Check
from ..facts import VERIF, AnalysisBroken, walk

PAIRS = [("spifhash_jenkins", "ref_jenkins"), ("spifhash_jenkins32", "ref_jenkins32"),
         ("spifhash_jenkinsLE", "ref_jenkins"), ("spifhash_rotating", "ref_rotating"),
         ("spifhash_one_at_a_time", "ref_one_at_a_time"), ("spifhash_fnv", "ref_fnv")]


def alignment_guarded(fn, node):
    """node (a wide load of the key) lies in the arm of an if whose condition tests (key & 3) and in which
    that test is false (aligned)."""
    child = node
    for anc in fn.ancestors(node):
        if anc.get("k") == "if":
            c = X.strip(anc["cond"])
            neg = False
            eq0 = None
            for _ in range(6):
                # peel negations, comparisons with 0 and locals that hold the test (aligned = !(key & 3); if (aligned) ..)
                if c.get("k") == "un" and c.get("op") == "!":
                    c = X.strip(c["ch"][0])
                    neg = not neg
                    continue
                if c.get("k") == "bin" and c.get("op") in ("==", "!=") and X.const_val(c["ch"][1]) == 0:
                    if c["op"] == "==":
                        neg = not neg
                    c = X.strip(c["ch"][0])
                    continue
                if c.get("k") == "cond" and X.const_val(c["ch"][1]) is not None and X.const_val(c["ch"][2]) is not None:
                    tv, fv = bool(X.const_val(c["ch"][1])), bool(X.const_val(c["ch"][2]))
                    if tv != fv:
                        if fv:
                            neg = not neg
                        c = X.strip(c["ch"][0])
                        continue
                if c.get("k") == "ref" and c.get("rk") == "local":
                    defs = []
                    for y in walk(fn.body):
                        if y.get("k") == "assign" and X.strip(y["ch"][0]).get("d") == c["d"]:
                            defs.append(y["ch"][1] if y.get("op") == "=" else None)
                        elif y.get("k") == "decl":
                            defs += [d_["init"] for d_ in y.get("decls", ()) if d_["d"] == c["d"] and d_.get("init") is not None]
                        elif y.get("k") == "un" and y.get("op") in ("++", "--") and X.strip(y["ch"][0]).get("d") == c["d"]:
                            defs.append(None)
                    if len(defs) == 1 and defs[0] is not None:
                        c = X.strip(defs[0])
                        continue
                break
            eq0 = True if neg else None
            neg = False
            if c.get("k") == "bin" and c.get("op") == "&" and X.const_val(c["ch"][1]) in (3, 7, 15):
                p = X.strip(c["ch"][0])
                if p.get("k") == "ref" and p.get("rk") == "param":
                    # truth value of "misaligned" in the then-arm
                    misaligned_then = True
                    if eq0 is True:
                        misaligned_then = False
                    if neg:
                        misaligned_then = not misaligned_then
                    in_then = child is anc.get("then") or any(a is anc.get("then") for a in [child])
                    in_then = _contains(anc.get("then"), node)
                    in_else = anc.get("else") is not None and _contains(anc["else"], node)
                    if (in_then and not misaligned_then) or (in_else and misaligned_then):
                        return True
        child = anc
    return False


def _contains(root, node):
    from ..facts import walk
    return any(x is node for x in walk(root))


def run(tier="quick"):
    chk = Check("C18", level="other", tier=tier,
                explanation="HASHNF: normal-form equality (mod 2^32 linear terms, xor/shift atoms, structural loop and "
                            "switch summaries) of each hash with its published reference definition; covers every key, "
                            "length, seed and alignment without enumerating any")
    chk.rule("H1", "normal form of the function equals the normal form of its reference definition")
    chk.rule("H2", "byte-wise and word-wise Jenkins variants have the same normal form (little-endian host)")
    chk.rule("H3", "every wide load of the key in the word-wise variant is control-dependent on the alignment test")
    chk.rule("H4", "no global or static state is read (same bytes, same value, wherever they are)")
    configs = [({}, "configured")]
    if tier == "thorough":
        configs.append(({"WORDS_BIGENDIAN": 1}, "WORDS_BIGENDIAN"))
    refu = facts.extract_file(os.path.join(VERIF, "ref", "hashes_ref.c"))
    refnf = {}
    for name, fn in refu.functions.items():
        refnf[name] = hashnf.summarise(fn)[0]
    nfun = 0
    for edits, label in configs:
        prog = facts.extract(only=["builtin_hashes.c"], config_edits=edits or None)
        u = prog.units.get("builtin_hashes.c")
        if u is None:
            raise AnalysisBroken("builtin_hashes.c not analysed")
        nfs = {}
        for impl, ref in PAIRS:
            fn = u.functions.get(impl)
            site = "%s==%s[%s]" % (impl, ref, label)
            if fn is None:
                if impl == "spifhash_jenkinsLE" and edits:
                    chk.note("%s: spifhash_jenkinsLE is an alias of spifhash_jenkins on big-endian configurations" % label)
                    continue
                raise AnalysisBroken("hash function %s not found" % impl)
            nfun += 1
            try:
                nf, ev = hashnf.summarise(fn)
            except hashnf.Unsupported as e:
                m_ = re.search(r"kind call \((\w+)\(", str(e))
                if m_ and m_.group(1) in u.functions:
                    # a helper of the same file: the normaliser does not inline calls, so this function cannot be decided
                    raise AnalysisBroken("%s calls the helper %s(); HASHNF does not inline helpers, so equality with the published "
                                         "definition can be neither established nor refuted" % (impl, m_.group(1)))
                # outside the term algebra: equality with the published definition is neither established nor refuted - the check
                # cannot decide this function (exit 2), which is not a violation
                raise AnalysisBroken("%s uses a construct outside the normaliser's term algebra (%s); equality with the published "
                                     "definition can be neither established nor refuted" % (impl, e))
            nfs[impl] = nf
            d = hashnf.diff(nf, refnf[ref])
            chk.ob("H1", impl, site, d is None, loc=fn.loc(fn.body),
                   detail="%s differs from its published definition (%s): %s" % (impl, ref, d),
                   proof="normal forms identical (%d chars)" % len(repr(nf)))
            # the diagnostic level and stream are read by the expansion of a D_/REQUIRE print only; a value that depended on
            # them would already differ from the reference under H1 (the condition would appear in the normal form)
            impure = sorted(g_ for g_ in ev.globals_read if g_ not in ("libast_debug_level", "stderr"))
            chk.ob("H4", impl, "pure[%s]" % label, not impure, loc=fn.loc(fn.body),
                   detail="%s reads global state %s" % (impl, impure),
                   proof="only parameters and locals are read")
            if impl == "spifhash_jenkinsLE":
                wide = [(n, w) for n, w in ev.loads if w > 8]
                for n, w in wide:
                    ok = alignment_guarded(fn, n)
                    chk.ob("H3", impl, "aligned-load[%s]" % label, ok, loc=fn.loc(n),
                           detail="%d-bit load %s is not control-dependent on the (key & 3) alignment test" % (w, X.render(n)),
                           proof="inside the aligned arm of if ((key & 3))")
                if label == "configured":
                    chk.count("wide_loads_LE", len(wide), floor=3)
        if "spifhash_jenkins" in nfs and "spifhash_jenkinsLE" in nfs:
            d = hashnf.diff(nfs["spifhash_jenkinsLE"], nfs["spifhash_jenkins"])
            chk.ob("H2", "spifhash_jenkinsLE", "LE==bytewise[%s]" % label, d is None,
                   loc=u.functions["spifhash_jenkinsLE"].loc(u.functions["spifhash_jenkinsLE"].body),
                   detail="word-wise and byte-wise Jenkins variants differ: %s" % d,
                   proof="identical normal forms after little-endian expansion of wide loads")
    chk.count("hash_functions", nfun, floor=6)
    chk.analysed = {"units": ["builtin_hashes.c", "ref/hashes_ref.c"], "configs": [c[1] for c in configs]}
    chk.assume("little-endian host (the word-wise variant is compiled only when WORDS_BIGENDIAN is unset)")
    chk.assume("reference definitions in ref/hashes_ref.c transcribe the published algorithms")
    chk.note("incompleteness: a rewrite relying on a bit-level identity outside the term algebra, or restructuring loops, "
             "would be reported as a difference")
    return chk.finish()
