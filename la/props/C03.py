"""C03 — every map implementation is the same finite dictionary.

Not decided: dictionary semantics over histories.  Decided (necessary conditions, structural):

  M1  set() stores copies: the caller's key / value objects only ever reach DUP, the copying pair constructor or a
      comparison; they are never stored or released (ownership rule over the resolved callees)
  M2  remove selects the pair to unlink by key equality, never by an ordering test
  M3  set() reports TRUE exactly on the path that found an equal key and FALSE on the path that inserted
  L6  get / the sorted insertion used by set agree on ascending key order (early exit and binary search direction)
  L2/L5  map remove updates predecessor, successor, head and tail independently and decrements len (map stays usable
      after removing the smallest or largest key)
  D1  chain pointers dereferenced only inside the chain;  B1 array storage (CAP)
  K1  pair comparison accepts a pair or a bare key on the right-hand side (spif_objpair_comp dispatches on the type)
"""
import re

from .. import facts, expr as X, nullness, flow, classinfo, listrules as LR
from ..facts import walk
from ..report import Check, canon
from . import C02

NORETURN = {"libast_fatal_error"}
UNITS = C02.UNITS


def check_set_result(chk, prog, fns):
    """M3: in set(), the TRUE return is on the path that replaced a value, FALSE on the path that inserted a new pair"""
    n = 0
    for f in fns:
        if LR.short_slot(prog, f) != "set":
            continue
        n += 1
        cfg = nullness.prepared_cfg(f, NORETURN)

        def tr(state, x, blk):
            if x.get("k") == "call":
                cn = X.callee_name(x) or ""
                if re.search(r"_insert$", cn):
                    return state | {"inserted"}
                if re.search(r"_set_value$", cn):
                    return state | {"replaced"}
            # constants held by locals (a single `result` variable returned at the end)
            if x.get("k") == "assign" and x.get("op") == "=":
                l = X.strip(x["ch"][0])
                if l.get("k") == "ref" and l.get("rk") == "local":
                    st2 = frozenset(t for t in state if not (isinstance(t, tuple) and t[0] == "val" and t[1] == l["d"]))
                    cv = X.const_val(x["ch"][1])
                    return st2 | ({("val", l["d"], cv)} if cv is not None else set())
            if x.get("k") == "decl":
                st2 = state
                for dcl in x.get("decls", ()):
                    st2 = frozenset(t for t in st2 if not (isinstance(t, tuple) and t[0] == "val" and t[1] == dcl["d"]))
                    if dcl.get("init") is not None and X.const_val(dcl["init"]) is not None:
                        st2 = st2 | {("val", dcl["d"], X.const_val(dcl["init"]))}
                return st2
            return state
        rets = []

        def rf(state, cond, truth, blk):
            # a result flag tested as a condition (replaced = probe(..); if (replaced) ..): its truth value on that edge
            if isinstance(truth, tuple):
                return state
            c_ = X.strip(cond)
            neg = False
            while c_ is not None and c_.get("k") == "un" and c_.get("op") == "!":
                neg = not neg
                c_ = X.strip(c_["ch"][0])
            if c_ is not None and c_.get("k") == "ref" and c_.get("rk") == "local" and not c_.get("tp"):
                if any(isinstance(t, tuple) and t[0] == "val" and t[1] == c_["d"] for t in state):
                    return state
                return state | {("val", c_["d"], 1 if (truth != neg) else 0)}
            return state

        def join(a, b):
            # reached-effects are may-facts (union); constants are must-facts (intersection)
            eff = {t for t in a | b if not isinstance(t, tuple)}
            vals = {t for t in a & b if isinstance(t, tuple)}
            return frozenset(eff | vals)

        def vis(state, x, blk):
            if x.get("k") == "return" and x.get("val") is not None:
                cv = X.const_val(x["val"])
                v = X.strip(x["val"])
                if cv is None and v.get("k") == "ref":
                    for t in state:
                        if isinstance(t, tuple) and t[0] == "val" and t[1] == v.get("d"):
                            cv = t[2]
                rets.append((x, cv, state))
        # path-sensitivity for the single-result idiom: one pass per effect, each pruned to the paths that reach it
        flow.forward(cfg, frozenset(), tr, refine=rf, join=join, visit=vis)
        if any(cv is None for _, cv, _ in rets):
            # the returned local's value differs per path: evaluate per incoming edge of the return block
            rets2 = []
            ins = flow.forward(cfg, frozenset(), tr, refine=rf, join=join)
            for x, cv, st in rets:
                if cv is not None:
                    rets2.append((x, cv, st))
                    continue
                blk = [b for b, bl in cfg.blocks.items() if x["i"] in bl.el][0]
                v = X.strip(x["val"])
                for pb in cfg.blocks[blk].pred:
                    if pb not in ins:
                        continue
                    stp = ins[pb]
                    for e in cfg.blocks[pb].el:
                        nn_ = f.nodes.get(e)
                        if nn_ is not None:
                            stp = tr(stp, nn_, None)
                    cvp = None
                    for t in stp:
                        if isinstance(t, tuple) and t[0] == "val" and t[1] == v.get("d"):
                            cvp = t[2]
                    if cvp is not None:
                        rets2.append((x, cvp, stp))
            rets = rets2
        seen = set()
        for x, cv, st in rets:
            if "inserted" in st or "replaced" in st:
                ok = (cv == 1) == ("replaced" in st) and not ("inserted" in st and "replaced" in st)
                seen.add("inserted" if "inserted" in st else "replaced")
                chk.ob("M3", f.name, "reports-%s" % ("replace" if "replaced" in st else "insert"), ok, loc=f.loc(x),
                       detail="%s returns %s on the path that %s: set must report TRUE exactly when it replaced an existing entry" % (
                           f.name, "TRUE" if cv == 1 else "FALSE", "replaced a value" if "replaced" in st else "inserted a new pair"),
                       proof="TRUE after set_value, FALSE after insert")
        chk.ob("M3", f.name, "both-outcomes", seen == {"inserted", "replaced"}, loc=f.loc(f.body),
               detail="%s lacks the insert or the replace path" % f.name, proof="an inserting and a replacing path exist")
    return n


def check_pair_comp(chk, prog):
    """K1: spif_objpair_comp compares the key with a pair's key when the other side is a pair and with the object itself otherwise"""
    f = prog.fn("spif_objpair_comp")
    if f is None:
        raise facts.AnalysisBroken("spif_objpair_comp not found")
    ispair = False
    bare = False

    def forms(e, depth=0):
        """the syntactic forms the expression can stand for, looking through locals and conditional expressions"""
        s_ = X.strip(e)
        if s_ is None or depth > 4:
            return
        if s_.get("k") == "cond":
            for arm in (s_["ch"][1], s_["ch"][2]):
                for r in forms(arm, depth + 1):
                    yield r
            return
        if s_.get("k") == "ref" and s_.get("rk") == "local":
            for y in walk(f.body):
                if y.get("k") == "assign" and y.get("op") == "=" and X.strip(y["ch"][0]).get("d") == s_["d"]:
                    for r in forms(y["ch"][1], depth + 1):
                        yield r
                if y.get("k") == "decl":
                    for dcl in y.get("decls", ()):
                        if dcl["d"] == s_["d"] and dcl.get("init") is not None:
                            for r in forms(dcl["init"], depth + 1):
                                yield r
            return
        yield s_
    for x in walk(f.body):
        if x.get("k") == "call":
            cn = X.callee_name(x) or X.dispatch_slot(x) or ""
            if "comp" in cn and x is not f.body:
                args = x["ch"][1:]
                if len(args) >= 2:
                    for a1 in forms(args[1]):
                        if a1.get("k") == "member" and a1.get("n") == "key":
                            ispair = True
                        if a1.get("k") == "ref" and a1.get("rk") == "param" and a1.get("pi") == 1:
                            bare = True
    chk.ob("K1", f.name, "pair-or-bare-key", ispair and bare, loc=f.loc(f.body),
           detail="spif_objpair_comp no longer compares against both a pair's key and a bare key: map lookups by key (which pass the "
                  "bare key) or pair ordering (sorted insert passes pairs) break", proof="both comparison forms present")
    return 1


def check_pair_casts(chk, prog, fns):
    """T1 (typestate of a generic object variable): wherever a function reads `->key` / `->value` through a cast of a generic
    object local or parameter to the pair type, that variable is known to hold a pair - a class test of it (its class pointer
    compared with the pair class) holds on every path to the read and the variable has not been assigned since.  `key =
    PAIR(key)->key; value = PAIR(key)->value;` reads the second field from what is no longer the pair."""
    from .. import flow, nullness
    n = 0
    for f in fns:
        if f.body is None or f.cfg is None:
            continue
        # values that come from the caller: generic object parameters and locals that only ever copy one (what a function loads
        # from the container's own storage is a pair by the container's invariant and is not in question here)
        generic = {p["d"] for p in f.params[1:] if p.get("tp") and not re.search(r"objpair", (p.get("t") or "") + (p.get("tc") or ""))}
        ch_ = True
        while ch_:
            ch_ = False
            for d, v in f.vardecls.items():
                if d in generic or not v.get("tp") or re.search(r"objpair", (v.get("t") or "") + (v.get("tc") or "")):
                    continue
                defs_ = [v["init"]] if v.get("init") is not None else []
                defs_ += [x["ch"][1] for x in walk(f.body) if x.get("k") == "assign" and x.get("op") == "=" and (X.strip(x["ch"][0]) or {}).get("d") == d]
                if defs_ and all((X.strip(e_) or {}).get("k") == "ref" and X.strip(e_).get("d") in generic for e_ in defs_):
                    generic.add(d)
                    ch_ = True
        reads = []
        for x in walk(f.body):
            if x.get("k") == "member" and x.get("arrow") and x.get("n") in ("key", "value") and "objpair" in (x.get("rec") or ""):
                b = X.strip(x["ch"][0])
                if b is not None and b.get("k") == "ref" and b.get("d") in generic:
                    reads.append((x, b["d"]))
        if not reads:
            continue

        def pair_tests(cond, truth):
            c = X.strip(cond)
            if c is None:
                return set()
            if c.get("k") == "un" and c.get("op") == "!":
                return pair_tests(c["ch"][0], not truth)
            if c.get("k") == "bin" and c.get("op") == "&&":
                return (pair_tests(c["ch"][0], True) | pair_tests(c["ch"][1], True)) if truth else set()
            if c.get("k") == "bin" and c.get("op") == "||":
                return set() if truth else (pair_tests(c["ch"][0], False) | pair_tests(c["ch"][1], False))
            if c.get("k") == "bin" and c.get("op") in ("==", "!=") and ((c["op"] == "==") == truth):
                for a_, b_ in ((c["ch"][0], c["ch"][1]), (c["ch"][1], c["ch"][0])):
                    sa = X.strip(a_)
                    if sa is not None and sa.get("k") == "member" and sa.get("n") == "cls" and \
                            any(y.get("k") == "ref" and "objpair" in (y.get("n") or "") for y in walk(b_)):
                        t = X.strip(sa["ch"][0])
                        if t is not None and t.get("k") == "ref":
                            return {t["d"]}
            return set()

        def transfer(st, x, blk):
            if x.get("k") == "assign":
                l = X.strip(x["ch"][0])
                if l is not None and l.get("k") == "ref" and l.get("d") in st:
                    return st - {l["d"]}
            return st

        def refine(st, cond, truth, blk):
            if isinstance(truth, tuple):
                return st
            return st | frozenset(pair_tests(cond, truth))
        seen = {}

        def visit(st, x, blk):
            for r_, d_ in reads:
                if x is r_:
                    seen[r_["i"]] = d_ in st
        cfg = nullness.prepared_cfg(f, NORETURN)
        flow.forward(cfg, frozenset(), transfer, refine=refine, visit=visit)
        for r_, d_ in reads:
            if r_["i"] not in seen:
                continue
            n += 1
            chk.ob("T1", f.name, "pair-field-of-a-pair:" + canon(f, r_)[:36], seen[r_["i"]], loc=f.loc(r_),
                   detail="%s reads `%s` where %s is not known to hold a pair any more (no class test of it holds since its last "
                          "assignment): a field of whatever object it holds now is read as the pair's %s" % (
                              f.name, X.render(r_)[:40], X.render(X.strip(r_["ch"][0]))[:20], r_.get("n")),
                   proof="a pair-class test of the variable holds on every path to the read")
    return n


def run(tier="quick"):
    chk = Check("C03", level="other", tier=tier,
                explanation="ownership rule for set() over resolved callees, equality-selected removal, result protocol of set(), "
                            "ordering-direction agreement between lookup and insertion, unlink effects of map remove, GHOSTPOS "
                            "chain-dereference proof and CAP bounds for the array map")
    for rid, txt in (("M1", "set stores copies of key and value"), ("M2", "removal is selected by key equality"),
                     ("M3", "set reports replace/insert exactly"), ("L6", "lookup and insertion agree on ascending key order"),
                     ("L2", "unlink updates pred/succ/head/tail independently"), ("L5", "len follows removal"), ("L3", "created node linked forwards and backwards (the sorted insert set() delegates to)"), ("L7", "every node of a doubly linked copy is back-linked"),
                     ("D1", "chain pointers dereferenced only inside the chain"),
                     ("B1", "array storage bounds and len/items invariant"), ("K1", "pair comparison accepts pair or bare key"), ("T1", "a generic object is read as a pair only where it is known to be one"),
                     ("U1", "no uninitialised local")):
        chk.rule(rid, txt)
    prog = facts.extract(units=UNITS + ["obj.c", "objpair.c"])
    fns = LR.iface_functions(prog, "map")
    names = {f.name for f in fns}
    ncp = LR.check_map_copies(chk, prog, [f for f in fns if LR.short_slot(prog, f) == "set"])
    nrm = LR.check_remove_by_equality(chk, prog, [f for f in fns if LR.short_slot(prog, f) == "remove"])
    nset = check_set_result(chk, prog, fns)
    chk.rule("A1", "the argument of an ASSERT / REQUIRE only observes (no store disappears with DEBUG=0)")
    chk.count("assertion_arguments_with_calls", LR.check_assert_purity(chk, prog, ["array.c", "linked_list.c", "dlinked_list.c", "objpair.c"], "A1"))
    nord = LR.check_ordering(chk, prog, [f for f in fns if LR.short_slot(prog, f) in ("get", "insert") or re.search(r"_insert$", f.name)])
    nun = LR.check_unlink_effects(chk, prog, "dlinked_list.c", True, only=names) + LR.check_unlink_effects(chk, prog, "linked_list.c", False, only=names)
    nins = LR.check_insert_effects(chk, prog, "dlinked_list.c", True, only=names) + LR.check_insert_effects(chk, prog, "linked_list.c", False, only=names)
    chk.count("insert_functions", nins, floor=2)
    nbl = LR.check_dup_backlinks(chk, prog, only={f.name for f in LR.iface_functions(prog, "map", with_parent=True)})
    nlen = sum(LR.check_len_on_remove(chk, prog, u, only=names) for u in ("linked_list.c", "dlinked_list.c"))
    nbal = sum(LR.check_len_balance(chk, prog, u, only=names) for u in ("linked_list.c", "dlinked_list.c"))
    chk.count("len_balance_functions", nbal, floor=1)
    nd = 0
    for u in ("linked_list.c", "dlinked_list.c"):
        nd += LR.check_chain_derefs(chk, prog, u, only=names)[1]
    nf, nund, samples = C02.cap_array(chk, prog, fns)
    nqf, nundq = LR.check_bisection(chk, prog, fns, NORETURN, "Q1")
    chk.count("bisection_functions", nqf, floor=1)
    nund += nundq
    check_pair_comp(chk, prog)
    chk.count("pair_field_reads", check_pair_casts(chk, prog, fns), floor=3)
    C02.init_diag(chk, prog, UNITS, only=names)
    chk.count("map_functions", len(fns), floor=27)
    chk.count("set_functions", ncp, floor=3)
    chk.count("remove_functions", nrm, floor=3)
    chk.count("set_result_functions", nset, floor=3)
    chk.count("ordering_decisions", nord, floor=9)
    chk.count("unlink_functions", nun, floor=2)
    chk.count("len_on_remove", nlen, floor=2)
    chk.count("chain_deref_sites", nd, floor=20)
    chk.count("cap_functions", nf, floor=8)
    chk.count("cap_undecided", nund)
    if samples:
        chk.note("CAP undecided (not reported): " + " | ".join(samples))
    chk.analysed = {"units": UNITS + ["objpair.c"], "functions": sorted(names)}
    chk.assume("spif_objpair_new_from_both and SPIF_OBJ_DUP produce independent copies (C05 D1-D3 check the dup functions)")
    chk.assume("key comparison is a consistent total order; entry states satisfy the chain/len invariant and hold only pairs")
    chk.assume("NOT decided: latest-value-wins, exactly-once removal and sortedness of keys/values/pairs over histories")
    return chk.finish()
