"""C14 — URL parsing never touches memory outside the object nor dereferences lookup results it never obtained.

CAP (strict) over url.c's parse/unparse/constructors: the scan cursor and every look-ahead stay inside the text,
every component slice handed to the string constructors has a non-negative length and starts inside the text,
and no local (the protocol / service lookup results) is read on a path on which it was never assigned, whatever
the lookups return (found / not found are both explored).  Component exactness and the round trip are not decided."""
from .. import facts, expr as X
from ..report import Check
from ..cap import Cap
from ..capcheck import run_cap

NORETURN = {"libast_fatal_error"}


class UrlCap(Cap):
    def no_inline(self, fn):
        return fn.unit is not self.cur_fn.unit or Cap.no_inline(self, fn)


def run(tier="quick"):
    chk = Check("C14", level="other", tier=tier,
                explanation="CAP (strict) over url.c: cursor and slice bounds, lookup results used only after being obtained and tested")
    chk.rule("B1", "cursor/look-ahead inside the text; slices non-negative and inside the text; lookup results assigned and non-NULL before use")
    prog = facts.extract()
    u = prog.units.get("url.c")
    if u is None:
        raise facts.AnalysisBroken("url.c not analysed")
    # the constructors only initialise the embedded string (another class, C01) and then call parse: parse and unparse
    # are analysed from every legal state of the text instead of through those wrappers
    reach = {"spif_url_parse"}
    changed = True
    while changed:
        changed = False
        for f in u.functions.values():
            if f.name not in reach and any(X.callee_name(c) in reach for c in X.calls_in(f.body)):
                reach.add(f.name)
                changed = True
    reach.discard("spif_url_parse")
    fns = [f for f in u.functions.values() if f.cfg is not None and not f.name.endswith(("_show",)) and "_get_" not in f.name
           and "_set_" not in f.name and f.name not in reach]
    n, nund, samples = run_cap(chk, prog, fns, rule="B1", noreturn=NORETURN, strict=True,
                               cap_factory=lambda p: UrlCap(p, noreturn=NORETURN),
                               kinds={"lower", "upper", "null", "count", "cursor", "freed", "uninit", "slice"})
    parse = prog.need("spif_url_parse")
    slices = sum(1 for c in X.calls_in(parse.body) if (X.callee_name(c) or "").endswith("_from_buff"))
    chk.count("functions", n, floor=4)
    chk.count("component_slices_in_parse", slices, floor=6)
    chk.count("undecided_obligations", nund)
    if samples:
        chk.note("undecided: " + " | ".join(samples))
    chk.analysed = {"units": ["url.c"], "functions": [f.name for f in fns]}
    chk.assume("the URL text is a valid str (terminated at its length); getprotobyname/getservbyname may return NULL or a record")
    return chk.finish()
