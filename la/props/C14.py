"""C14 — URL parsing never touches memory outside the object nor dereferences lookup results it never obtained.

CAP (strict) over url.c's parse/unparse/constructors: the scan cursor and every look-ahead stay inside the text,
every component slice handed to the string constructors has a non-negative length and starts inside the text,
and no local (the protocol / service lookup results) is read on a path on which it was never assigned, whatever
the lookups return (found / not found are both explored).  W1/W2: parse and unparse agree on the component table, and every component that is present is emitted on every path
(must-analysis over the nullness facts).  Component exactness and the round trip are not decided."""
import re

from .. import facts, expr as X
from .. import nullness, flow
from ..facts import walk
from ..report import Check
from ..cap import Cap
from ..capcheck import run_cap

NORETURN = {"libast_fatal_error"}


class UrlCap(Cap):
    def no_inline(self, fn):
        return fn.unit is not self.cur_fn.unit or Cap.no_inline(self, fn)


# components whose spelling is attached to another component by the URL grammar:  user[:passwd]@   host[:port]
COUPLED = {"passwd": {"user"}, "port": {"host"}}


def check_unparse(chk, prog):
    """W1: parse and unparse agree on the component table (every component field parse stores is emitted by unparse);
    W2: unparse emits a component whenever that component is present - the emission is controlled only by the presence of
    the component itself and of the component it is syntactically attached to, never by an unrelated one"""
    parse, unparse = prog.need("spif_url_parse"), prog.need("spif_url_unparse")

    def self_field(e, f):
        s_ = X.strip(e)
        if s_ is not None and s_.get("k") == "member" and s_.get("arrow"):
            b = X.strip(s_["ch"][0])
            if b.get("k") == "ref" and b.get("rk") == "param" and b.get("pi") == 0:
                return s_["n"]
        return None
    u_ = parse.unit
    from ..listrules import unit_closure
    from .. import classinfo
    urlrec = classinfo.rec_of_param(unparse, 0)
    stored = set()
    # parse and the static helpers it is split into: every store of a fresh object into a field of the URL
    for g in unit_closure(parse, stop=r"^$"):
        for j, p_ in enumerate(g.params):
            if classinfo.rec_of_param(g, j) != urlrec:
                continue
            for x in walk(g.body):
                if x.get("k") == "assign" and x.get("op") == "=":
                    f_ = self_field(x["ch"][0], g) if j == 0 else None
                    if f_ is None:
                        l_ = X.strip(x["ch"][0])
                        if l_.get("k") == "member" and l_.get("arrow") and X.strip(l_["ch"][0]).get("d") == p_["d"]:
                            f_ = l_["n"]
                    if f_ is not None and not X.is_null_const(x["ch"][1]):
                        stored.add(f_)
    # locals of unparse that stand for the presence of a component (have_host = !ISNULL(self->host))
    local_fields = {}
    for x in walk(unparse.body):
        pairs = []
        if x.get("k") == "assign" and x.get("op") == "=":
            l_ = X.strip(x["ch"][0])
            if l_.get("k") == "ref" and l_.get("rk") == "local":
                pairs.append((l_["d"], x["ch"][1]))
        if x.get("k") == "decl":
            for dcl in x.get("decls", ()):
                if dcl.get("init") is not None:
                    pairs.append((dcl["d"], dcl["init"]))
        for d_, r_ in pairs:
            for y in walk(r_):
                g_ = self_field(y, unparse)
                if g_ is not None and g_ in stored:
                    local_fields.setdefault(d_, set()).add(g_)
    emitted = {}
    for c in X.calls_in(unparse.body):
        cn_ = X.callee_name(c) or ""
        if cn_ in ("spif_str_append", "spif_str_append_from_ptr") or (cn_ in u_.functions and u_.functions[cn_].static and any(
                (X.callee_name(c2) or "").startswith("spif_str_append") for c2 in X.calls_in(u_.functions[cn_].body))):
            for a in c["ch"][1:]:
                for y in walk(a):
                    f_ = self_field(y, unparse)
                    if f_ is not None and f_ in stored:
                        emitted.setdefault(f_, []).append(c)
    chk.count("url_components_stored_by_parse", len(stored), floor=7)
    for f_ in sorted(stored):
        chk.ob("W1", unparse.name, "emits:" + f_, f_ in emitted, loc=unparse.loc(unparse.body),
               detail="spif_url_parse stores the component `%s` but spif_url_unparse never emits it: recomposition loses the component" % f_,
               proof="an append of self->%s exists" % f_)
    # W2 as a must-analysis: on every path through unparse on which component F (and the component the grammar attaches it
    # to) is present, an emission of F is passed - whatever the other components are.  Path-sensitive in the nullness facts,
    # so it does not depend on how the tests are nested or which locals cache them.
    cfg = nullness.prepared_cfg(unparse, NORETURN)
    selfp = "d%d" % unparse.params[0]["d"]
    emit_ids = {}
    for f_, calls in emitted.items():
        for c in calls:
            emit_ids.setdefault(c["i"], set()).add(f_)
    for f_ in sorted(stored):
        if f_ not in emitted:
            continue
        seed = {("nn", selfp), ("nn", "%s->%s" % (selfp, f_))}
        for g_ in COUPLED.get(f_, ()):
            seed.add(("nn", "%s->%s" % (selfp, g_)))

        def tr(state, x, blk, f_=f_):
            st = nullness.transfer(state, x, blk)
            if x["i"] in emit_ids and f_ in emit_ids[x["i"]]:
                st = frozenset(st) | {("emit", f_)}
            return st
        rets = []

        def vis(state, x, blk, f_=f_):
            if x.get("k") == "return" and x.get("val") is not None and X.const_val(x["val"]) not in (0,):
                rets.append((x, ("emit", f_) in state))
        flow.forward(cfg, frozenset(seed), tr, refine=nullness.refine, visit=vis)
        bad = [x for x, ok in rets if not ok]
        if bad:
            # presence recorded in an integer local that the flag / mask devices could not resolve (calls or stores between its
            # definition and its use): the paths cannot be told apart, the obligation is undecided - not a violation
            held = set()
            for y in walk(unparse.body):
                rhs_, d_ = None, None
                if y.get("k") == "assign" and (X.strip(y["ch"][0]) or {}).get("rk") == "local" and not (X.strip(y["ch"][0]) or {}).get("tp"):
                    d_, rhs_ = X.strip(y["ch"][0])["d"], y["ch"][1]
                    if any(z.get("k") == "member" and z.get("n") == f_ for z in walk(rhs_)):
                        held.add(d_)
                elif y.get("k") == "decl":
                    for dc in y.get("decls", ()):
                        if dc.get("init") is not None and not dc.get("tp") and any(z.get("k") == "member" and z.get("n") == f_ for z in walk(dc["init"])):
                            held.add(dc["d"])
            tested = any(z.get("k") == "ref" and z.get("d") in held and z.get("flagdef") is None and z.get("maskdef") is None
                         for y in walk(unparse.body) if y.get("k") in ("if", "switch", "cond") for z in walk(y.get("cond") or y["ch"][0]))
            if tested:
                chk.note("W2 undecided for `%s`: its presence is held in a local that is tested after calls / stores the flag device does not see through" % f_)
                continue
        chk.ob("W2", unparse.name, "emitted-when-present:" + f_, bool(rets) and not bad, loc=unparse.loc(bad[0]) if bad else unparse.loc(unparse.body),
               detail="spif_url_unparse has a path on which `%s` is present%s but is not emitted - its emission hangs on another component "
                      "being there: a URL with %s and without that component loses it on recomposition" % (
                          f_, (" (with " + ", ".join(sorted(COUPLED[f_])) + ")") if f_ in COUPLED else "", f_),
               proof="every path with %s present passes an append of it" % f_)


LOOKUPS = {"getprotobyname": (0,), "getservbyname": (0, 1), "gethostbyname": (0,)}


def check_lookup_names(chk, prog):
    """N4: the name handed to a protocol/service lookup is the text of a component built by one of the str constructors;
    libc dereferences it, so the constructor must return an object that carries text (s != NULL) whenever it returns an
    object at all - for every slice length, the empty slice included.  The constructor is analysed with CAP in its own unit
    (all lengths, NULL and non-NULL source) and its return states are inspected."""
    from .. import capdrv
    u = prog.units["url.c"]
    fields = {}
    for f in u.functions.values():
        if f.body is None:
            continue
        for c in X.calls_in(f.body):
            cn = X.callee_name(c)
            if cn not in LOOKUPS:
                continue
            for ai in LOOKUPS[cn]:
                if ai >= len(c["ch"]) - 1:
                    continue
                def arms_of(e, depth=0, fn_=f):
                    e = X.strip(e)
                    if e is None or depth > 4:
                        return []
                    if e.get("k") == "cond":        # SPIF_STR_STR(obj): obj is NULL ? "" : obj->s
                        return arms_of(e["ch"][1], depth + 1, fn_) + arms_of(e["ch"][2], depth + 1, fn_)
                    if e.get("k") == "ref" and e.get("rk") == "local":
                        out_ = []
                        for y in walk(fn_.body):      # a local the text was put in first: follow its definitions
                            if y.get("k") == "assign" and y.get("op") == "=" and X.strip(y["ch"][0]).get("d") == e["d"]:
                                out_ += arms_of(y["ch"][1], depth + 1, fn_)
                            elif y.get("k") == "decl":
                                for dcl in y.get("decls", ()):
                                    if dcl["d"] == e["d"] and dcl.get("init") is not None:
                                        out_ += arms_of(dcl["init"], depth + 1, fn_)
                        return out_
                    if e.get("k") == "ref" and e.get("rk") == "param" and e.get("pi") is not None:
                        out_ = []                     # the lookup sits in a helper: what its callers hand in
                        for g_ in u.functions.values():
                            if g_.body is None:
                                continue
                            for c_ in X.calls_in(g_.body):
                                if X.callee_name(c_) == fn_.name and e["pi"] < len(c_["ch"]) - 1:
                                    out_ += arms_of(c_["ch"][1 + e["pi"]], depth + 1, g_)
                        return out_
                    return [e]
                for a_ in arms_of(c["ch"][1 + ai]):
                    if a_.get("k") == "member" and a_.get("n") == "s":
                        b = X.strip(a_["ch"][0])
                        if b.get("k") == "member":
                            fields.setdefault(b["n"], []).append((f, c))
    ctors = {}
    for f in u.functions.values():
        if f.body is None:
            continue
        for x in walk(f.body):
            if x.get("k") == "assign" and x.get("op") == "=":
                t = X.strip(x["ch"][0])
                if t.get("k") == "member" and t.get("n") in fields:
                    r = X.strip(x["ch"][1])
                    cn = X.callee_name(r) if r.get("k") == "call" else None
                    g = prog.fn(cn or "")
                    if g is not None and g.unit is not u:
                        ctors.setdefault(cn, set()).add(t["n"])
    n_ret = 0
    for cn in sorted(ctors):
        g = prog.fn(cn)
        cp = Cap(prog, noreturn=NORETURN)
        cp.record = False
        try:
            _, rets = capdrv.analyse(prog, g, cp)
        except RecursionError:
            chk.note("N4: %s not analysed (recursion limit)" % cn)
            continue
        bad = None
        nobj = 0
        for st in rets:
            rv = st.ret
            if rv is None or rv[0] not in ("p", "o"):
                continue
            nobj += 1
            sv = st.heap.get((rv[1], "s"))
            if sv is not None and sv[0] == "n":
                bad = st
                break
        n_ret += nobj
        uses = [fc for fld in ctors[cn] for fc in fields[fld]]
        f0, c0 = uses[0]
        if nobj == 0:
            chk.note("N4: no object-returning path of %s could be explored; not decided" % cn)
            continue
        from ..lin import model
        chk.ob("N4", f0.name, "lookup-name-present:%s<-%s" % ("/".join(sorted(ctors[cn])), cn), bad is None, loc=g.loc(g.body),
               detail="%s can return an object that carries no text (s == NULL; e.g. %s, path %s); spif_url_parse builds `%s` with it and "
                      "%s hands that text to %s, which dereferences it" % (
                          cn, model(bad.cons) if bad is not None else "", " > ".join(bad.path[-4:]) if bad is not None else "",
                          "/".join(sorted(ctors[cn])), f0.name, X.callee_name(c0)),
               proof="every return state of %s that returns an object has s pointing to an allocated block (%d object-returning state(s))" % (cn, nobj))
    chk.count("lookup_name_fields", len(fields), floor=1)
    chk.count("component_constructors_analysed", len(ctors), floor=1)


def run(tier="quick"):
    chk = Check("C14", level="other", tier=tier,
                explanation="CAP (strict) over url.c: cursor and slice bounds, lookup results used only after being obtained and tested")
    chk.rule("W1", "every component parse stores is emitted by unparse")
    chk.rule("W2", "a component's emission depends only on its own presence (and the component it is attached to)")
    chk.rule("B1", "cursor/look-ahead inside the text; slices non-negative and inside the text; lookup results assigned and non-NULL before use")
    prog = facts.extract()
    u = prog.units.get("url.c")
    if u is None:
        raise facts.AnalysisBroken("url.c not analysed")
    # the constructors only initialise the embedded string (another class, C01) and then call parse: parse and unparse
    # are analysed from every legal state of the text instead of through those wrappers
    reach = {"spif_url_parse"}
    changed = True
    while changed:
        changed = False
        for f in u.functions.values():
            if f.name not in reach and any(X.callee_name(c) in reach for c in X.calls_in(f.body)):
                reach.add(f.name)
                changed = True
    reach.discard("spif_url_parse")
    fns = [f for f in u.functions.values() if f.cfg is not None and not f.name.endswith(("_show",)) and "_get_" not in f.name
           and "_set_" not in f.name and f.name not in reach]
    n, nund, samples = run_cap(chk, prog, fns, rule="B1", noreturn=NORETURN, strict=True,
                               cap_factory=lambda p: UrlCap(p, noreturn=NORETURN),
                               kinds={"lower", "upper", "null", "count", "cursor", "freed", "uninit", "slice"})
    # the constructors and the other callers of parse: definite findings only (their entry states are C01's; what they add in front
    # of parse - measuring or trimming the source text - must stay inside that text)
    ctor_fns = [f for f in u.functions.values() if f.cfg is not None and f.name in reach and "_show" not in f.name]
    n_c, nund_c, samples_c = run_cap(chk, prog, ctor_fns, rule="B1", noreturn=NORETURN, cap_factory=lambda p: UrlCap(p, noreturn=NORETURN),
                                     kinds={"lower", "upper", "null", "count", "cursor", "freed", "slice"})
    nund += nund_c
    check_unparse(chk, prog)
    # G1 the text of a URL reaches the embedded string through str.c's initialisers: those refuse a NULL text softly (REQUIRE),
    # never by an assertion - the text of an empty string object IS a NULL pointer, and the empty byte string is a legitimate
    # URL text at every debug level and in every build (C01's B3, applied to the functions the URL constructors call)
    from . import C01 as _C01
    chk.rule("B3", "the string initialisers the URL constructors call refuse a NULL text softly (REQUIRE), not by ASSERT")
    callees = []
    for f in ctor_fns + [g for g in u.functions.values() if g.body is not None and re.search(r"_(init_from|new_from|dup)", g.name)]:
        for c in X.calls_in(f.body):
            g = prog.fn(X.callee_name(c) or "")
            if g is not None and g.unit.name == "str.c" and g.body is not None and g not in callees:
                callees.append(g)
                for c2 in X.calls_in(g.body):
                    h = prog.fn(X.callee_name(c2) or "")
                    if h is not None and h.unit.name == "str.c" and h.body is not None and h not in callees:
                        callees.append(h)
    chk.count("string_initialisers_on_the_url_path", len(callees), floor=2)
    _C01.check_soft_guards(chk, prog, callees)
    chk.rule("N4", "the constructors whose result is handed to a protocol/service lookup return objects that carry text")
    check_lookup_names(chk, prog)
    parse = prog.need("spif_url_parse")
    from ..listrules import unit_closure
    slices = sum(1 for g_ in unit_closure(parse) for c in X.calls_in(g_.body) if (X.callee_name(c) or "").endswith("_from_buff"))
    chk.count("functions", n, floor=4)
    chk.count("component_slices_in_parse", slices, floor=6)
    chk.count("undecided_obligations", nund)
    if samples:
        chk.note("undecided: " + " | ".join(samples))
    chk.analysed = {"units": ["url.c"], "functions": [f.name for f in fns]}
    chk.assume("the URL text is a valid str (terminated at its length); getprotobyname/getservbyname may return NULL or a record")
    return chk.finish()
