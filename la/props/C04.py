"""C04 — every vector implementation is the same sorted multiset.

Not decided: the multiset semantics over histories.  Decided (necessary conditions, structural):

  L6  every order-dependent decision of insert / find in the three classes normalises to the same direction (ascending):
      walks advance while element < probe and stop when element > probe; the binary search moves right when the element is
      LESS than the probe and left otherwise.  A search that looks the other way from the insertion misses stored elements.
  M2  remove selects the node to unlink by equality, never by an ordering test (an absent probe must not remove a neighbour)
  S1  a sorted insertion that falls through every ordering test without finding a successor makes the node the tail
      (D1: no NULL dereference in any state, incl. duplicates of the maximum)
  L2/L3/L5  unlink / link / len effects of insert and remove (shared with the list interface)
  B1  array vector storage bounds (CAP): binary search indices stay inside items[0..len)
  U1  no uninitialised local
"""
from .. import facts, expr as X, nullness, classinfo, listrules as LR
from ..report import Check
from . import C02

NORETURN = {"libast_fatal_error"}
UNITS = C02.UNITS


def run(tier="quick"):
    chk = Check("C04", level="other", tier=tier,
                explanation="ordering-direction agreement between the sorted insertion and every search of the three classes (normal form "
                            "over the resolved comparison calls), equality-selected removal, link/len effects, GHOSTPOS chain-dereference "
                            "proof and CAP bounds for the binary search")
    for rid, txt in (("L6", "all order-dependent decisions agree on ascending order"), ("M2", "removal is selected by equality"),
                     ("D1", "chain pointers dereferenced only inside the chain"),
                     ("L2", "unlink updates pred/succ/head/tail independently"), ("L3", "created node linked forwards and backwards"),
                     ("L5", "len follows every insertion and removal"), ("L7", "every node of a doubly linked copy is back-linked"), ("B1", "array storage bounds and len/items invariant"),
                     ("U1", "no uninitialised local")):
        chk.rule(rid, txt)
    prog = facts.extract(units=UNITS + ["obj.c", "objpair.c"])
    fns = LR.iface_functions(prog, "vector")
    names = {f.name for f in fns}
    chk.rule("A1", "the argument of an ASSERT / REQUIRE only observes (no store disappears with DEBUG=0)")
    chk.count("assertion_arguments_with_calls", LR.check_assert_purity(chk, prog, ["array.c", "linked_list.c", "dlinked_list.c"], "A1"))
    nord = LR.check_ordering(chk, prog, [f for f in fns if LR.short_slot(prog, f) in ("insert", "find", "contains") or "find" in f.name])
    nrm = LR.check_remove_by_equality(chk, prog, [f for f in fns if LR.short_slot(prog, f) == "remove"])
    nd = 0
    for u in ("linked_list.c", "dlinked_list.c"):
        nd += LR.check_chain_derefs(chk, prog, u, only=names)[1]
    nun = LR.check_unlink_effects(chk, prog, "dlinked_list.c", True, only=names) + LR.check_unlink_effects(chk, prog, "linked_list.c", False, only=names)
    nins = LR.check_insert_effects(chk, prog, "dlinked_list.c", True, only=names) + LR.check_insert_effects(chk, prog, "linked_list.c", False, only=names)
    nbl = LR.check_dup_backlinks(chk, prog, only={f.name for f in LR.iface_functions(prog, "vector", with_parent=True)})
    nlen = sum(LR.check_len_on_remove(chk, prog, u, only=names) for u in ("linked_list.c", "dlinked_list.c"))
    nbal = sum(LR.check_len_balance(chk, prog, u, only=names) for u in ("linked_list.c", "dlinked_list.c"))
    chk.count("len_balance_functions", nbal, floor=1)
    nf, nund, samples = C02.cap_array(chk, prog, fns)
    # Q1 bisection loops are left only through their condition or a match
    nqf, nundq = LR.check_bisection(chk, prog, fns, NORETURN, "Q1")
    chk.count("bisection_functions", nqf, floor=1)
    nund += nundq
    C02.init_diag(chk, prog, UNITS, only=names)
    chk.count("vector_functions", len(fns), floor=18)
    chk.count("ordering_decisions", nord, floor=9)
    chk.count("remove_functions", nrm, floor=3)
    chk.count("chain_deref_sites", nd, floor=15)
    chk.count("unlink_functions", nun, floor=2)
    chk.count("insert_functions", nins, floor=2)
    chk.count("len_on_remove", nlen, floor=2)
    chk.count("cap_functions", nf, floor=5)
    chk.count("cap_undecided", nund)
    if samples:
        chk.note("CAP undecided (not reported): " + " | ".join(samples))
    chk.analysed = {"units": UNITS, "functions": sorted(names)}
    chk.assume("the element comparison is a consistent total order (C05 checks the comp functions)")
    chk.assume("entry states satisfy the chain/len representation invariant; NOT decided: multiset contents over histories")
    return chk.finish()
