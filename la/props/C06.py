"""C06 — ownership: every allocation is released exactly once across any object history.

Structural clauses decided (per class of the object system, on every path):
  O1  done(): every field it releases is left NULL (the object is reusable and nothing dangles)
  O2  done() releases every field that some method of the class stores a fresh allocation into
  O3  del() = done() then deallocation of the object, in that order
  O5  remove/remove_at/map-remove hand the element back: the node's data pointer is cleared on every path
      to the node's deletion (a container never frees what it returns)
  O6  no local allocation is leaked on any path (released, returned, or stored), allocation-failure paths excluded
  O7  nothing is used after it was released (must-released at the use)
  O8  object-property setters release the previous object before overwriting it
  O9  init() assigns every field that done() releases (done after new never frees garbage)
  O10 a duplicate made by a whole-struct copy re-establishes every pointer field (no pointer shared with the original)
"""
import re

from .. import facts, expr as X, nullness, flow, classinfo, own
from ..facts import walk
from ..report import Check, canon

FILES = {"obj.c", "str.c", "ustr.c", "mbuff.c", "objpair.c", "tok.c", "url.c", "regexp.c", "array.c",
         "linked_list.c", "dlinked_list.c", "socket.c"}
NORETURN = {"libast_fatal_error"}
import json, os
from ..facts import VERIF
try:
    SETTERS = set(json.load(open(os.path.join(VERIF, "tables", "c06_setters.json")))["setters"])
except (OSError, ValueError):
    SETTERS = set()


def self_field(e, pidx=0):
    """F if e is <param pidx>->F"""
    s = X.strip(e)
    if s is not None and s.get("k") == "member" and s.get("arrow"):
        b = X.strip(s["ch"][0])
        if b.get("k") == "ref" and b.get("rk") == "param" and b.get("pi") == pidx:
            return s["n"]
    return None


def field_aliases(fn):
    """local decl id -> field F when the local's value derives from self->F (tmp = self->head; cur = tmp->next ...)"""
    al = {}
    changed = True
    while changed:
        changed = False
        for n in walk(fn.body):
            pairs = []
            if n.get("k") == "assign" and n.get("op") == "=":
                l = X.strip(n["ch"][0])
                if l.get("k") == "ref" and l.get("rk") == "local":
                    pairs.append((l["d"], n["ch"][1]))
            if n.get("k") == "decl":
                for d in n.get("decls", ()):
                    if d.get("init") is not None:
                        pairs.append((d["d"], d["init"]))
            for d, rhs in pairs:
                if d in al:
                    continue
                s = X.strip(rhs)
                f = self_field(s)
                if f is None and s is not None:
                    # through another alias: y, y->next
                    b = s
                    while b is not None and b.get("k") == "member":
                        b = X.strip(b["ch"][0])
                    if b is not None and b.get("k") == "ref" and b.get("d") in al:
                        f = al[b["d"]]
                if f is not None:
                    al[d] = f
                    changed = True
    return al


def address_sets(fn):
    """local decl id -> set of fields F whose address &(self->F) is stored into the local (a pointer, or any element of a
    local array of pointers): `*P` / `*(P[i])` then stands for one of those fields"""
    res = {}
    for n in walk(fn.body):
        pairs = []
        if n.get("k") == "assign" and n.get("op") == "=":
            pairs.append((n["ch"][0], n["ch"][1]))
        if n.get("k") == "decl":
            for d in n.get("decls", ()):
                if d.get("init") is not None:
                    pairs.append(({"k": "ref", "d": d["d"], "rk": "local"}, d["init"]))
        for l, r in pairs:
            r = X.strip(r)
            if r is None or r.get("k") != "un" or r.get("op") != "&":
                continue
            fld = self_field(r["ch"][0])
            if fld is None:
                continue
            b = X.strip(l)
            while b is not None and b.get("k") == "index":
                b = X.strip(b["ch"][0])
            if b is not None and b.get("k") == "ref" and b.get("rk") == "local":
                res.setdefault(b["d"], set()).add(fld)
    # a table filled by a helper of the same file that is handed self and the table (member_slots(self, slots): slots[0] = &url->proto; ..)
    unit_ = getattr(fn, "unit", None)
    if unit_ is not None:
        for c in X.calls_in(fn.body):
            g_ = unit_.functions.get(X.callee_name(c) or "")
            if g_ is None or g_.body is None or g_ is fn or len(g_.params) != len(c["ch"]) - 1:
                continue
            args = [X.strip(a_) for a_ in c["ch"][1:]]
            selfs = [j_ for j_, a_ in enumerate(args) if a_ is not None and a_.get("k") == "ref" and a_.get("rk") == "param" and a_.get("pi") == 0]
            tabs = [(j_, a_) for j_, a_ in enumerate(args) if a_ is not None and a_.get("k") == "ref" and a_.get("rk") == "local"]
            if not selfs or not tabs:
                continue
            for y in walk(g_.body):
                if y.get("k") == "assign" and y.get("op") == "=":
                    r = X.strip(y["ch"][1])
                    if r is None or r.get("k") != "un" or r.get("op") != "&":
                        continue
                    fld = None
                    for sj in selfs:
                        fld = fld or self_field(r["ch"][0], sj)
                    b = X.strip(y["ch"][0])
                    while b is not None and b.get("k") == "index":
                        b = X.strip(b["ch"][0])
                    if fld is not None and b is not None and b.get("k") == "ref" and b.get("rk") == "param":
                        for tj, ta in tabs:
                            if b.get("pi") == tj:
                                res.setdefault(ta["d"], set()).add(fld)
    # a pointer local given an element of such an array (slot = part[n]) stands for any of the array's fields
    changed = True
    while changed:
        changed = False
        for n in walk(fn.body):
            pairs = []
            if n.get("k") == "assign" and n.get("op") == "=":
                pairs.append((n["ch"][0], n["ch"][1]))
            if n.get("k") == "decl":
                for d in n.get("decls", ()):
                    if d.get("init") is not None:
                        pairs.append(({"k": "ref", "d": d["d"], "rk": "local"}, d["init"]))
            for l, r in pairs:
                lb, rb = X.strip(l), X.strip(r)
                if lb is None or rb is None or lb.get("k") != "ref" or lb.get("rk") != "local":
                    continue
                while rb is not None and rb.get("k") == "index":
                    rb = X.strip(rb["ch"][0])
                if rb is not None and rb.get("k") == "ref" and rb.get("d") in res and rb.get("d") != lb["d"]:
                    new = res[rb["d"]] - res.get(lb["d"], set())
                    if new:
                        res.setdefault(lb["d"], set()).update(new)
                        changed = True
    return res


def denoted_fields(e, state, addr):
    """the fields of self the expression may denote: self->F, a local that currently holds self->F's value (state fact
    ("alias", local, F)), or a dereference of a pointer / pointer-array element holding &(self->F)"""
    s = X.strip(e)
    if s is None:
        return set()
    f = self_field(s)
    if f is not None:
        return {f}
    if s.get("k") == "ref" and s.get("rk") == "local":
        return {x[2] for x in state if x[0] == "alias" and x[1] == s["d"]}
    if s.get("k") == "un" and s.get("op") == "*":
        b = X.strip(s["ch"][0])
        while b is not None and b.get("k") == "index":
            b = X.strip(b["ch"][0])
        if b is not None and b.get("k") == "ref" and b.get("d") in addr:
            return set(addr[b["d"]])
    if s.get("k") == "index":
        b = X.strip(s["ch"][0])
        if b is not None and b.get("k") == "ref" and b.get("d") in addr and not s.get("tp_is_ptrptr"):
            # part[n] used directly as the field pointer (arrays of the field values are not supported: treated as unknown)
            return set()
    return set()


def pointee_release(g, pd):
    """how a helper treats what its pointer parameter pd points to: None (does not release it), "reset" (releases *pd and
    stores *pd again whenever it did), "dangling" (releases *pd and can return without storing it)"""
    def is_pointee(e):
        e = X.strip(e)
        if e is None:
            return False
        if e.get("k") == "un" and e.get("op") == "*" and (X.strip(e["ch"][0]) or {}).get("d") == pd:
            return True
        if e.get("k") == "ref" and e.get("rk") == "local":
            ds_ = [y["ch"][1] for y in walk(g.body) if y.get("k") == "assign" and y.get("op") == "=" and (X.strip(y["ch"][0]) or {}).get("d") == e["d"]]
            ds_ += [dc["init"] for y in walk(g.body) if y.get("k") == "decl" for dc in y.get("decls", ()) if dc["d"] == e["d"] and dc.get("init") is not None]
            return len(ds_) == 1 and is_pointee(ds_[0]) and X.strip(ds_[0]).get("k") == "un"
        return False
    rels = [c for c in X.calls_in(g.body) if own.release_kind(c) in ("free", "del") and c["ch"][1:] and
            is_pointee(c["ch"][-1] if X.callee_name(c) == "spifmem_free" else c["ch"][1])]
    if not rels:
        return None

    def ctl(n):
        out = []
        q = g.parent.get(n["i"])
        while q is not None:
            if q.get("k") in ("if", "for", "while", "do", "switch", "cond"):
                out.append(q["i"])
            q = g.parent.get(q["i"])
        return set(out)
    stores = [y for y in walk(g.body) if y.get("k") == "assign" and y.get("op") == "=" and (X.strip(y["ch"][0]) or {}).get("k") == "un" and
              X.strip(y["ch"][0]).get("op") == "*" and (X.strip(X.strip(y["ch"][0])["ch"][0]) or {}).get("d") == pd]
    rets = [y["i"] for y in walk(g.body) if y.get("k") == "return"]
    for r in rels:
        ok = False
        ra = X.strip(r["ch"][-1] if X.callee_name(r) == "spifmem_free" else r["ch"][1])
        for y in stores:
            if y["i"] > r["i"] and ctl(y) <= ctl(r) and not any(r["i"] < ri < y["i"] for ri in rets):
                ok = True
            # reset first, then released through the local that took the old value (held = *slot; *slot = NULL; del(held))
            if y["i"] < r["i"] and ctl(y) <= ctl(r) and ra is not None and ra.get("k") == "ref" and ra.get("rk") == "local":
                ok = True
        if not ok:
            return "dangling"
    return "reset"


def check_done(chk, prog, f, rule="O1"):
    """O1 (done functions) / O13 (every other method): release typestate of self's fields in a done function.  A field may be released through the field expression
    itself, through a local holding its value, or through a pointer to it; the reset must follow on every path."""
    cfg = nullness.prepared_cfg(f, NORETURN)
    addr = address_sets(f)
    relsite = {}

    def transfer(state, n, blk):
        k = n.get("k")
        if k == "call" and own.release_kind(n) in ("free", "del"):
            args = n["ch"][1:]
            if args:
                flds = denoted_fields(args[0], state, addr)
                st = set(state)
                for fld in flds:
                    relsite.setdefault(fld, n)
                    st.add(("rel", fld))
                # released through a local that took the field's value before the field was reset (t = self->f; self->f = NULL;
                # del(t)): the field already holds its reset value, nothing dangles
                a0 = X.strip(args[0])
                if a0 is not None and a0.get("k") == "ref":
                    for x in state:
                        if x[0] == "detached" and x[1] == a0.get("d"):
                            relsite.setdefault(x[2], n)
                return frozenset(st)
        if k == "call" and own.release_kind(n) is None:
            # a unit-local helper handed a pointer to the field (release_member(&self->proto) / release_member(slots[i])) that
            # releases what the pointer points to; whether it also resets it decides if the field is left dangling
            g_ = f.unit.functions.get(X.callee_name(n) or "")
            if g_ is not None and g_.body is not None and g_ is not f and len(g_.params) == len(n["ch"]) - 1:
                for j_, a_ in enumerate(n["ch"][1:]):
                    sa_ = X.strip(a_)
                    pf = set()
                    if sa_ is not None and sa_.get("k") == "un" and sa_.get("op") == "&" and self_field(sa_["ch"][0]) is not None:
                        pf = {self_field(sa_["ch"][0])}
                    elif sa_ is not None:
                        b_ = sa_
                        while b_ is not None and b_.get("k") == "index":
                            b_ = X.strip(b_["ch"][0])
                        if b_ is not None and b_.get("k") == "ref" and b_.get("d") in addr and g_.params[j_].get("tp"):
                            pf = set(addr[b_["d"]])
                    if not pf:
                        continue
                    how = pointee_release(g_, g_.params[j_]["d"])
                    if how is None:
                        continue
                    st = set(state)
                    for fld in pf:
                        relsite.setdefault(fld, n)
                        if how == "dangling":
                            st.add(("rel", fld))
                    return frozenset(st)
            # a unit-local helper handed self that stores fields of it unconditionally (set_empty(self): head = NULL; len = 0;)
            g_ = f.unit.functions.get(X.callee_name(n) or "")
            if g_ is not None and g_.body is not None and g_ is not f:
                for j_, a_ in enumerate(n["ch"][1:]):
                    sa_ = X.strip(a_)
                    if sa_ is not None and sa_.get("k") == "ref" and sa_.get("rk") == "param" and sa_.get("pi") == 0 and j_ < len(g_.params):
                        stored = set()
                        for y in walk(g_.body):
                            if y.get("k") == "assign" and y.get("op") == "=":
                                fy = self_field(y["ch"][0], j_)
                                if fy is None:
                                    continue
                                q = g_.parent.get(y["i"])
                                top = True
                                while q is not None and q is not g_.body:
                                    if q.get("k") not in ("block", "exprstmt", "paren"):
                                        top = False
                                        break
                                    q = g_.parent.get(q["i"])
                                if top:
                                    stored.add(fy)
                        if stored:
                            return frozenset(x for x in state if not (x[0] == "rel" and x[1] in stored))
        if k == "assign" and n.get("op") == "=":
            l = X.strip(n["ch"][0])
            flds = denoted_fields(l, frozenset(), addr)
            if flds:
                st = set(x for x in state if not (x[0] == "rel" and x[1] in flds))
                for x in list(st):
                    if x[0] == "alias" and x[2] in flds:
                        st.discard(x)
                        st.add(("detached", x[1], x[2]))
                return frozenset(st)
            if l.get("k") == "ref" and l.get("rk") == "local":
                st = set(x for x in state if not (x[0] == "alias" and x[1] == l["d"]))
                for fld in denoted_fields(n["ch"][1], state, addr):
                    st.add(("alias", l["d"], fld))
                return frozenset(st)
        if k == "decl":
            st = set(state)
            for dcl in n.get("decls", ()):
                st = set(x for x in st if not (x[0] == "alias" and x[1] == dcl["d"]))
                if dcl.get("init") is not None:
                    for fld in denoted_fields(dcl["init"], state, addr):
                        st.add(("alias", dcl["d"], fld))
            return frozenset(st)
        return state
    bad = {}

    def visit(state, n, blk):
        if n.get("k") == "return":
            for x in state:
                if x[0] == "rel":
                    bad.setdefault(x[1], n)
    flow.forward(cfg, frozenset(), transfer, join=lambda a, b: a | b, visit=visit)
    fields = sorted(set(relsite))
    for fld in fields:
        n = bad.get(fld)
        chk.ob(rule, f.name, "nulled-after-release:" + fld, n is None, loc=f.loc(n) if n else f.loc(relsite[fld]),
               detail="%s releases self->%s (%s) but a path returns without resetting the field: the object keeps a dangling "
                      "pointer, so %s frees it again" % (f.name, fld, f.loc(relsite[fld]),
                                                          "done()+reuse or a second done()" if rule == "O1" else "the next call of this method, done() or del()"),
               proof="every path from the release to a return stores to self->%s" % fld)
    return fields


def fresh_field_stores(prog, files):
    """record -> {field: (function, node)} for stores  X->F = <fresh allocation>  where X is a pointer to the record"""
    res = {}
    for fn in prog.all_functions():
        if fn.unit.name not in files:
            continue
        for n in walk(fn.body):
            if n.get("k") == "assign" and n.get("op") == "=":
                l = X.strip(n["ch"][0])
                if l.get("k") == "member" and l.get("arrow") and l.get("rec"):
                    r = X.strip(n["ch"][1])
                    fresh = r is not None and r.get("k") == "call" and nullness.fresh_call(r)
                    if not fresh and r is not None and r.get("k") == "cond":
                        fresh = any(X.callee_name(c) in ("malloc", "realloc") for c in X.calls_in(r))
                    if fresh and l.get("tp"):
                        res.setdefault(l["rec"], {}).setdefault(l["n"], (fn, n))
    return res


def check_del(chk, prog, f):
    cfg = nullness.prepared_cfg(f, NORETURN)
    done_calls = []
    frees = []
    for c in X.calls_in(f.body):
        args = c["ch"][1:]
        if not args:
            continue
        a0 = X.strip(args[0])
        is_self = a0.get("k") == "ref" and a0.get("rk") == "param" and a0.get("pi") == 0
        if not is_self:
            continue
        kind = own.release_kind(c)
        if kind == "done":
            done_calls.append(c)
        elif kind == "free":
            frees.append(c)
    ok = bool(done_calls) and bool(frees) and all(any(cfg.node_dominates(d["i"], fr["i"]) for d in done_calls) for fr in frees)
    why = "no call to the class's done()" if not done_calls else ("the object itself is never deallocated" if not frees
                                                                  else "the object is deallocated before done() ran")
    chk.ob("O3", f.name, "del=done+dealloc", ok, loc=f.loc(f.body),
           detail="%s: %s" % (f.name, why), proof="done(self) dominates free(self)")


def check_remove(chk, prog, f):
    """O5: on every path to item_del(n) the store n->data = NULL happened (and n was not re-assigned since)."""
    cfg = nullness.prepared_cfg(f, NORETURN)
    sites = []

    def transfer(state, n, blk):
        k = n.get("k")
        if k == "assign" and n.get("op") == "=":
            l = X.strip(n["ch"][0])
            if l.get("k") == "member" and l.get("n") == "data" and X.is_null_const(n["ch"][1]):
                b = X.strip(l["ch"][0])
                if b.get("k") == "ref":
                    return state | {("cleared", b["d"])}
            if l.get("k") == "ref":
                return frozenset(x for x in state if x[1] != l["d"])
        if k == "call" and own.release_kind(n) is None:
            # a helper of the same file handed the address of the node's data pointer that stores NULL through it
            # (payload = steal(&node->data))
            g_ = f.unit.functions.get(X.callee_name(n) or "")
            if g_ is not None and g_.body is not None and len(g_.params) == len(n["ch"]) - 1:
                for j_, a_ in enumerate(n["ch"][1:]):
                    sa_ = X.strip(a_)
                    if sa_ is not None and sa_.get("k") == "un" and sa_.get("op") == "&":
                        m_ = X.strip(sa_["ch"][0])
                        if m_ is not None and m_.get("k") == "member" and m_.get("n") == "data" and (X.strip(m_["ch"][0]) or {}).get("k") == "ref":
                            pd_ = g_.params[j_]["d"]
                            clears = [y for y in walk(g_.body) if y.get("k") == "assign" and y.get("op") == "=" and X.is_null_const(y["ch"][1]) and
                                      (X.strip(y["ch"][0]) or {}).get("k") == "un" and X.strip(y["ch"][0]).get("op") == "*" and
                                      (X.strip(X.strip(y["ch"][0])["ch"][0]) or {}).get("d") == pd_]
                            # unconditional in the helper (not under an if / loop)
                            def top_(y):
                                q = g_.parent.get(y["i"])
                                while q is not None and q is not g_.body:
                                    if q.get("k") in ("if", "for", "while", "do", "switch", "cond"):
                                        return False
                                    q = g_.parent.get(q["i"])
                                return True
                            if any(top_(y) for y in clears):
                                return state | {("cleared", X.strip(m_["ch"][0])["d"])}
        return state

    def visit(state, n, blk):
        if n.get("k") == "call" and own.release_kind(n) == "del":
            cn = X.callee_name(n) or ""
            if "item" in cn:
                a0 = X.strip(n["ch"][1])
                if a0.get("k") == "ref":
                    sites.append((n, ("cleared", a0["d"]) in state))
    flow.forward(cfg, frozenset(), transfer, visit=visit)
    for n, ok in sites:
        chk.ob("O5", f.name, "transfer-before-node-delete", ok, loc=f.loc(n),
               detail="%s deletes the list node (%s) on a path where its data pointer was not cleared first: the element handed "
                      "back to the caller is freed with the node" % (f.name, X.render(n)[:50]),
               proof="n->data = NULL dominates item_del(n)")
    return len(sites)


def is_object_ptr_type(prog, tname):
    m = re.search(r"struct (\w+) \*", tname or "")
    if not m:
        return False
    r = prog.records.get(m.group(1))
    if not r or not r["fields"]:
        return False
    f0 = r["fields"][0]
    return f0["n"] in ("cls", "parent") or "spif_obj_t_struct" in (f0.get("tc") or f0.get("t") or "")


def check_setter(chk, prog, f):
    """O8: a setter storing an object-typed parameter into self->F releases the previous object first."""
    m = re.search(r"_set_(\w+)$", f.name)
    if not m or len(f.params) != 2:
        return False
    stores = []
    for n in walk(f.body):
        if n.get("k") == "assign" and n.get("op") == "=":
            fld = self_field(n["ch"][0])
            r = X.strip(n["ch"][1])
            if fld and r.get("k") == "ref" and r.get("rk") == "param" and r.get("pi") == 1:
                stores.append((n, fld))
    if not stores:
        return False
    n, fld = stores[0]
    # in scope: setters generated by SPIF_DEFINE_PROPERTY_FUNC (the object-property form) and setters frozen in
    # tables/c06_setters.json as deleting the previous object on the reviewed tree
    gen = any(m == "b:SPIF_DEFINE_PROPERTY_FUNC" for m in f.j.get("m", []))
    if not gen and f.name not in SETTERS:
        return False
    cfg = nullness.prepared_cfg(f, NORETURN)
    # locals that hold the previous value: assigned exactly once, from self->F, before the store
    defs = {}
    for x in walk(f.body):
        if x.get("k") == "assign":
            l = X.strip(x["ch"][0])
            if l.get("k") == "ref" and l.get("rk") == "local":
                defs.setdefault(l["d"], []).append((x, x["ch"][1] if x.get("op") == "=" else None))
        elif x.get("k") == "decl":
            for dcl in x.get("decls", ()):
                if dcl.get("init") is not None:
                    defs.setdefault(dcl["d"], []).append((x, dcl["init"]))
    prev = {d: ds[0][0] for d, ds in defs.items() if len(ds) == 1 and ds[0][1] is not None and self_field(ds[0][1]) == fld}

    def releases_previous(c):
        if own.release_kind(c) not in ("del",) or not c["ch"][1:]:
            return False
        a = c["ch"][1]
        if self_field(a) == fld:
            return True
        a = X.strip(a)
        if a is not None and a.get("k") == "ref" and a.get("d") in prev and cfg is not None:
            dn = prev[a["d"]]
            return cfg.node_dominates(dn["i"], c["i"]) and cfg.node_dominates(dn["i"], n["i"]) and not cfg.node_dominates(n["i"], dn["i"])
        return False
    rel = [c for c in X.calls_in(f.body) if releases_previous(c)]
    # the release must be able to precede the store: it is in a block that reaches the store
    ok = bool(rel)
    chk.ob("O8", f.name, "setter-releases-previous:" + fld, ok, loc=f.loc(n),
           detail="%s overwrites the owned object in self->%s without deleting the previous one (leak on every re-set)" % (f.name, fld),
           proof="previous self->%s is deleted (under a non-NULL test) before the store" % fld)
    return True


def _table_store(fn, n, addr):
    """fields assigned by `*T[i] = v` where T is a table of field addresses, the store is inside a loop whose counter is i and
    runs from 0 below the table's length (every entry is visited)"""
    l = X.strip(n["ch"][0])
    if l is None or l.get("k") != "un" or l.get("op") != "*":
        return set()
    e = X.strip(l["ch"][0])
    if e is None or e.get("k") != "index":
        return set()
    b, ix = X.strip(e["ch"][0]), X.strip(e["ch"][1])
    if b is None or b.get("k") != "ref" or b.get("d") not in addr or ix is None or ix.get("k") != "ref":
        return set()
    vd = fn.vardecls.get(b["d"]) or {}
    alen = vd.get("alen")
    q = fn.parent.get(n["i"])
    while q is not None and q.get("k") not in ("for", "while", "do"):
        q = fn.parent.get(q["i"])
    if q is None or q.get("cond") is None:
        return set()
    c = X.strip(q["cond"])
    if c is None or c.get("k") != "bin" or c.get("op") not in ("<", "!=") or (X.strip(c["ch"][0]) or {}).get("d") != ix["d"]:
        return set()
    bound = X.const_val(c["ch"][1])
    if bound is None or (alen is not None and bound != alen) or bound < len(addr[b["d"]]):
        return set()
    # the counter starts at 0 (for-init, declaration or the assignment before the loop) and is only ever stepped by one
    starts = [X.const_val(y["ch"][1]) for y in walk(fn.body) if y.get("k") == "assign" and y.get("op") == "=" and (X.strip(y["ch"][0]) or {}).get("d") == ix["d"]]
    starts += [X.const_val(dc["init"]) for y in walk(fn.body) if y.get("k") == "decl" for dc in y.get("decls", ()) if dc["d"] == ix["d"] and dc.get("init") is not None]
    if not starts or any(v != 0 for v in starts):
        return set()
    return set(addr[b["d"]])


def check_init(chk, prog, f, owned):
    """O9: the plain init assigns every owned field (directly, by zero-fill, or by delegating to another init)."""
    assigned = set()
    delegated = False
    addr0 = address_sets(f)
    for n in walk(f.body):
        if n.get("k") == "assign":
            fld = self_field(n["ch"][0])
            if fld:
                assigned.add(fld)
            elif addr0:
                # a store through a table of the fields' addresses (*slots[i] = NULL): which entry is not followed, so this
                # counts for the table as a whole only when the store sits in a loop over the table
                assigned.update(_table_store(f, n, addr0))
            # chained: a->x = a->y = NULL
        if n.get("k") == "call":
            cn = X.callee_name(n) or ""
            args = n["ch"][1:]
            if args:
                a0 = X.strip(args[0])
                if cn in ("memset", "__builtin_memset", "__builtin___memset_chk") and a0 is not None and a0.get("k") == "un" and a0.get("op") == "&" and \
                        self_field(a0["ch"][0]) is not None and len(args) >= 3:
                    # a zero-fill that starts at one of self's fields: it covers the fields up to where its length says - exactly,
                    # when the length is the distance to another field (&self->G - &self->F covers F .. the field before G)
                    first = self_field(a0["ch"][0])
                    rec_ = prog.records.get(classinfo.rec_of_param(f, 0) or "")
                    order = [fl["n"] for fl in (rec_ or {}).get("fields", [])]
                    ln = X.strip(args[2])
                    stop = None
                    if ln is not None and ln.get("k") == "bin" and ln.get("op") == "-":
                        ends = [self_field(X.strip(y["ch"][0])) for y in walk(ln["ch"][0]) if y.get("k") == "un" and y.get("op") == "&" and self_field(X.strip(y["ch"][0]))]
                        if ends:
                            stop = ends[0]
                    if first in order:
                        i0 = order.index(first)
                        i1 = order.index(stop) if stop in order else len(order)
                        assigned.update(order[i0:i1])
                if a0.get("k") == "ref" and a0.get("rk") == "param" and a0.get("pi") == 0:
                    if cn in ("memset", "__builtin_memset"):
                        delegated = True
                    if re.search(r"_init(_|$)", cn) and cn != f.name and not cn.startswith("spif_obj_init"):
                        # an initialiser of the same record does the whole job; one of an embedded parent record only its own fields
                        h0 = prog.fn(cn)
                        rec_c = classinfo.rec_of_param(h0, 0) if h0 is not None and h0.params else None
                        if rec_c is None or rec_c == classinfo.rec_of_param(f, 0):
                            delegated = True
                        else:
                            assigned.update(fl["n"] for fl in (prog.records.get(rec_c) or {}).get("fields", []))
                    # a static helper of the same file that is handed self: the fields it assigns (through its own first
                    # pointer parameter of the same record) count
                    h = f.unit.functions.get(cn)
                    if h is not None and h.static and h is not f and h.params:
                        pj = [j for j, a in enumerate(args) if X.strip(a).get("rk") == "param" and X.strip(a).get("pi") == 0]
                        for j in pj:
                            if j < len(h.params):
                                addr_h = address_sets(h) if j == 0 else {}
                                for m in walk(h.body):
                                    if m.get("k") == "assign":
                                        fld2 = self_field(m["ch"][0], j)
                                        if fld2:
                                            assigned.add(fld2)
                                        elif addr_h:
                                            assigned.update(_table_store(h, m, addr_h))
    for fld in owned:
        ok = delegated or fld in assigned
        chk.ob("O9", f.name, "init-assigns:" + fld, ok, loc=f.loc(f.body),
               detail="%s never assigns self->%s, which done() tests and releases: new()+del() frees an uninitialised pointer" % (f.name, fld),
               proof="assigned in init (or init delegates / zero-fills)")


def _field_effects(prog, g, memo):
    """(fields of param 0 that g overwrites, fields of param 0 that g releases) - own stores/releases and those of the callees
    it hands param 0 to"""
    if g.name in memo:
        return memo[g.name]
    memo[g.name] = (set(), set())
    asg, rel = set(), set()
    if g.body is None or not g.params:
        return memo[g.name]
    p0 = g.params[0]["d"]
    for x in walk(g.body):
        if x.get("k") == "assign" and x.get("op") == "=":
            fld = self_field(x["ch"][0])
            if fld is not None and X.strip(X.strip(x["ch"][0])["ch"][0]).get("d") == p0:
                asg.add(fld)
        if x.get("k") == "call":
            rk = own.release_kind(x)
            args = x["ch"][1:]
            if rk in ("free", "del") and args:
                a = args[-1] if X.callee_name(x) == "spifmem_free" else args[0]
                fld = self_field(a)
                if fld is not None:
                    rel.add(fld)
            h = prog.fn(X.callee_name(x) or "")
            if h is not None and args and X.strip(args[0]).get("d") == p0 and h is not g:
                a2, r2 = _field_effects(prog, h, memo)
                asg |= a2
                rel |= r2
    memo[g.name] = (asg, rel)
    return memo[g.name]


def check_field_overwrite(chk, prog, f, memo):
    """O11: a field of the object into which this function has stored a fresh allocation is not overwritten - by an assignment or
    by a callee that re-initialises the object without releasing (init instead of done) - while it still holds that allocation.
    May-dataflow of "self->F holds a block allocated on this path"."""
    if f.body is None or f.cfg is None or not f.params or not f.params[0].get("tp"):
        return 0
    p0 = f.params[0]["d"]

    def own_fld(e):
        fld = self_field(e)
        if fld is None:
            return None
        b = X.strip(X.strip(e)["ch"][0])
        return fld if b.get("d") == p0 else None
    if not any(x.get("k") == "assign" and own_fld(x["ch"][0]) is not None and X.strip(x["ch"][1]).get("k") == "call"
               and nullness.fresh_call(X.strip(x["ch"][1])) for x in walk(f.body)):
        return 0
    cfg = nullness.prepared_cfg(f, NORETURN)
    bad = []

    def mentions(e, fld):
        return any(own_fld(y) == fld for y in walk(e) if y.get("k") == "member")

    def transfer(st, n, blk):
        k = n.get("k")
        if k == "assign" and n.get("op") == "=" and X.strip(n["ch"][0]).get("k") == "ref":
            # tmp = REALLOC(self->f, n): the local holds the (moved) block of field f
            r_ = X.strip(n["ch"][1])
            d_ = X.strip(n["ch"][0]).get("d")
            st = frozenset(x for x in st if not (isinstance(x, tuple) and x[0] == "moved" and x[1] == d_))
            if r_ is not None and any(y_.get("k") == "call" for y_ in walk(r_)):      # REALLOC() may expand to a ?: of calls
                for fld_ in list(st):
                    if isinstance(fld_, str) and mentions(n["ch"][1], fld_):
                        st = st | {("moved", d_, fld_)}
            if own_fld(n["ch"][1]) not in st:
                return st
        if k == "assign" and n.get("op") == "=" and X.strip(n["ch"][0]).get("k") == "ref" and own_fld(n["ch"][1]) in st:
            # data = self->buff: a local now holds the block as well (it is released through the alias, which the local-leak
            # rule follows); the field is no longer the only handle
            return st - {own_fld(n["ch"][1])}
        if k == "decl":
            for dcl in n.get("decls", ()):
                if dcl.get("init") is not None and own_fld(dcl["init"]) in st:
                    st = st - {own_fld(dcl["init"])}
            return st
        if k == "assign" and n.get("op") == "=":
            fld = own_fld(n["ch"][0])
            if fld is not None:
                r = X.strip(n["ch"][1])
                if mentions(n["ch"][1], fld):
                    return st                      # self->f = REALLOC(self->f, ..): the same block, moved
                if r.get("k") == "ref" and ("moved", r.get("d"), fld) in st:
                    return st                      # tmp = REALLOC(self->f, ..); self->f = tmp;
                st = st - {fld}
                if r.get("k") == "call" and nullness.fresh_call(r):
                    st = st | {fld}
                return st
        if k == "call":
            rk = own.release_kind(n)
            args = n["ch"][1:]
            if rk in ("free", "del") and args:
                a = args[-1] if X.callee_name(n) == "spifmem_free" else args[0]
                fld = own_fld(a)
                if fld is not None:
                    return st - {fld}
            h = prog.fn(X.callee_name(n) or "")
            if h is not None and args and X.strip(args[0]).get("d") == p0:
                asg, rel = _field_effects(prog, h, memo)
                return frozenset(x for x in st if not (isinstance(x, str) and (x in rel or x in asg)))
        return st

    def visit(st, n, blk):
        k = n.get("k")
        if k == "assign" and n.get("op") == "=":
            fld = own_fld(n["ch"][0])
            if fld is not None and fld in st and not mentions(n["ch"][1], fld) and \
                    not (X.strip(n["ch"][1]).get("k") == "ref" and ("moved", X.strip(n["ch"][1]).get("d"), fld) in st):
                bad.append((n, fld, None))
        if k == "call":
            h = prog.fn(X.callee_name(n) or "")
            args = n["ch"][1:]
            if h is not None and args and X.strip(args[0]).get("d") == p0:
                asg, rel = _field_effects(prog, h, memo)
                for fld in sorted((asg - rel) & set(st)):
                    bad.append((n, fld, h.name))
    def refine(st, cond, truth, blk):
        # on a branch where the field is known to be NULL it holds nothing
        for fact in X.implied(cond, truth):
            if fact[0] == "null" and isinstance(fact[1], str) and fact[1].startswith("d%d->" % p0):
                st = st - {fact[1].split("->", 1)[1]}
        return st
    flow.forward(cfg, frozenset(), transfer, refine=refine, join=lambda a, b: a | b, visit=visit)
    flds = sorted({own_fld(x["ch"][0]) for x in walk(f.body) if x.get("k") == "assign" and own_fld(x["ch"][0]) is not None
                   and X.strip(x["ch"][1]).get("k") == "call" and nullness.fresh_call(X.strip(x["ch"][1]))})
    for fld in flds:
        b_ = [x for x in bad if x[1] == fld]
        chk.ob("O11", f.name, "held-field-overwritten:" + fld, not b_, loc=f.loc(b_[0][0]) if b_ else f.loc(f.body),
               detail="%s stores a fresh allocation into self->%s and then %s while the field still holds it: the block is leaked" % (
                   f.name, fld, ("calls %s(self), which overwrites the field without releasing it" % b_[0][2]) if b_ and b_[0][2] else "overwrites the field"),
               proof="every overwrite of self->%s after the allocation is preceded by its release (or is the reallocation of the same block)" % fld)
    return len(flds)


def run(tier="quick"):
    chk = Check("C06", level="other", tier=tier,
                explanation="OWN: release typestate of every class's done/del, ownership transfer on remove, local leak and "
                            "use-after-release dataflow over every function of the object-system units, setter and init completeness")
    for rid, txt in (("O1", "done leaves every released field NULL"), ("O2", "done releases every field a method allocates into"),
                     ("O3", "del = done then dealloc"), ("O5", "remove clears the node's data before deleting the node"),
                     ("O6", "no local allocation leaks on any path"), ("O7", "no use after release"),
                     ("O8", "object setters delete the previous object"), ("O9", "init assigns every field done releases"), ("O10", "a struct-copied duplicate shares no pointer field with its original"),
                     ("O11", "a field holding a block this function allocated is released before it is overwritten"),
                     ("O12", "a map's set() duplicates the caller's value before it releases what the pair holds")):
        chk.rule(rid, txt)
    prog = facts.extract()
    dones = [f for f in classinfo.functions_in_slot(prog, "done") if f.unit.name in FILES]
    released = {}
    for f in dones:
        flds = check_done(chk, prog, f)
        rec = classinfo.rec_of_param(f, 0)
        released.setdefault(rec, set()).update(flds)
        released[rec].update(classinfo.owned_fields(f))
        # released through a unit-local helper that is handed the address of the field (release_part(&self->proto))
        for c in X.calls_in(f.body):
            g_ = prog.fn(X.callee_name(c) or "")
            if g_ is None or g_.unit is not f.unit or g_.body is None:
                continue
            for k_, a_ in enumerate(c["ch"][1:]):
                sa_ = X.strip(a_)
                if sa_ is not None and sa_.get("k") == "un" and sa_.get("op") == "&" and self_field(sa_["ch"][0]) is not None and k_ < len(g_.params):
                    pd_ = g_.params[k_]["d"]
                    for c2 in X.calls_in(g_.body):
                        if own.release_kind(c2) in ("free", "del") and c2["ch"][1:]:
                            t_ = X.strip(c2["ch"][-1] if X.callee_name(c2) == "spifmem_free" else c2["ch"][1])
                            if t_ is not None and t_.get("k") == "ref" and t_.get("rk") == "local":
                                # released through a local that holds *param (held = *member; DEL(held))
                                ds_ = [y["ch"][1] for y in walk(g_.body) if y.get("k") == "assign" and y.get("op") == "=" and (X.strip(y["ch"][0]) or {}).get("d") == t_["d"]]
                                ds_ += [dc["init"] for y in walk(g_.body) if y.get("k") == "decl" for dc in y.get("decls", ()) if dc["d"] == t_["d"] and dc.get("init") is not None]
                                if len(ds_) == 1:
                                    t_ = X.strip(ds_[0])
                            if t_ is not None and t_.get("k") == "un" and t_.get("op") == "*" and X.strip(t_["ch"][0]).get("d") == pd_:
                                released[rec].add(self_field(sa_["ch"][0]))
        al = field_aliases(f)
        for c in X.calls_in(f.body):
            if own.release_kind(c) in ("free", "del") and c["ch"][1:]:
                s = X.strip(c["ch"][1])
                if s.get("k") == "ref" and s.get("d") in al:
                    released[rec].add(al[s["d"]])
    # O13 the same typestate for every other method of these classes: a method that releases the object one of self's fields
    # holds (to replace it) stores the field again - a new object or NULL - on every path to its return, also on the paths on
    # which it refuses to go on (a REQUIRE behind the release)
    chk.rule("O13", "a method that releases the object in one of self's fields stores that field again on every path to its return")
    n13 = 0
    done_names = {f.name for f in dones}
    for f in prog.all_functions():
        if f.unit.name not in FILES or f.body is None or f.cfg is None or not f.params or f.name in done_names or re.search(r"_del$", f.name):
            continue
        if classinfo.rec_of_param(f, 0) is None:
            continue
        if not any(own.release_kind(c) in ("free", "del") and c["ch"][1:] and any(self_field(y) is not None for y in walk(c["ch"][-1] if X.callee_name(c) == "spifmem_free" else c["ch"][1]))
                   for c in X.calls_in(f.body)):
            continue
        n13 += len(check_done(chk, prog, f, rule="O13"))
    chk.count("fields_released_by_other_methods", n13, floor=5)
    # O14 what done() tests before it releases the buffer is true whenever a buffer is held: where a class's done() releases its
    # buffer under `if (self->size)`, no method may leave the object with a buffer and size 0 (a zero-byte block from
    # malloc(0) is a real allocation) - CAP's exit states of the constructors and mutators, one obligation per exit
    chk.rule("O14", "the condition under which done() releases the buffer holds whenever the object holds a buffer")
    from .. import capdrv
    from ..cap import Cap
    n14 = 0
    for f in dones:
        rec = classinfo.rec_of_param(f, 0)
        inv = capdrv.INV.get(rec)
        if inv is None or inv.get("array") or rec in ("spif_url_t_struct", "spif_regexp_t_struct"):
            continue
        guard = None
        for c in X.calls_in(f.body):
            if own.release_kind(c) == "free" and c["ch"][1:] and self_field(c["ch"][-1] if X.callee_name(c) == "spifmem_free" else c["ch"][1]) == inv["buf"]:
                for anc in f.ancestors(c):
                    if anc.get("k") == "if" and any(y is c for y in walk(anc["then"])):
                        flds = {self_field(y) for y in walk(anc["cond"]) if self_field(y) is not None}
                        guard = "buf" if inv["buf"] in flds else ("size" if "size" in flds else guard)
                        break
        if guard != "size":
            chk.note("O14: %s releases its buffer %s" % (f.name, "whenever it is non-NULL" if guard == "buf" else "unconditionally / under a test this rule does not read"))
            continue
        saved = inv.get("release_guard")
        inv["release_guard"] = "size"
        try:
            for g in f.unit.functions.values():
                if g.body is None or g.cfg is None or not re.search(r"_(init|init_from_\w+|new|new_from_\w+|dup|trim|clear|subbuff|substr|splice|splice_from_ptr|append|prepend)$", g.name):
                    continue
                if classinfo.rec_of_param(g, 0) != rec and capdrv.rec_of_type(g.j.get("retc") or g.j.get("ret")) != rec:
                    continue
                cp = Cap(prog, noreturn=NORETURN)
                try:
                    capdrv.analyse(prog, g, cp)
                except Exception as e:
                    chk.note("O14: %s not analysed (%s)" % (g.name, str(e)[:60]))
                    continue
                obs = [o for o in cp.obls if o.kind == "relguard"]
                if not obs:
                    continue
                n14 += 1
                bad = [o for o in obs if not o.ok and not o.undecided]
                chk.ob("O14", g.name, "buffer-implies-release-guard", not bad, loc=g.loc(bad[0].node) if bad else g.loc(g.body),
                       detail="%s; witness %s" % (bad[0].detail, bad[0].witness) if bad else "",
                       proof="every exit that leaves a buffer in the object leaves size >= 1")
        finally:
            if saved is None:
                inv.pop("release_guard", None)
            else:
                inv["release_guard"] = saved
    chk.count("methods_checked_against_the_release_guard", n14)
    # O2
    stores = fresh_field_stores(prog, FILES)
    done_of = {classinfo.rec_of_param(f, 0): f for f in dones}
    n2 = 0
    for rec, flds in sorted(stores.items()):
        d = done_of.get(rec)
        if d is None:
            continue
        for fld, (fn, n) in sorted(flds.items()):
            # links to the same record (next/prev) are structure, released by the container's walk over the chain
            rj = prog.records.get(rec)
            if rj and any(x["n"] == fld and rec in (x.get("tc") or x.get("t") or "") for x in rj["fields"]):
                continue
            n2 += 1
            ok = fld in released.get(rec, set())
            chk.ob("O2", d.name, "releases:" + fld, ok, loc=d.loc(d.body),
                   detail="%s stores a fresh allocation into ->%s (%s) but %s never releases that field: leaked when the object is "
                          "emptied or deleted" % (fn.name, fld, fn.loc(n), d.name),
                   proof="%s hands self->%s to a releasing call" % (d.name, fld))
    # O10 a copy made by a whole-struct memcpy shares no pointer with its original: every pointer field of the copy (owned by
    # done or not - a list's tail is not released by done, but a tail that aliases the original's last node makes the
    # original free what the copy appended) is re-established on every path.  This is C05's D2 dataflow, claimed here for
    # its ownership consequence.
    from . import C05 as _C05
    summ5 = nullness.Summaries(prog, noreturn=NORETURN)
    nullable5 = classinfo.nullable_fields(prog)
    n10 = 0
    for f in classinfo.functions_in_slot(prog, "dup"):
        if f.unit.name not in FILES or not any(X.callee_name(c) in ("memcpy", "memmove", "__builtin_memcpy") for c in X.calls_in(f.body)):
            continue
        before = len(chk.obls)
        _C05.check_dup(chk, prog, summ5, f, nullable5)
        kept = []
        for o in chk.obls[before:]:
            if o.rule == "D2":
                o.rule = "O10"
                kept.append(o)
        chk.obls[before:] = kept
        n10 += len(kept)
    chk.count("shallow_copy_fields", n10, floor=6)
    # O3
    dels = [f for f in classinfo.functions_in_slot(prog, "del") if f.unit.name in FILES]
    for f in dels:
        check_del(chk, prog, f)
    # O5
    n5 = 0
    from ..listrules import unit_closure
    seen5 = set()
    for slot in ("remove", "remove_at"):
        for f in classinfo.functions_in_slot(prog, slot):
            if f.unit.name in ("linked_list.c", "dlinked_list.c"):
                # the removal function and the helpers it calls (an extracted unlink/release helper holds the deletion)
                for g in unit_closure(f):
                    if g.name not in seen5:
                        seen5.add(g.name)
                        n5 += check_remove(chk, prog, g)
    # O6 / O7 on every function of the anchored units
    nfun = 0
    for f in prog.all_functions():
        if f.unit.name not in FILES or f.cfg is None:
            continue
        nfun += 1
        lk = own.leaks(f, prog, NORETURN)
        if lk:
            for a, x, name, why in lk[:3]:
                chk.ob("O6", f.name, "leak:" + name, False, loc=f.loc(x),
                       detail="%s: the allocation held by local `%s` (%s) is %s" % (f.name, name, f.loc(a) if a else "?", why))
        else:
            chk.ob("O6", f.name, "leak", True, loc=f.loc(f.body), proof="every fresh local is released, returned or stored on every path")
        uaf = own.use_after_release(f, prog, NORETURN)
        for r, u, p in uaf[:3]:
            chk.ob("O7", f.name, "use-after-release:" + canon(f, u)[:40], False, loc=f.loc(u),
                   detail="%s uses %s after it was released at %s" % (f.name, X.render(u)[:50], f.loc(r) if r else "?"))
        if not uaf:
            chk.ob("O7", f.name, "use-after-release", True, loc=f.loc(f.body), proof="no use of a must-released path")
    # O12 replace-by-copy takes the copy first: in a map's set(), the duplicate of the caller's value is made before anything the
    # pair holds is released.  The getters hand out the stored objects themselves, so the caller's value can BE the value the pair
    # holds (v = get(map, k); set(map, k, v)): releasing first frees it and then duplicates freed memory.
    n12 = 0
    for f in classinfo.functions_in_slot(prog, "set"):
        if f.unit.name not in ("array.c", "linked_list.c", "dlinked_list.c") or f.body is None or len(f.params) < 3:
            continue
        vd = f.params[2]["d"]
        cfg12 = nullness.prepared_cfg(f, NORETURN)
        dups = [c for c in X.calls_in(f.body) if (X.dispatch_slot(c) == "dup" or re.search(r"_dup$", X.callee_name(c) or "")) and
                any(y.get("k") == "ref" and y.get("d") == vd for a in c["ch"][1:] for y in walk(a))]
        rels = []
        for c in X.calls_in(f.body):
            cn = X.callee_name(c) or ""
            if re.search(r"objpair_set_(value|key)$", cn) or own.release_kind(c) == "del" or X.dispatch_slot(c) == "del":
                rels.append(c)
        for d_ in dups:
            n12 += 1
            bad = [r_ for r_ in rels if r_ is not d_ and not any(y is d_ for y in walk(r_)) and cfg12.node_dominates(r_["i"], d_["i"])]
            chk.ob("O12", f.name, "copy-before-release:" + canon(f, d_)[:36], not bad, loc=f.loc(bad[0]) if bad else f.loc(d_),
                   detail="%s releases what the pair holds (%s) before it duplicates the caller's value: when the caller passes the very "
                          "object the map handed out for that key, the copy is taken from freed memory" % (f.name, X.render(bad[0])[:50] if bad else ""),
                   proof="the duplicate of the value parameter is not dominated by a release of the pair's contents")
    chk.count("replace_by_copy_sites", n12, floor=3)
    # O11 a field holding a block allocated by this function is not overwritten before it is released
    memo11 = {}
    n11 = 0
    for f in prog.all_functions():
        if f.unit.name in FILES and f.cfg is not None:
            n11 += check_field_overwrite(chk, prog, f, memo11)
    chk.count("fields_allocated_into", n11, floor=20)
    # O8
    n8 = 0
    for f in prog.all_functions():
        if f.unit.name in FILES and f.cfg is not None and "_set_" in f.name:
            if check_setter(chk, prog, f):
                n8 += 1
    # O9
    inits = [f for f in classinfo.functions_in_slot(prog, "init") if f.unit.name in FILES]
    for f in inits:
        rec = classinfo.rec_of_param(f, 0)
        check_init(chk, prog, f, sorted(released.get(rec, set())))
    chk.count("done_functions", len(dones), floor=14)
    chk.count("del_functions", len(dels), floor=14)
    chk.count("fresh_field_stores", n2, floor=10)
    chk.count("node_delete_sites_in_remove", n5, floor=2)      # at least one site: helper extraction legitimately merges the six of the reviewed tree
    chk.count("functions_leak_checked", nfun, floor=400)
    chk.count("object_setters", n8, floor=10)
    chk.count("init_functions", len(inits), floor=14)
    chk.analysed = {"units": sorted(FILES)}
    chk.assume("allocation-failure paths are outside the property's quantifier and are pruned")
    chk.assume("a local passed to an unknown callee (other than as the receiver of a method) may be kept by it (no leak reported)")
    return chk.finish()
