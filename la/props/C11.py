"""C11 — config subsystem memory safety, no unintended process spawning, temp file creation, clean lifecycle.

Decided:
  W1  all four tables (contexts, context states, file states, builtins): capacity stays above the 8-bit index
      through every doubling
  B1  CAP over the path / file / builtin helpers: every write into a fixed buffer (PATH_MAX, 256, 30, 20 kB ...)
      is bounded, string functions only read terminated buffers
  E1  process-spawning calls exist only in builtin_exec and under the %preproc test of spifconf_parse_line
  E2  builtin_exec is reachable only through the "exec" table entry and the backquote arm
  T1  spiftool_temp_file: umask(077) -> one mkstemp() -> umask restored -> fchmod(0600) before any success return
  L1  spifconf_init_subsystem resets every index/capacity the other functions modify
  L2  spifconf_free_subsystem leaves no pointer to what it released
  L3  no local allocation leaks in conf.c / file.c
  I1  no uninitialised local is used
  F1  printf-style calls pass an argument for every conversion of their literal format
"""
from .. import facts, expr as X, confrules as R, own
from ..report import Check
from ..cap import Cap
from ..capcheck import run_cap

NORETURN = {"libast_fatal_error"}
CAP_FUNCS = ["spifconf_find_file", "spifconf_open_file", "spiftool_temp_file", "builtin_random", "builtin_exec", "builtin_get",
             "builtin_put", "builtin_dirscan", "builtin_version", "builtin_appname", "spifconf_get_var", "spifconf_put_var",
             "spifconf_register_builtin", "spifconf_register_context", "spifconf_register_fstate", "spifconf_register_context_state"]


STRICT_FUNCS = {"builtin_dirscan", "builtin_exec", "spifconf_find_file", "spiftool_temp_file"}


class DriverCap(Cap):
    """the two big drivers get a wall-clock budget: what is explored within it is reported, the rest is noted as partial"""
    time_budget = 75

    def no_inline(self, fn):
        return ConfCap.no_inline(self, fn)


class ConfCap(Cap):
    def no_inline(self, fn):
        # helpers of other units are not interpreted, except the small string/file tools (spiftool_*) that store through a
        # pointer argument: their effect on the caller's buffers decides the caller's bounds (the temp-file name written back
        # into the template)
        cross = fn.unit is not self.cur_fn.unit and not (
            fn.name.startswith("spiftool_") and len(fn.nodes) < 600 and
            any(p_.get("tp") and self.may_write_through(fn, j_) for j_, p_ in enumerate(fn.params)))
        return cross or Cap.no_inline(self, fn) or fn.name in ("spifconf_shell_expand", "spifconf_parse")


def run(tier="quick"):
    chk = Check("C11", level="other", tier=tier,
                explanation="wrap evaluation, CAP on the helpers, who-may-spawn, temp-file protocol, lifecycle and leak dataflow")
    for rid, txt in (("W1", "capacity > index through every doubling"), ("B1", "fixed-buffer writes bounded"),
                     ("E1", "spawning only in builtin_exec / %preproc"), ("E2", "builtin_exec reachable only via \"exec\" and backquote"),
                     ("T1", "temp file protocol"), ("L1", "init resets every index/capacity"), ("L2", "free leaves nothing dangling"),
                     ("L3", "no local allocation leaks"), ("P8", "a stream of the file stack that was closed is replaced or popped before the function returns"), ("L5", "blocks owned by a file-stack entry are released when it is popped"), ("S1", "sizeof(T) * n byte counts use the element type of the block they size"), ("I1", "no uninitialised local")):
        chk.rule(rid, txt)
    prog = facts.extract()
    u = prog.units.get("conf.c")
    if u is None:
        raise facts.AnalysisBroken("conf.c not analysed")
    nw = R.check_wrap(chk, u)
    fns = [prog.fn(n) for n in CAP_FUNCS if prog.fn(n) is not None]
    # the functions that build text in a fixed buffer have every bound proven on the reviewed tree: for them a bound that can no
    # longer be established (an accumulation loop whose room test stopped matching what is appended) is reported (strict)
    kinds_ = {"lower", "upper", "null", "count", "cursor", "freed", "uninit", "badfree"}
    n, nund, samples = run_cap(chk, prog, [g_ for g_ in fns if g_.name not in STRICT_FUNCS], rule="B1", noreturn=NORETURN,
                               cap_factory=lambda p: ConfCap(p, noreturn=NORETURN), kinds=kinds_)
    n_s, nund_s, samples_s = run_cap(chk, prog, [g_ for g_ in fns if g_.name in STRICT_FUNCS], rule="B1", noreturn=NORETURN, strict=True,
                                     cap_factory=lambda p: ConfCap(p, noreturn=NORETURN), kinds=kinds_)
    n, nund, samples = n + n_s, nund + nund_s, samples + samples_s
    # the two big drivers: the reader loop of spifconf_parse (every bound of the line buffer) and, for spifconf_parse_line, the
    # NULL obligations only - a helper's "no such word" answer (NULL) must not reach a libc function that dereferences it; its
    # bounds depend on the caller's line buffer, which the entry contract of a bare char pointer does not describe
    big = [g_ for g_ in (prog.fn("spifconf_parse"),) if g_ is not None]
    n_b, nund_b, _sb = run_cap(chk, prog, big, rule="B1", noreturn=NORETURN, cap_factory=lambda p: DriverCap(p, noreturn=NORETURN), kinds=kinds_)
    big2 = [g_ for g_ in (prog.fn("spifconf_parse_line"),) if g_ is not None]
    n_b2, nund_b2, _sb2 = run_cap(chk, prog, big2, rule="B1", noreturn=NORETURN, cap_factory=lambda p: DriverCap(p, noreturn=NORETURN), kinds={"null"})
    n, nund = n + n_b + n_b2, nund + nund_b + nund_b2
    nsp = R.check_spawn(chk, prog, {"builtin_exec": None, "spifconf_parse_line": "preproc"})
    nex = R.check_exec_reachability(chk, prog, u)
    # S7 a built-in is selected by its whole name: the bounded comparison of a table entry's name with the text after the '%'
    # decides a call only together with the end of the other string at that length - otherwise `%e(` / `%ex(` select %exec and
    # text without %exec spawns a process
    from . import C08 as _C08
    from ..facts import walk
    chk.rule("S7", "a built-in function is selected by its whole name, not by a prefix of it")
    nbm = _C08.check_whole_name_match(chk, prog, u, field="name", rule="S7", only={"spifconf_shell_expand"} | {
        g_.name for g_ in u.functions.values() if g_.static and g_.body is not None and any(
            y.get("k") == "ref" and y.get("n") == "builtins" for y in walk(g_.body))},
        story="text that merely begins like a built-in's name (or that a built-in's name begins with) calls that built-in - `%e(cmd)` "
              "runs %exec, so text without %exec or a backquote spawns a process")
    chk.count("builtin_name_matches", nbm, floor=1)
    R.check_tempfile(chk, prog)
    ninit, nfree = R.check_lifecycle(chk, u)
    nl = 0
    for unit in ("conf.c", "file.c"):
        for f in prog.units[unit].functions.values():
            if f.cfg is None:
                continue
            nl += 1
            lk = own.leaks(f, prog, NORETURN)
            for a, x, name, why in lk[:3]:
                chk.ob("L3", f.name, "leak:" + name, False, loc=f.loc(x),
                       detail="%s: the allocation held by local `%s` (%s) is %s" % (f.name, name, f.loc(a) if a else "?", why))
            if not lk:
                chk.ob("L3", f.name, "leak", True, loc=f.loc(f.body), proof="every fresh local is released, returned or stored")
    diags = facts.clang_diagnostics(warn_flags=["-Wuninitialized", "-Wsometimes-uninitialized"], units=["conf.c", "file.c"])
    for unit, fpath, line, col, flag, msg in diags:
        chk.ob("I1", unit, "uninit:%s" % (msg.split("'")[1] if "'" in msg else msg[:30]), False, loc="src/%s:%d" % (fpath, line),
               detail="%s:%d: %s [%s]" % (fpath, line, msg, flag))
    if not diags:
        chk.ob("I1", "conf.c", "uninit", True, loc="src/conf.c", proof="clang -Wuninitialized -Wsometimes-uninitialized: no report")
    # L4 a released table entry is refilled
    nrel = R.check_release_refill(chk, u, "L4")
    chk.count("released_table_entries", nrel, floor=1)
    # F1 message formats
    nfmt = R.check_format_args(chk, [prog.units[x] for x in ("conf.c", "file.c") if x in prog.units], "F1")
    chk.count("format_call_sites", nfmt, floor=40)
    # P8 a closed stream does not stay in the file stack
    chk.count("file_stack_closes", R.check_closed_stream_replaced(chk, u, rule="P8"), floor=2)
    # L5 what a file-stack entry owns is released at its pop
    nst = R.check_stack_field_release(chk, prog, u, rule="L5")
    chk.count("owned_stack_fields", nst, floor=1)
    # S1 byte counts of block operations on the tables agree with the tables' element types
    nsz = R.check_sizeof_agreement(chk, prog, u, "S1")
    chk.count("sized_block_operations", nsz, floor=4)

    chk.count("growth_sites", nw, floor=4)
    chk.count("cap_functions", n, floor=12)
    chk.count("spawn_sites", nsp, floor=2)
    chk.count("exec_references", nex, floor=2)
    chk.count("init_reset_vars", ninit, floor=6)
    chk.count("free_released_globals", nfree, floor=4)
    chk.count("leak_checked_functions", nl, floor=25)
    chk.count("undecided_obligations", nund)
    if samples:
        chk.note("undecided: " + " | ".join(samples))
    chk.analysed = {"units": ["conf.c", "file.c", "(spawn rule: all units)"]}
    return chk.finish()
