"""C20 — debug output and assertions are gated exactly by compile-time and runtime levels.

PPMATRIX: for every compile-time DEBUG value of the matrix a probe unit that uses every macro of the
family once (argument = a marker call) is parsed with the real headers and build flags; every
entry->exit path of each probe function is enumerated (the functions are tiny and acyclic) and compared
with the decision table the property states.  PROTO: in msgs.c every output call is reachable only with
`silent` false, and the fatal path cannot return.  Nothing is executed.
"""
import os
import re

from .. import facts, expr as X, paths, nullness, flow
from ..facts import walk
from ..report import Check
from ..facts import AnalysisBroken, REPO

OUTPUT_CALLS = {"fprintf", "vfprintf", "fputs", "fputc", "fwrite", "puts", "printf", "vprintf", "putc", "putchar",
                "write", "libast_dprintf"}
DEBUG_MATRIX = [0, 1, 2, 3, 4, 5, 6, 9998, 9999, 10000]


def family(repo):
    txt = open(os.path.join(repo, "include", "libast.h"), errors="replace").read()
    dnames = sorted(set(re.findall(r"^\s*#\s*define\s+D_([A-Z0-9_]+)\(x\)", txt, re.M)))
    dnames = [d for d in dnames if not d.endswith("_IF")]
    dpn = sorted(set(int(x) for x in re.findall(r"^\s*#\s*define\s+DPRINTF([0-9])\(x\)", txt, re.M)))
    return dnames, dpn


def probe_source(dnames, dpn):
    L = ['#ifdef HAVE_CONFIG_H', '# include <config.h>', '#endif', '#include <libast_internal.h>',
         'extern int la_marker(int);', 'const int la_debug_value = DEBUG;']
    for d in dnames:
        L.append('#ifdef DEBUG_%s\nconst int la_lvl_%s = DEBUG_%s;\n#endif' % (d, d, d))
        L.append('void la_probe_D_%s(void) { D_%s(("%%d", la_marker(1))); }' % (d, d))
    for n in dpn:
        L.append('void la_probe_DPRINTF%d(void) { DPRINTF%d(("%%d", la_marker(1))); }' % (n, n))
    L.append('void la_probe_ASSERT(int x) { ASSERT(la_marker(x)); la_marker(100); }')
    L.append('int la_probe_ASSERT_RVAL(int x) { ASSERT_RVAL(la_marker(x), 77); la_marker(100); return 0; }')
    L.append('void la_probe_REQUIRE(int x) { REQUIRE(la_marker(x)); la_marker(100); }')
    L.append('int la_probe_REQUIRE_RVAL(int x) { REQUIRE_RVAL(la_marker(x), 77); la_marker(100); return 0; }')
    L.append('void la_probe_ASSERT_NOTREACHED(void) { ASSERT_NOTREACHED(); la_marker(100); }')
    L.append('int la_probe_ASSERT_NOTREACHED_RVAL(void) { ASSERT_NOTREACHED_RVAL(77); la_marker(100); return 0; }')
    return "\n".join(L) + "\n"


def level_cond(cond):
    """(op, const) if cond compares libast_debug_level with a constant, else None."""
    c = X.strip(cond)
    neg = False
    while c is not None and c.get("k") == "un" and c.get("op") == "!":      # !(level < 1) is level >= 1
        neg = not neg
        c = X.strip(c["ch"][0])
    if c is not None and c.get("k") == "bin" and c.get("op") in (">=", ">", "<", "<=", "==", "!="):
        a, b = X.strip(c["ch"][0]), X.strip(c["ch"][1])
        inv = {">=": "<", ">": "<=", "<": ">=", "<=": ">", "==": "!=", "!=": "=="}
        flip = {">=": "<=", ">": "<", "<": ">", "<=": ">=", "==": "==", "!=": "!="}
        if a.get("k") == "ref" and a.get("n") == "libast_debug_level" and X.const_val(c["ch"][1]) is not None:
            return (inv[c["op"]] if neg else c["op"]), X.const_val(c["ch"][1])
        if b.get("k") == "ref" and b.get("n") == "libast_debug_level" and X.const_val(c["ch"][0]) is not None:      # 1 <= level
            op = flip[c["op"]]
            return (inv[op] if neg else op), X.const_val(c["ch"][0])
    return None


def contains_marker(n):
    return any(c.get("callee") == "la_marker" for c in X.calls_in(n))


def level_range(conds):
    """Runtime levels (0..10001) satisfying every ('level', op, c, truth) item."""
    ok = []
    for lvl in list(range(0, 12)) + [9997, 9998, 9999, 10000, 10001]:
        good = True
        for op, c, truth in conds:
            v = {">=": lvl >= c, ">": lvl > c, "<": lvl < c, "<=": lvl <= c, "==": lvl == c, "!=": lvl != c}[op]
            if v != truth:
                good = False
                break
        if good:
            ok.append(lvl)
    return ok


def analyse_probe(fn):
    """Summarise each path: (arg truth or None, feasible runtime levels, calls in order, returned const, marker evals, unknown conds)"""
    res = []
    for p in paths.enumerate_paths(fn):
        arg = None
        lv = []
        calls = []
        ret = "fallthrough"
        unknown = []
        marker_args = []
        for ev in p:
            if ev[0] == "cond":
                lc = level_cond(ev[1])
                if lc:
                    lv.append((lc[0], lc[1], ev[2]))
                elif contains_marker(ev[1]):
                    # truth of the user's expression: strip negations
                    c = X.strip(ev[1])
                    t = ev[2]
                    while c.get("k") == "un" and c.get("op") == "!":
                        c = X.strip(c["ch"][0])
                        t = not t
                    arg = t
                else:
                    unknown.append(X.render(ev[1]))
            elif ev[0] == "call":
                calls.append(ev[1])
                if ev[1] == "la_marker":
                    marker_args.append(X.const_val(ev[2]["ch"][1]))
            elif ev[0] == "ret":
                v = ev[1].get("val")
                ret = X.const_val(v) if v is not None else "void"
        levels = level_range(lv)
        if not levels:
            continue
        res.append({"arg": arg, "levels": levels, "calls": calls, "ret": ret, "unknown": unknown,
                    "marker_args": marker_args})
    return res


def outputs(p):
    return [c for c in p["calls"] if c in OUTPUT_CALLS or c.startswith("libast_print") or c == "libast_fatal_error"]


def check_dprint(chk, name, fn, D, L, runtime_only=False):
    """D_x with level L (or DPRINTFn with n) compiled with DEBUG=D."""
    ps = analyse_probe(fn)
    site = "%s@DEBUG=%d" % (name, D)
    compiled = (D >= 1) if runtime_only else (D >= L)
    loc = fn.loc(fn.body)
    if any(p["unknown"] for p in ps):
        chk.ob("M1", name, site, False, loc=loc, detail="%s expands to a guard the matrix does not recognise: %s" % (
            name, [p["unknown"] for p in ps if p["unknown"]][0]))
        return
    if not compiled:
        bad = [p for p in ps if outputs(p) or p["marker_args"]]
        chk.ob("M1", name, site, not bad, loc=loc,
               detail="%s (level %d) compiled with DEBUG=%d must be a no-op but %s" % (
                   name, L, D, "prints" if bad and outputs(bad[0]) else "evaluates its argument"),
               proof="no output call and no argument evaluation on any of %d path(s)" % len(ps))
        return
    bad = None
    seen_levels = set()
    for p in ps:
        prints = "libast_dprintf" in p["calls"]
        evals = bool(p["marker_args"])
        for lvl in p["levels"]:
            seen_levels.add(lvl)
            want = lvl >= L
            if prints != want or evals != want or (not want and outputs(p)):
                bad = "at runtime level %d it %s (expected: %s)" % (
                    lvl, "prints" if prints else ("evaluates its argument" if evals else "is silent"),
                    "output" if want else "no output, no evaluation")
                break
        if bad:
            break
    chk.ob("M1", name, site, bad is None, loc=loc,
           detail="%s (level %d) compiled with DEBUG=%d: %s" % (name, L, D, bad),
           proof="output and argument evaluation iff runtime level >= %d over %d runtime levels, %d path(s)" % (
               L, len(seen_levels), len(ps)))


def check_assert(chk, name, fn, D, rval):
    ps = analyse_probe(fn)
    site = "%s@DEBUG=%d" % (name, D)
    loc = fn.loc(fn.body)
    notreached = "NOTREACHED" in name
    want_ret = 77 if rval else "void"
    bad = None
    if any(p["unknown"] for p in ps):
        bad = "unrecognised guard %s" % [p["unknown"] for p in ps if p["unknown"]][0]
    elif D < 1:
        if notreached:
            # compiled out: reduces to the bare return
            for p in ps:
                if outputs(p) or p["ret"] != want_ret:
                    bad = "with debugging compiled out it must be the bare return"
        else:
            for p in ps:
                if outputs(p) or p["marker_args"] != [100] or p["ret"] == 77:
                    bad = "with debugging compiled out ASSERT must vanish (no evaluation, no return, no output)"
    else:
        for p in ps:
            for lvl in p["levels"]:
                failing = notreached or p["arg"] is False
                if not failing:
                    if outputs(p) or p["ret"] == 77 or (not notreached and 100 not in p["marker_args"]):
                        bad = "a passing assertion has an effect at level %d: %s" % (lvl, p["calls"])
                elif lvl >= 1:
                    if "libast_fatal_error" not in p["calls"]:
                        bad = "failed assertion at runtime level %d does not take the fatal path (calls %s, returns %s)" % (
                            lvl, p["calls"], p["ret"])
                else:
                    # the property states warn-and-return for ASSERT/ASSERT_RVAL; for the NOTREACHED forms only the
                    # warning/fatal split is required (the void form falls through today; not part of the statement)
                    if "libast_fatal_error" in p["calls"] or "libast_print_warning" not in p["calls"] or (
                            not notreached and p["ret"] != want_ret):
                        bad = "failed assertion at runtime level 0 must warn and return %s (calls %s, returns %s)" % (
                            want_ret, p["calls"], p["ret"])
                if bad:
                    break
            if bad:
                break
        if not bad and not notreached:
            if not any(p["arg"] is False for p in ps) or not any(p["arg"] is True for p in ps):
                bad = "the asserted expression does not decide the outcome"
    chk.ob("M2", name, site, bad is None, loc=loc, detail="%s compiled with DEBUG=%d: %s" % (name, D, bad),
           proof="%d path(s): pass -> no effect; fail@0 -> warning+return; fail@>=1 -> fatal" % len(ps))


def check_require(chk, name, fn, D, rval):
    ps = analyse_probe(fn)
    site = "%s@DEBUG=%d" % (name, D)
    loc = fn.loc(fn.body)
    want_ret = 77 if rval else "void"
    bad = None
    if any(p["unknown"] for p in ps):
        bad = "unrecognised guard %s" % [p["unknown"] for p in ps if p["unknown"]][0]
    else:
        for p in ps:
            for lvl in p["levels"]:
                if p["arg"] is not False:
                    if outputs(p) or p["ret"] == 77 or 100 not in p["marker_args"]:
                        bad = "a satisfied REQUIRE has an effect"
                else:
                    if p["ret"] != want_ret or 100 in p["marker_args"]:
                        bad = "a failed REQUIRE must return %s (returns %s)" % (want_ret, p["ret"])
                    elif "libast_fatal_error" in p["calls"] or "libast_print_warning" in p["calls"]:
                        bad = "a failed REQUIRE must only return (it warns or is fatal)"
                    elif D < 1 and outputs(p):
                        bad = "with debugging compiled out REQUIRE must be the bare return"
                    elif D >= 1 and (bool(outputs(p)) != (lvl >= 1)):
                        bad = "a failed REQUIRE logs iff the runtime level is >= 1 (level %d: %s)" % (lvl, p["calls"])
                if bad:
                    break
            if bad:
                break
        if not bad and (not any(p["arg"] is False for p in ps) or not any(p["arg"] is True for p in ps)):
            bad = "the required expression does not decide the outcome"
    chk.ob("M3", name, site, bad is None, loc=loc, detail="%s compiled with DEBUG=%d: %s" % (name, D, bad),
           proof="%d path(s): ok -> no effect; fail -> return, logging iff level >= 1 and DEBUG >= 1" % len(ps))


def check_msgs(chk, prog):
    """S1: every output call in msgs.c is reachable only when `silent` is false."""
    u = prog.units.get("msgs.c")
    if u is None:
        raise AnalysisBroken("msgs.c not analysed")
    silent = None
    for g in u.all_globals:
        if g["n"] == "silent":
            silent = "d%d" % g["d"]
    if silent is None:
        raise AnalysisBroken("file-static `silent` not found in msgs.c")
    n_sites = 0
    primitives = 0

    def silent_copies(fn):
        """locals that only ever hold a copy of `silent` (quiet = silent;)"""
        res, other = set(), set()
        for x in walk(fn.body):
            pairs = []
            if x.get("k") == "assign" and x.get("op") == "=":
                l = X.strip(x["ch"][0])
                if l.get("k") == "ref" and l.get("rk") == "local":
                    pairs.append((l["d"], x["ch"][1]))
            elif x.get("k") == "assign":
                l = X.strip(x["ch"][0])
                if l.get("k") == "ref" and l.get("rk") == "local":
                    other.add(l["d"])
            if x.get("k") == "decl":
                for dcl in x.get("decls", ()):
                    if dcl.get("init") is not None:
                        pairs.append((dcl["d"], dcl["init"]))
            for d_, r_ in pairs:
                if X.apath(r_) == silent:
                    res.add(d_)
                else:
                    other.add(d_)
        return {"d%d" % d_ for d_ in res - other}

    def gated_calls(fn, wanted):
        """[(call node, gated?)] for the calls of fn whose callee is in `wanted`"""
        hits = []
        copies = silent_copies(fn)

        def visit(state, n, blk):
            if n.get("k") == "call" and X.callee_name(n) in wanted:
                hits.append((n, ("false", silent) in state or any(("false", c_) in state for c_ in copies)))
        nullness.prepared_cfg(fn, ())
        flow.forward(fn.cfg, frozenset(), nullness.transfer, refine=nullness.refine, visit=visit)
        return hits

    def helper_ok(fn, depth=0):
        """a static helper that prints is fine when every call of it inside msgs.c is gated (or sits in such a helper)"""
        if not fn.static or depth > 2:
            return False, ""
        sites = []
        for g in u.functions.values():
            if g is fn or g.cfg is None:
                continue
            sites += [(g, n, ok) for n, ok in gated_calls(g, {fn.name})]
        if not sites:
            return False, ""
        for g, n, ok in sites:
            if not ok and not helper_ok(g, depth + 1)[0]:
                return False, ""
        return True, "every call of the helper %s is gated by !silent" % fn.name
    for fn in u.functions.values():
        cfg = fn.cfg
        if cfg is None:
            continue
        hits = gated_calls(fn, OUTPUT_CALLS)
        if hits:
            primitives += 1
        hok, hwhy = (None, "")
        for n, ok in hits:
            n_sites += 1
            why = "dominated by a branch establishing !silent"
            if not ok:
                if hok is None:
                    hok, hwhy = helper_ok(fn)
                ok, why = hok, hwhy or why
            chk.ob("S1", fn.name, "silent-gate:%s" % X.callee_name(n), ok, loc=fn.loc(n),
                   detail="%s calls %s on a path where `silent` is not known to be false: output while silenced" % (
                       fn.name, X.callee_name(n)),
                   proof=why)
    chk.count("msgs_output_sites", n_sites, floor=6)
    chk.count("msgs_output_primitives", primitives, floor=4)


def run(tier="quick"):
    chk = Check("C20", level="other", tier=tier,
                explanation="PPMATRIX: decision table of every debug/assert macro over the compile-time DEBUG matrix x all runtime "
                            "levels, decided on the macro expansions' CFG paths; PROTO: !silent gating of every output call in msgs.c")
    chk.rule("M1", "D_x / DPRINTFn: output and argument evaluation iff DEBUG >= L (compiled) and runtime level >= L")
    chk.rule("M2", "ASSERT family: vanishes for DEBUG 0; else pass -> nothing, fail at level 0 -> warning + return value, fail at level >= 1 -> fatal")
    chk.rule("M3", "REQUIRE family: fail -> return value only, logging iff DEBUG >= 1 and level >= 1; bare return for DEBUG 0")
    chk.rule("M4", "compile-time threshold, runtime threshold and DEBUG_<X> constant of each D_x agree")
    chk.rule("S1", "every output call in msgs.c is dominated by !silent")
    chk.rule("S2", "libast_fatal_error cannot return (after its own argument guard)")
    repo = REPO
    dnames, dpn = family(repo)
    src = probe_source(dnames, dpn)
    scratch = facts.scratch_dir()
    probe = os.path.join(scratch, "la_probe.c")
    open(probe, "w").write(src)
    matrix = DEBUG_MATRIX if tier == "thorough" else [0, 1, 2, 3, 4, 5, 9999, 10000]
    nprobe = 0
    levels = {}
    for D in matrix:
        u = facts.extract_file(probe, config_edits={"DEBUG": D})
        g = {x["n"]: x for x in u.all_globals}
        dv = X.const_val(g["la_debug_value"]["init"]) if "la_debug_value" in g else None
        if dv != D:
            raise AnalysisBroken("probe compiled with DEBUG=%s instead of %s" % (dv, D))
        for d in dnames:
            fn = u.functions.get("la_probe_D_%s" % d)
            lv = g.get("la_lvl_%s" % d)
            if fn is None:
                continue
            # a D_x without a DEBUG_<X> level constant (D_NEVER) is output "you never want": level = infinity
            L = X.const_val(lv["init"]) if lv is not None else 1 << 30
            levels[d] = L
            check_dprint(chk, "D_%s" % d, fn, D, L)
            nprobe += 1
        for n in dpn:
            fn = u.functions.get("la_probe_DPRINTF%d" % n)
            if fn is not None:
                check_dprint(chk, "DPRINTF%d" % n, fn, D, n, runtime_only=True)
                nprobe += 1
        for nm, rv in (("ASSERT", False), ("ASSERT_RVAL", True), ("ASSERT_NOTREACHED", False), ("ASSERT_NOTREACHED_RVAL", True)):
            fn = u.functions.get("la_probe_" + nm)
            if fn is not None:
                check_assert(chk, nm, fn, D, rv)
                nprobe += 1
        for nm, rv in (("REQUIRE", False), ("REQUIRE_RVAL", True)):
            fn = u.functions.get("la_probe_" + nm)
            if fn is not None:
                check_require(chk, nm, fn, D, rv)
                nprobe += 1
    chk.count("probe_functions", nprobe, floor=len(matrix) * 20)
    chk.count("d_macros", len(dnames), floor=6)
    chk.count("dprintf_macros", len(dpn), floor=9)
    chk.count("debug_values", len(matrix), floor=8)
    # the real program: msgs.c
    prog = facts.extract(only=["msgs.c"])
    check_msgs(chk, prog)
    from .C16 import fatal_cannot_return
    o = chk.obls
    n0 = len(o)
    fatal_cannot_return(prog, chk)
    for x in o[n0:]:
        x.rule = "S2"
    # S3 the runtime level every gate reads belongs to the client: no function of the library stores to it (silencing output must
    # not change which assertions are fatal or which debug statements evaluate their arguments)
    chk.rule("S3", "no library function stores to the runtime debug level the gates read")
    full = facts.extract()
    from ..facts import walk as _walk
    writers = []
    nfn = 0
    for f_ in full.all_functions():
        if f_.body is None:
            continue
        nfn += 1
        for x in _walk(f_.body):
            if x.get("k") == "assign" or (x.get("k") == "un" and x.get("op") in ("++", "--", "&")):
                t = X.strip(x["ch"][0])
                if t is not None and t.get("k") == "ref" and t.get("rk") == "global" and t.get("n") == "libast_debug_level":
                    writers.append((f_, x))
    chk.ob("S3", "libast", "level-not-written", not writers, loc=writers[0][0].loc(writers[0][1]) if writers else "src/",
           detail="%s stores to (or takes the address of) libast_debug_level (%s): the level the ASSERT / REQUIRE / D_x gates read changes "
                  "behind the client's back" % (writers[0][0].name if writers else "", X.render(writers[0][1])[:40] if writers else ""),
           proof="%d functions of the library, none writes libast_debug_level" % nfn)
    chk.analysed = {"debug_matrix": matrix, "d_macros": {d: levels.get(d) for d in dnames}, "dprintf": dpn,
                    "units": ["la_probe.c (generated, real headers)", "msgs.c"]}
    chk.assume("the D_x level L is the header's own DEBUG_<X> constant; runtime levels sampled 0..11 and around 9999 cover every threshold in the matrix")
    return chk.finish()
