"""C19 — local sockets: descriptor ownership typestate and short-I/O accounting.

Structural clauses decided:
  F1  a descriptor field that may hold an open descriptor is never overwritten or discarded without a close of it
      on the path (no leak by overwrite)
  F2  after close(X->fd) the field is reset before the function returns (no object left referring to a closed fd)
  F3  done() closes the descriptor whenever it is open
  F4  send: the count returned by a successful write is compared with the requested length (the remainder is
      written; a short write is not reported as complete)
  F5  results of read/write/accept/... are never tested for failure through an unsigned variable
  R1  receive path: the read cursor is re-derived after every reallocation of the buffer it points into
  R2  receive path: the cursor/size advance only by a positive byte count (EINTR/EOF do not move them)
"""
import re

from .. import facts, expr as X, nullness, flow, classinfo, own, stale
from ..facts import walk, AnalysisBroken
from ..report import Check, canon

NORETURN = {"libast_fatal_error"}
FD = "fd"


def fd_path(e):
    s = X.strip(e)
    if s is not None and s.get("k") == "member" and s.get("n") == FD and s.get("arrow"):
        return X.apath(s)
    return None


def closers(prog):
    """functions f(P0, ...) that close P0->fd and reset it on every path where it was open"""
    res = set()
    for f in prog.all_functions():
        if f.unit.name != "socket.c" or not f.params:
            continue
        closes = False
        resets = False
        me_ = "d%d->fd" % f.params[0]["d"]
        # locals that hold a copy of the descriptor (sockfd = self->fd; close(sockfd);)
        copies = set()
        for n in walk(f.body):
            if n.get("k") == "assign" and n.get("op") == "=" and fd_path(n["ch"][1]) == me_ and X.strip(n["ch"][0]).get("k") == "ref":
                copies.add(X.strip(n["ch"][0])["d"])
            if n.get("k") == "decl":
                for dcl in n.get("decls", ()):
                    if dcl.get("init") is not None and fd_path(dcl["init"]) == me_:
                        copies.add(dcl["d"])
        for n in walk(f.body):
            if n.get("k") == "call" and X.callee_name(n) == "close" and n["ch"][1:]:
                p = fd_path(n["ch"][1])
                if p == me_ or X.strip(n["ch"][1]).get("d") in copies:
                    closes = True
            if n.get("k") == "assign" and fd_path(n["ch"][0]) == "d%d->fd" % f.params[0]["d"] and X.const_val(n["ch"][1]) == -1:
                resets = True
        if closes and resets and not re.search(r"_send$", f.name):
            res.add(f.name)
    return res


def analyse_fd(chk, prog, f, closer_fns, fresh_ctors):
    cfg = nullness.prepared_cfg(f, NORETURN)
    if cfg is None:
        return 0
    is_init = bool(re.search(r"_init(_|$)", f.name))
    if not is_init and f.static:
        # a static helper called only by initialisers (reset_fields(self)) works on an object that holds nothing yet
        callers_ = [g_ for g_ in f.unit.functions.values() if g_.body is not None and g_ is not f and
                    any(X.callee_name(c_) == f.name for c_ in X.calls_in(g_.body))]
        if callers_ and all(re.search(r"_init(_|$)", g_.name) for g_ in callers_):
            is_init = True
    stores = []
    raw_frees = []
    # locals that hold a socket object produced by a call (dup / new): they may own an open descriptor
    sock_locals = set()
    for x in walk(f.body):
        if x.get("k") == "assign" and x.get("op") == "=":
            l_, r_ = X.strip(x["ch"][0]), X.strip(x["ch"][1])
            if l_ is not None and l_.get("k") == "ref" and l_.get("rk") == "local" and r_ is not None and r_.get("k") == "call" and \
                    re.search(r"socket_t", (l_.get("t") or "") + (l_.get("tc") or "")) and re.search(r"spif_socket_(dup|new)", X.callee_name(r_) or ""):
                sock_locals.add(l_["d"])
    dangling_at_ret = []

    def transfer(state, n, blk):
        k = n.get("k")
        if k == "call":
            cn = X.callee_name(n)
            args = n["ch"][1:]
            if cn == "close" and args:
                p = fd_path(args[0])
                if p is None:
                    a0 = X.strip(args[0])
                    if a0.get("k") == "ref" and any(x[0] == "held" and x[1] == a0.get("d") for x in state):
                        # the descriptor that was moved out of the field into this local is released here
                        return frozenset(x for x in state if not (x[0] == "held" and x[1] == a0.get("d")))
                    for x in state:
                        if x[0] == "fdcopy" and a0.get("k") == "ref" and x[1] == a0.get("d"):
                            p = x[2]
                if p is not None:
                    return (state | {("closed", p), ("dangling", p)})
            if cn in closer_fns and args:
                p = X.apath(args[0])
                if p is not None:
                    return frozenset(x for x in state if not (x[0] == "dangling" and x[1] == p + "->fd")) | {("closed", p + "->fd")}
        if k == "assign" and n.get("op") == "=":
            p = fd_path(n["ch"][0])
            if p is not None:
                st = set(x for x in state if not (x[0] in ("closed", "dangling") and x[1] == p))
                if ("closed", p) not in state:
                    # a local that holds the field's current value takes the old descriptor over when the field is overwritten
                    for x in list(state):
                        if x[0] == "fdcopy" and x[2] == p:
                            st.discard(x)
                            st.add(("held", x[1], n["i"]))
                else:
                    st = set(x for x in st if not (x[0] == "fdcopy" and x[2] == p))
                cv = X.const_val(n["ch"][1])
                if cv is not None and cv < 0:
                    st.add(("closed", p))
                return frozenset(st)
            l = X.strip(n["ch"][0])
            if l.get("k") == "ref" and l.get("rk") == "local" and fd_path(n["ch"][1]) is not None:
                # a local copy of the descriptor value: closing the copy closes the field's descriptor
                return frozenset(x for x in state if not (x[0] == "fdcopy" and x[1] == l["d"])) | {("fdcopy", l["d"], fd_path(n["ch"][1]))}
            if l.get("k") == "ref" and l.get("rk") == "local":
                p = "d%d->fd" % l["d"]
                st = set(x for x in state if not x[1] == p)
                r = X.strip(n["ch"][1])
                if r is not None and r.get("k") == "call" and X.callee_name(r) in fresh_ctors:
                    st.add(("closed", p))
                return frozenset(st)
        return state

    def refine(state, cond, truth, blk):
        if isinstance(truth, tuple):
            return state
        st = set(state)
        for fct in X.implied(cond, truth):
            if fct[0] == "cmp":
                op, a, b = fct[1], fct[2], fct[3]
                if a.endswith("->fd") and ((op == "<" and b == "0") or (op == "<=" and b == "-1")):
                    st.add(("closed", a))
            if fct[0] == "eq" and fct[1].endswith("->fd") and fct[2] == -1:
                st.add(("closed", fct[1]))
            if fct[0] == "cmp" and ((fct[1] == "<" and fct[3] == "0") or (fct[1] == "<=" and fct[3] == "-1")):
                # the local that took a descriptor over turns out to hold none
                st = set(x for x in st if not (x[0] == "held" and "d%d" % x[1] == fct[2]))
                # a local copy of the field's current value is negative: so is the field (no open descriptor in it)
                for x in list(st):
                    if x[0] == "fdcopy" and "d%d" % x[1] == fct[2]:
                        st.add(("closed", x[2]))
        return frozenset(st)

    def join(a, b):
        # closed: must (intersection); dangling: may (union)
        return frozenset([x for x in a if x[0] in ("closed", "fdcopy") and x in b] + [x for x in (a | b) if x[0] in ("dangling", "held")])

    def visit(state, n, blk):
        if n.get("k") == "call" and own.release_kind(n) == "free" and n["ch"][1:]:
            # the raw release of a socket object (SPIF_DEALLOC / free, not del): whatever descriptor it holds is lost with it
            a0 = X.strip(n["ch"][1])
            if a0 is not None and a0.get("k") == "ref" and a0.get("rk") == "local" and a0.get("d") in sock_locals:
                p_ = "d%d->fd" % a0["d"]
                raw_frees.append((n, a0, ("closed", p_) in state))
        if n.get("k") == "assign" and n.get("op") == "=":
            p = fd_path(n["ch"][0])
            if p is not None:
                stores.append((n, p, ("closed", p) in state or any(x[0] == "fdcopy" and x[2] == p for x in state), None))
        if n.get("k") == "return":
            for x in state:
                if x[0] == "dangling":
                    dangling_at_ret.append((n, x[1]))
                if x[0] == "held":
                    stores.append((f.nodes.get(x[2], n), "d%d" % x[1], False, n))
    flow.forward(cfg, frozenset(), transfer, refine=refine, join=join, visit=visit)
    cnt = 0
    if not is_init:
        seen_st = set()
        for n, p, ok, at_ret in stores:
            if (n["i"], ok, at_ret is None) in seen_st:
                continue
            seen_st.add((n["i"], ok, at_ret is None))
            cnt += 1
            chk.ob("F1", f.name, "fd-store:" + canon(f, n)[:40], ok, loc=f.loc(n),
                   detail=("%s stores %s while the field may still hold an open descriptor that no close() on this path released: "
                           "the descriptor is leaked" % (f.name, X.render(n)[:50])) if at_ret is None else
                          ("%s overwrites the field (%s) after saving the old descriptor in a local, and returns at %s without closing "
                           "that local: the descriptor is leaked" % (f.name, X.render(n)[:50], f.loc(at_ret))),
                   proof="dominated by close()/closer call, a test fd < 0, or the object is freshly constructed")
    for n, a0, ok in raw_frees:
        cnt += 1
        chk.ob("F1", f.name, "object-freed-with-descriptor:" + canon(f, n)[:30], ok, loc=f.loc(n),
               detail="%s releases the socket object `%s` with a plain free while the descriptor it holds may still be open (it came "
                      "from a dup / constructor call and nothing on this path closed it): the descriptor is leaked - the object is "
                      "to be given to the class's del, which closes it" % (f.name, a0.get("n")),
               proof="the object's descriptor is known closed (or never opened) at the free")
    seen = set()
    for n, p in dangling_at_ret:
        if p in seen:
            continue
        seen.add(p)
        chk.ob("F2", f.name, "reset-after-close:" + p.split("->")[-1], False, loc=f.loc(n),
               detail="%s returns after close() of the descriptor without resetting the field: the object keeps referring to a closed "
                      "(soon reused) descriptor, and done()/del() will close it again" % f.name)
    has_close = any(X.callee_name(c) == "close" and c["ch"][1:] and fd_path(c["ch"][1]) for c in X.calls_in(f.body))
    if has_close and not seen:
        cnt += 1
        chk.ob("F2", f.name, "reset-after-close:fd", True, loc=f.loc(f.body), proof="every path from close(fd) to a return stores the field")
    return cnt


def check_done(chk, prog, f, closer_fns):
    cfg = nullness.prepared_cfg(f, NORETURN)
    me = "d%d->fd" % f.params[0]["d"]
    bad = []

    def transfer(state, n, blk):
        if n.get("k") == "call":
            cn = X.callee_name(n)
            args = n["ch"][1:]
            if (cn == "close" and args and fd_path(args[0]) == me) or (cn in closer_fns and args and X.apath(args[0]) == me[:-4]):
                return frozenset()
        return state

    def refine(state, cond, truth, blk):
        if isinstance(truth, tuple):
            return state
        for fct in X.implied(cond, truth):
            if fct[0] == "cmp" and fct[2] == me and ((fct[1] == "<" and fct[3] == "0") or (fct[1] == "<=" and fct[3] == "-1")):
                return frozenset()
        return state

    def visit(state, n, blk):
        if n.get("k") == "return" and ("open", me) in state:
            # returns of the NULL-guard are before any work: skip those dominated only by the guard
            if not any(m.startswith("b:ASSERT") or m.startswith("b:REQUIRE") for m in n.get("m", [])):
                bad.append(n)
    flow.forward(cfg, frozenset({("open", me)}), transfer, refine=refine, join=lambda a, b: a | b, visit=visit)
    chk.ob("F3", f.name, "done-closes-fd", not bad, loc=f.loc(bad[0]) if bad else f.loc(f.body),
           detail="%s can return with the descriptor still open (no close on a path where fd >= 0): the descriptor outlives the object" % f.name,
           proof="every path with fd >= 0 passes a closing call")


def check_send(chk, prog, f):
    """F4: the value of write() is related to the requested length."""
    writes = [c for c in X.calls_in(f.body) if X.callee_name(c) == "write"]
    if not writes:
        # the writing loop moved into a helper of the same file: the rule is decided there
        from ..listrules import unit_closure
        tot = 0
        for g_ in unit_closure(f):
            if g_ is not f and any(X.callee_name(c) == "write" for c in X.calls_in(g_.body)):
                tot += check_send(chk, prog, g_)
        if not tot:
            chk.ob("F4", f.name, "short-write", False, loc=f.loc(f.body), detail="%s performs no write()" % f.name)
        return tot
    # variables holding the result
    res_vars = set()
    for n in walk(f.body):
        if n.get("k") == "assign" and n.get("op") == "=":
            r = X.strip(n["ch"][1])
            l = X.strip(n["ch"][0])
            if r is not None and r.get("k") == "call" and X.callee_name(r) == "write" and l.get("k") == "ref":
                res_vars.add(l["d"])
        if n.get("k") == "decl":
            for d in n.get("decls", ()):
                if d.get("init") is not None:
                    r = X.strip(d["init"])
                    if r.get("k") == "call" and X.callee_name(r) == "write":
                        res_vars.add(d["d"])
    accounted = False
    for n in walk(f.body):
        # the result is compared with, subtracted from, or added to a length/cursor
        if n.get("k") == "bin" and n.get("op") in ("<", ">", "<=", ">=", "==", "!=", "-"):
            a, b = n["ch"][0], n["ch"][1]
            for x, y in ((a, b), (b, a)):
                sx = X.strip(x)
                if sx.get("k") == "ref" and sx.get("d") in res_vars and X.const_val(y) is None:
                    accounted = True
        if n.get("k") == "assign" and n.get("op") in ("+=", "-="):
            r = X.strip(n["ch"][1])
            if r.get("k") == "ref" and r.get("d") in res_vars:
                accounted = True
    chk.ob("F4", f.name, "short-write", accounted, loc=f.loc(writes[0]),
           detail="%s never relates the count returned by write() to the requested length: a short write is reported as a complete "
                  "send and the rest of the payload is dropped" % f.name,
           proof="the write() result is compared with / subtracted from the remaining length")
    return len(writes)


def run(tier="quick"):
    chk = Check("C19", level="other", tier=tier,
                explanation="descriptor typestate over socket.c (closed / maybe-open / closed-but-still-referenced), done-closes, "
                            "short-write accounting in send, unsigned result tests, and cursor validity / positive-advance rules on the "
                            "descriptor reader used by recv")
    for rid, txt in (("F1", "no overwrite/discard of a maybe-open descriptor without close"),
                     ("F2", "descriptor field reset after close before returning"), ("F3", "done closes an open descriptor"),
                     ("F4", "send accounts for short writes"), ("F6", "descriptor validity is tested as fd >= 0 / fd < 0 everywhere"), ("F5", "I/O results are not tested through unsigned variables"),
                     ("R1", "reader cursor re-derived after realloc"), ("R2", "reader advances only by positive counts")):
        chk.rule(rid, txt)
    prog = facts.extract(only=["socket.c", "str.c"])
    u = prog.units.get("socket.c")
    if u is None:
        raise AnalysisBroken("socket.c not analysed")
    closer_fns = closers(prog)
    fresh_ctors = {"spif_socket_new"}
    n_sites = 0
    for f in u.functions.values():
        n_sites += analyse_fd(chk, prog, f, closer_fns, fresh_ctors)
        for n, inner in stale.tautological_sign_tests(f):
            chk.ob("F5", f.name, "unsigned-sign-test:" + canon(f, n)[:40], False, loc=f.loc(n),
                   detail="%s tests %s, whose operand has unsigned type %s: a failed system call (-1) is never seen" % (
                       f.name, X.render(n)[:40], inner.get("t")))
    nsign = 0
    for f in u.functions.values():
        for n in walk(f.body):
            if n.get("k") == "bin" and n.get("op") in ("<", ">=") and X.const_val(n["ch"][1]) == 0:
                nsign += 1
    chk.ob("F5", "socket.c", "sign-tests", not any(o.rule == "F5" and not o.ok for o in chk.obls), loc="src/socket.c",
           proof="%d sign tests, all on signed operands" % nsign, detail="see the individual reports")
    # F6 one notion of "holds an open descriptor" everywhere: fd >= 0 (the state anchor; 0 is a valid descriptor when stdin is
    # closed).  A test that treats descriptor 0 as "none" (fd > 0, fd <= 0, plain truthiness) disagrees with its siblings: the
    # object opened on descriptor 0 can be used but is never closed / reset
    nfd = 0
    for f in u.functions.values():
        if f.body is None:
            continue
        for n in walk(f.body):
            if n.get("k") == "bin" and n.get("op") in ("<", ">", "<=", ">=", "==", "!="):
                a, b = n["ch"][0], n["ch"][1]
                op = n["op"]
                if fd_path(b) is not None and X.const_val(a) is not None:
                    a, b = b, a
                    op = {"<": ">", ">": "<", "<=": ">=", ">=": "<=", "==": "==", "!=": "!="}[op]
                if fd_path(a) is None or X.const_val(b) is None:
                    continue
                k_ = X.const_val(b)
                nfd += 1
                # accepted partitions: {fd < 0 | fd >= 0}, {fd <= -1 | fd > -1}, {fd == -1 | fd != -1}
                ok = (k_ == 0 and op in ("<", ">=")) or (k_ == -1 and op in ("<=", ">", "==", "!="))
                chk.ob("F6", f.name, "fd-validity-test:" + canon(f, n)[:40], ok, loc=f.loc(n),
                       detail="%s tests the descriptor with `%s`, which puts descriptor 0 on the `no descriptor` side (every other site uses "
                              "fd >= 0 / fd < 0): a socket that was given descriptor 0 is usable but %s refuses to treat it as open" % (
                                  f.name, X.render(n)[:40], f.name),
                       proof="partitions descriptors into < 0 and >= 0")
    chk.count("descriptor_validity_tests", nfd, floor=4)
    for f in classinfo.functions_in_slot(prog, "done"):
        if f.unit.name == "socket.c":
            check_done(chk, prog, f, closer_fns)
    # F7 an initialiser says whether the object holds a descriptor: on every path to its successful return it has stored the
    # descriptor field itself (-1 for "none", or what a system call answered) - a field left to memset / to the allocator reads
    # as descriptor 0, which done() and a later dup() then close although the object never opened it
    chk.rule("F7", "every initialiser stores the descriptor field (no descriptor = a negative value) before it reports success")
    ninit = 0
    for f in u.functions.values():
        if f.body is None or f.cfg is None or not re.search(r"^spif_socket_init(_|$)", f.name) or not f.params:
            continue
        me = "d%d->fd" % f.params[0]["d"]
        icfg = nullness.prepared_cfg(f, NORETURN)
        bad7 = []

        def t7(state, n, blk, me=me, f=f):
            if n.get("k") == "assign" and n.get("op") == "=" and fd_path(n["ch"][0]) == me:
                cv = X.const_val(n["ch"][1])
                return frozenset({("fdset",)}) if (cv is None or cv < 0) else frozenset()
            if n.get("k") == "call":
                cn = X.callee_name(n) or ""
                args = n["ch"][1:]
                if re.match(r"(__builtin_)?(___)?mem(set|cpy|move)", cn) and args and X.apath(args[0]) == me[:-4]:
                    return frozenset()               # the whole object overwritten: the field holds whatever the fill was
                if re.search(r"^spif_socket_init(_|$)", cn) and args and X.apath(args[0]) == me[:-4]:
                    return frozenset({("fdset",)})   # delegated to a sibling initialiser (checked itself)
                g_ = f.unit.functions.get(cn)
                if g_ is not None and g_.body is not None and g_ is not f and g_.static:
                    # a static helper handed self that stores the descriptor field unconditionally (reset_fields(self))
                    for j_, a_ in enumerate(args):
                        if X.apath(a_) == me[:-4] and j_ < len(g_.params):
                            mine_ = "d%d->fd" % g_.params[j_]["d"]
                            for y in walk(g_.body):
                                if y.get("k") == "assign" and y.get("op") == "=" and fd_path(y["ch"][0]) == mine_:
                                    q = g_.parent.get(y["i"])
                                    top = True
                                    while q is not None and q is not g_.body:
                                        if q.get("k") in ("if", "for", "while", "do", "switch", "cond"):
                                            top = False
                                        q = g_.parent.get(q["i"])
                                    cv_ = X.const_val(y["ch"][1])
                                    if top and (cv_ is None or cv_ < 0):
                                        return frozenset({("fdset",)})
            return state

        def v7(state, n, blk, bad7=bad7):
            if n.get("k") == "return" and n.get("val") is not None and (X.const_val(n["val"]) or 0) != 0 and ("fdset",) not in state \
                    and not any(m_.startswith("b:ASSERT") or m_.startswith("b:REQUIRE") for m_ in n.get("m", [])):
                bad7.append(n)
        flow.forward(icfg, frozenset(), t7, visit=v7)
        ninit += 1
        chk.ob("F7", f.name, "init-stores-fd", not bad7, loc=f.loc(bad7[0]) if bad7 else f.loc(f.body),
               detail="%s reports success on a path on which it has not stored the descriptor field (or stored a non-negative constant): a "
                      "socket without a descriptor must say fd < 0, otherwise it claims descriptor 0 and done() / a dup() of it close a "
                      "descriptor the object never opened" % f.name,
               proof="a store of a negative constant (or of a system call's answer) to fd reaches every successful return")
    chk.count("socket_initialisers", ninit, floor=2)
    # F8 the object's record of the descriptor's blocking mode stays in step with the descriptor: a function that reports it has
    # switched the mode (set_nbio / clear_nbio) has updated the NBIO flag on every path to that answer - accept() copies the flag
    # to the accepted socket and recv() stops at the first EAGAIN of a socket marked non-blocking
    chk.rule("F8", "set_nbio / clear_nbio update the object's NBIO flag on every successful path")
    nmode = 0
    for f in u.functions.values():
        if f.body is None or f.cfg is None or not re.search(r"_(set|clear)_nbio$", f.name) or not f.params:
            continue
        me8 = "d%d->flags" % f.params[0]["d"]
        cfg8 = nullness.prepared_cfg(f, NORETURN)
        bad8 = []

        def t8(state, n, blk, me8=me8):
            if n.get("k") == "assign" and X.apath(n["ch"][0]) == me8:
                return frozenset({("flagged",)})
            return state

        def v8(state, n, blk, bad8=bad8):
            if n.get("k") == "return" and n.get("val") is not None and (X.const_val(n["val"]) or 0) != 0 and ("flagged",) not in state \
                    and not any(m_.startswith("b:ASSERT") or m_.startswith("b:REQUIRE") for m_ in n.get("m", [])):
                bad8.append(n)
        flow.forward(cfg8, frozenset(), t8, visit=v8)
        nmode += 1
        chk.ob("F8", f.name, "mode-flag-updated", not bad8, loc=f.loc(bad8[0]) if bad8 else f.loc(f.body),
               detail="%s reports success on a path on which it has not stored the object's flags: the NBIO flag no longer says what mode "
                      "the descriptor is in, an accepted socket inherits the wrong mode and recv() on it stops at the first EAGAIN" % f.name,
               proof="a store to self->flags reaches every successful return")
    chk.count("blocking_mode_functions", nmode, floor=2)
    send = prog.need("spif_socket_send")
    nw = check_send(chk, prog, send)
    # receive path
    recv = prog.need("spif_socket_recv")
    # the functions of str.c that recv reaches (however many helpers deep) and that call read() themselves
    readers, seen_r, work_r = [], set(), [recv]
    while work_r:
        cur = work_r.pop()
        for c in X.calls_in(cur.body):
            g = prog.fn(X.callee_name(c) or "")
            if g is not None and g.body is not None and g.unit.name == "str.c" and g.name not in seen_r:
                seen_r.add(g.name)
                readers.append(g)
                work_r.append(g)
    readers = [g for g in readers if any(X.callee_name(c) == "read" for c in X.calls_in(g.body))]
    for g in readers:
        su = stale.stale_uses(g, NORETURN)
        for r, uq, name in su[:3]:
            chk.ob("R1", g.name, "stale-cursor:" + name, False, loc=g.loc(uq),
                   detail="%s uses cursor `%s` after the buffer it points into was reallocated at %s without re-deriving it: "
                          "received bytes are written through a dangling pointer" % (g.name, name, g.loc(r) if r else "?"))
        if not su:
            chk.ob("R1", g.name, "stale-cursor", True, loc=g.loc(g.body), proof="every cursor is re-derived after realloc")
        adv = stale.unguarded_io_advances(g, NORETURN)
        for io, up, name in adv[:3]:
            chk.ob("R2", g.name, "advance:" + canon(g, up)[:40], False, loc=g.loc(up),
                   detail="%s advances %s by the result `%s` of %s() on a path where it may be -1 (EINTR) or 0: the stream is corrupted "
                          "or truncated" % (g.name, X.render(up["ch"][0]), name, X.callee_name(io)))
        if not adv:
            chk.ob("R2", g.name, "advance", True, loc=g.loc(g.body), proof="every additive update by a read() result is dominated by n > 0")
    chk.count("fd_store_and_close_sites", n_sites, floor=6)
    chk.count("closer_functions", len(closer_fns), floor=1)
    chk.count("write_calls_in_send", nw, floor=1)
    chk.count("descriptor_readers", len(readers), floor=1)
    chk.analysed = {"units": ["socket.c", "str.c"], "closers": sorted(closer_fns), "readers": [g.name for g in readers]}
    chk.assume("a socket object returned by spif_socket_new() holds no descriptor; init functions initialise the field")
    return chk.finish()
