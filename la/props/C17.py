"""C17 — version comparison is a safe, deterministic order.

Decided:
  B1  CAP (strict): every write into the two 128-byte scratch buffers is bounded whatever the length of a run, the
      input cursors never pass the terminator, and a buffer is read as a string only where a terminator has been
      written into it on that path (so the result never depends on stack contents)
  P1  every way round every loop advances a cursor (termination)
  E1  purity: the function and its callees read no static/global state other than the runtime debug level, and call
      only pure library functions — together with B1 the result depends on the arguments alone
  X1  numeric components are not ordered through a wrapping difference or a narrowed conversion of the digit runs
  B2  CAP over the libast output primitives it calls (libast_dprintf): their buffer accesses are bounded
Not decided: antisymmetry and the ordering of well-formed versions (values)."""
import re

from .. import facts, expr as X, nullness
from ..facts import walk
from ..report import Check, canon
from ..cap import Cap
from ..capcheck import run_cap
from ..models import PURE_LIBC

NORETURN = {"libast_fatal_error"}
ALLOWED_GLOBALS = {"libast_debug_level", "stderr"}
ALLOWED_CALLS = PURE_LIBC | {"libast_dprintf", "fprintf", "spiftool_downcase_str", "spiftool_upcase_str", "libast_print_warning",
                             "libast_fatal_error", "strcoll", "strtoul"}


class ProgressCap(Cap):
    check_progress = True


def run(tier="quick"):
    chk = Check("C17", level="other", tier=tier,
                explanation="CAP (strict, with loop-progress obligations) over spiftool_version_compare and its callees; purity by "
                            "global-reference and callee inspection")
    chk.rule("B1", "scratch-buffer writes bounded, cursors inside the inputs, buffers read only after being terminated")
    chk.rule("P1", "every loop makes progress")
    chk.rule("U2", "scratch buffers are terminated afresh in the iteration that reads them")
    chk.rule("X1", "numeric components are not ordered through a wrapping difference / narrowed conversion")
    chk.rule("E1", "no global state, only pure callees")
    chk.rule("B2", "the trace-output primitives called on its behalf keep every access inside their own buffers")
    prog = facts.extract(only=["strings.c", "msgs.c"])
    f = prog.need("spiftool_version_compare")
    holder = []

    def factory(p):
        c = ProgressCap(p, noreturn=NORETURN)
        holder.append(c)
        return c
    n, nund, samples = run_cap(chk, prog, [f], rule="B1", noreturn=NORETURN, strict=True, cap_factory=factory,
                               kinds={"lower", "upper", "null", "count", "cursor", "freed", "uninit"})
    # progress obligations are reported under P1
    cp = holder[0]
    nloops = 0
    for o in cp.obls:
        if o.kind == "progress":
            nloops += 1
            if not o.ok and any((X.callee_name(c_) or "") in f.unit.functions for c_ in X.calls_in(o.node)):
                # the cursor is advanced by a helper of the same file: whether it advances is a question about the helper's
                # result that the loop-progress rule does not decide
                chk.note("P1: progress of the loop at %s goes through a helper call; not decided" % f.loc(o.node))
                continue
            chk.ob("P1", f.name, "progress:loop@%s" % ("outer" if o.node.get("l") == min(x.node.get("l") for x in cp.obls if x.kind == "progress") else "inner%d" % nloops),
                   o.ok, loc=f.loc(o.node), detail="%s: %s" % (f.name, o.detail), proof="a cursor strictly advances on every path through the body")
        if o.kind == "unterminated" and not o.ok:
            m_ = re.match(r"string function reads (\w+)", o.detail or "")
            scratch_ = {v.get("n") for v in f.vardecls.values() if v.get("alen")}
            if o.undecided and not (m_ and m_.group(1) in scratch_):
                # an input string whose terminator the (partial) exploration lost track of: not a scratch buffer, not decided
                chk.note("B1: terminator of %s not tracked at %s; not decided" % (m_.group(1) if m_ else "a string", f.loc(o.node)))
                continue
            chk.ob("B1", f.name, "read-before-write:" + X.render(o.node)[:30], False, loc=f.loc(o.node),
                   detail="%s reads a scratch buffer as a string on a path where nothing terminated it: the result depends on stack contents" % f.name)
    # U2 every run is compared on its own: a scratch buffer that the main loop fills through a cursor is terminated afresh in the
    # iteration that reads it - each read of the buffer as a string is dominated by a store of 0 through a cursor of that buffer
    # made inside the loop.  Otherwise a run shorter than an earlier one keeps the earlier run's tail ("10" then "9" reads "90").
    ccfg = nullness.prepared_cfg(f, NORETURN)
    arrays = {d for d, v in f.vardecls.items() if v.get("alen") and (v.get("esz") or 1) == 1}
    nu2 = 0
    done_helpers = set()
    for A in sorted(arrays):
        def is_A(e, A=A):
            e = X.strip(e)
            return e is not None and e.get("k") == "ref" and e.get("d") == A
        cursors = set()
        for d, v in f.vardecls.items():
            if v.get("tp") and v.get("init") is not None and is_A(v["init"]):
                cursors.add(d)
        for x in walk(f.body):
            if x.get("k") == "assign" and x.get("op") == "=" and is_A(x["ch"][1]):
                l = X.strip(x["ch"][0])
                if l.get("k") == "ref" and l.get("tp"):
                    cursors.add(l["d"])

        def zero_valued(e):
            e = X.strip(e)
            if e is None:
                return False
            if X.const_val(e) == 0:
                return True
            return e.get("k") == "assign" and e.get("op") == "=" and zero_valued(e["ch"][1])
        terms = []
        for x in walk(f.body):
            if x.get("k") == "assign" and x.get("op") == "=" and zero_valued(x["ch"][1]):
                l = X.strip(x["ch"][0])
                if l.get("k") in ("un", "index") and (l.get("op") == "*" or l.get("k") == "index"):
                    if any(y.get("k") == "ref" and (y.get("d") in cursors or y.get("d") == A) for y in walk(l["ch"][0])):
                        terms.append(x)
        outer = [lp for lp in walk(f.body) if lp.get("k") in ("for", "while", "do")]
        outer = [lp for lp in outer if not any(lp is not o and any(y is lp for y in walk(o.get("body") or {})) for o in outer)]
        for lp in outer:
            body_ids = {y["i"] for y in walk(lp.get("body") or {})}
            uses = []
            COPY_INTO = ("memcpy", "memmove", "memset", "strncpy", "__builtin_memcpy", "__builtin___memcpy_chk", "__builtin___memmove_chk",
                         "__builtin___memset_chk", "__builtin___strncpy_chk")
            block_fills = []
            for c in X.calls_in(lp.get("body") or {}):
                for j_, a in enumerate(c["ch"][1:]):
                    if is_A(a) or (X.strip(a) is not None and X.strip(a).get("k") == "ref" and X.strip(a).get("d") in cursors):
                        if j_ == 0 and X.callee_name(c) in COPY_INTO:
                            block_fills.append(c)       # the buffer is the destination of a counted copy: a fill, not a read
                            continue
                        uses.append(c)
            writes = set()
            for x in walk(lp.get("body") or {}):
                if x.get("k") == "assign":
                    l = X.strip(x["ch"][0])
                    if l.get("k") in ("un", "index"):
                        for y in walk(l):
                            writes.add(y["i"])
            for x in walk(lp.get("body") or {}):
                if x.get("k") == "un" and x.get("op") == "*" and x["i"] not in writes and any(
                        y.get("k") == "ref" and y.get("d") in cursors for y in walk(x["ch"][0])):
                    # a read through a cursor that is only ever used for reading (n1 = buff1; *n1 == '0')
                    cd = [y["d"] for y in walk(x["ch"][0]) if y.get("k") == "ref" and y.get("d") in cursors]
                    if not any(y.get("k") == "ref" and y.get("d") in cd and y["i"] in writes for y in walk(lp.get("body") or {})):
                        uses.append(x)
            filled = bool(block_fills) or any(y["i"] in writes and y.get("k") == "ref" and (y.get("d") in cursors or y.get("d") == A) for y in walk(lp.get("body") or {}))
            if not filled:
                # the run is copied by a unit-local helper that is handed the buffer: the helper terminates what it wrote on
                # every return (same obligation, stated inside the helper)
                for c in X.calls_in(lp.get("body") or {}):
                    g = f.unit.functions.get(X.callee_name(c) or "")
                    if g is None or g.body is None or g.cfg is None or (g.name, A) in done_helpers:
                        continue
                    for j, a in enumerate(c["ch"][1:]):
                        if not is_A(a) or j >= len(g.params):
                            continue
                        pd = g.params[j]["d"]
                        root = {pd}
                        for d2, v2 in g.vardecls.items():
                            if v2.get("tp") and v2.get("init") is not None and any(y.get("k") == "ref" and y.get("d") in root for y in walk(v2["init"])):
                                root.add(d2)
                        stores, zstores = [], []
                        for x in walk(g.body):
                            if x.get("k") == "assign" and x.get("op") == "=":
                                l = X.strip(x["ch"][0])
                                if l.get("k") in ("un", "index") and any(y.get("k") == "ref" and y.get("d") in root for y in walk(l["ch"][0])):
                                    (zstores if zero_valued(x["ch"][1]) else stores).append(x)
                        if not stores:
                            continue
                        done_helpers.add((g.name, A))
                        gcfg = nullness.prepared_cfg(g, NORETURN)
                        rets = [x for x in walk(g.body) if x.get("k") == "return"]
                        bad = [r for r in rets if not any(gcfg.node_dominates(z["i"], r["i"]) for z in zstores)]
                        nu2 += 1
                        chk.ob("U2", g.name, "fresh-terminator:%s" % g.params[j]["n"], bool(rets) and not bad, loc=g.loc(bad[0]) if bad else g.loc(g.body),
                               detail="%s copies a run into the scratch buffer it is handed and returns without terminating it on some path: "
                                      "%s then reads the tail of an earlier, longer run" % (g.name, f.name),
                               proof="a store of 0 through the buffer parameter dominates every return")
                continue
            for u_ in uses:
                nu2 += 1
                ok = any(t["i"] in body_ids and ccfg.node_dominates(t["i"], u_["i"]) for t in terms)
                chk.ob("U2", f.name, "fresh-terminator:%s@%s" % (f.vardecls[A]["n"], canon(f, u_)[:30]), ok, loc=f.loc(u_),
                       detail="%s reads the scratch buffer `%s` as a string (%s) without a terminator stored in this iteration of the main "
                              "loop: a run shorter than an earlier one keeps the earlier run's tail, so the comparison depends on what "
                              "was compared before (\"1.10.9\" vs \"1.10.10\")" % (f.name, f.vardecls[A]["n"], X.render(u_)[:40]),
                       proof="a store of 0 through a cursor of the buffer, inside the loop, dominates the read")
    chk.count("scratch_buffer_reads", nu2, floor=2)
    # X1 numeric runs are ordered numerically for every length: the sign idiom must not be applied to a difference of two values
    # obtained from an unbounded conversion (strtol, atoi ...), and such a value must not be narrowed first - both wrap for
    # components >= 2^31 and the order of the versions comes out wrong
    from . import C05 as _C05
    nx = 0
    conv = ("strtol", "strtoul", "atoi", "atol", "strtoll", "strtoull")

    def conv_defs(d):
        out = []
        for x in walk(f.body):
            rhs = None
            if x.get("k") == "assign" and x.get("op") == "=" and X.strip(x["ch"][0]).get("d") == d:
                rhs = x["ch"][1]
            if x.get("k") == "decl":
                for dcl in x.get("decls", ()):
                    if dcl["d"] == d and dcl.get("init") is not None:
                        rhs = dcl["init"]
            if rhs is not None and any(X.callee_name(c) in conv for c in X.calls_in(rhs)):
                out.append((x, rhs))
        return out
    for x in walk(f.body):
        si = _C05.sign_idiom(x)
        if si is None:
            continue
        op = X.strip(si[0])
        if op.get("k") == "bin" and op.get("op") == "-":
            a, b = X.strip(op["ch"][0]), X.strip(op["ch"][1])
            if a.get("k") == "ref" and b.get("k") == "ref":
                da, db = conv_defs(a["d"]), conv_defs(b["d"])
                if da or db:
                    nx += 1
                    narrowed = any((X.strip(r, keep_int_casts=True).get("tw") or 64) < 64 for _, r in da + db)
                    chk.ob("X1", f.name, "numeric-order-by-difference:" + canon(f, op)[:30], False, loc=f.loc(x),
                           detail="%s orders two numeric components by the sign of %s, where the operands are unbounded conversions of "
                                  "the digit runs%s: for components >= 2^31 the value or the difference wraps and the larger number "
                                  "is reported smaller (e.g. 3000000000 vs 1)" % (f.name, X.render(op)[:30], " narrowed to 32 bits" if narrowed else ""))
    if not nx:
        chk.ob("X1", f.name, "numeric-order-by-difference", True, loc=f.loc(f.body),
               proof="no sign test of a difference of converted digit runs")
    # purity
    fns = [f] + [prog.fn(X.callee_name(c)) for c in X.calls_in(f.body)
                 if prog.fn(X.callee_name(c) or "") is not None and prog.fn(X.callee_name(c)).unit is f.unit]
    bad_g, bad_c = [], []
    for g in fns:
        for x in walk(g.body):
            if x.get("k") == "ref" and x.get("rk") in ("global", "slocal") and x.get("n") not in ALLOWED_GLOBALS:
                # read-only data (a const table of words and ranks) is not state
                gt = (x.get("tc") or "") + " " + (x.get("t") or "")
                decl_t = " ".join((gd.get("tc") or "") + " " + (gd.get("t") or "") for gd in g.unit.all_globals if gd.get("n") == x.get("n"))
                if re.search(r"\bconst\b", gt + " " + decl_t):
                    continue
                bad_g.append((g, x))
            if x.get("k") == "call":
                cn = X.callee_name(x)
                if cn is None or (cn not in ALLOWED_CALLS and prog.fn(cn) is None and not cn.startswith("__")):
                    # a libc copy whose destination is one of the function's own arrays changes no state outside the call
                    a0_ = X.strip(x["ch"][1]) if x["ch"][1:] else None
                    while a0_ is not None and a0_.get("k") in ("un", "index") and (a0_.get("op") == "&" or a0_.get("k") == "index"):
                        a0_ = X.strip(a0_["ch"][0])
                    if cn in ("memcpy", "memmove", "memset", "strncpy", "strcpy", "__builtin_memcpy", "__builtin___memcpy_chk", "__builtin___memmove_chk",
                              "__builtin___memset_chk", "__builtin___strncpy_chk", "__builtin___strcpy_chk") and a0_ is not None and \
                            a0_.get("k") == "ref" and a0_.get("rk") == "local" and (g.vardecls.get(a0_.get("d")) or {}).get("alen"):
                        continue
                    bad_c.append((g, x))
    chk.ob("E1", f.name, "no-global-state", not bad_g, loc=bad_g[0][0].loc(bad_g[0][1]) if bad_g else f.loc(f.body),
           detail="%s reads or writes global/static `%s`: the result can depend on earlier calls" % (f.name, bad_g[0][1].get("n") if bad_g else ""),
           proof="only parameters, locals and the runtime debug level are referenced")
    chk.ob("E1", f.name, "pure-callees", not bad_c, loc=bad_c[0][0].loc(bad_c[0][1]) if bad_c else f.loc(f.body),
           detail="%s calls %s, which is not a known pure function" % (f.name, X.callee_name(bad_c[0][1]) if bad_c else ""),
           proof="callees are pure libc functions, the case helpers and debug output")
    # B2 the libast output primitives the comparison calls (its trace output) stay inside their own buffers as well: "without
    # touching memory outside its arguments and locals" covers what runs on its behalf
    outs, seen_o = [], set()
    for c in X.calls_in(f.body):
        g = prog.fn(X.callee_name(c) or "")
        if g is not None and g.unit is not f.unit and g.name not in seen_o and g.name not in NORETURN:
            seen_o.add(g.name)
            outs.append(g)
    if outs:
        n2, nund2, _s2 = run_cap(chk, prog, outs, rule="B2", noreturn=NORETURN, kinds={"lower", "upper", "null", "count", "freed"})
        nund += nund2
    chk.count("output_primitives_analysed", len(outs), floor=1 if str(prog.config.get("DEBUG", "4")) != "0" else None)
    chk.count("loops_with_progress_obligation", nloops, floor=5)
    chk.count("undecided_obligations", nund)
    chk.analysed = {"units": ["strings.c", "msgs.c"], "functions": [g.name for g in fns] + [g.name for g in outs]}
    chk.assume("both arguments are NUL-terminated strings; libc ctype and strcmp/strtol are pure")
    return chk.finish()
