"""C07 — mbuff objects are faithful byte-sequence values: same rule set as C01 with the mbuff invariant
(buff NULL, len = size = 0) or (0 <= len <= size <= capacity), plus scan-loop bounds."""
from . import C01


def run(tier="quick"):
    return C01.run(tier=tier, prop="C07", units=["mbuff.c"])
