"""C08 — option parser: assigns only what the command line says, terminates, stays inside argv.

Decided (structure of options.c):
  M1  the boolean handler touches its target only with  |= mask  and  &= ~mask  (its own mask bits)
  M2  every store through an option's value pointer and every abstract-handler call is controlled by the pass test
      SHOULD_PARSE(j) - in the handler itself or at every one of its call sites (options of the other pass are left alone)
  M3  every way round the main loop advances the argument index or the letter cursor (termination for arbitrary
      argument vectors, including options missing their value)
  N1  the letter cursor never passes the terminator of its argument (lone '-', last letter of a bundle)
  M5  argv compaction: writes argv[j] only with j <= i < argc and terminates the vector
Not decided: final variable values, ordering, the word-count agreement of argument lists."""
from .. import facts, expr as X, nulcursor, nullness, flow, loopstate
from ..facts import walk
from ..report import Check, canon

NORETURN = {"libast_fatal_error"}


def in_should_parse(f, node):
    """node is controlled by the pass test: in the then-arm of if (SHOULD_PARSE(..)), or after an
    `if (!SHOULD_PARSE(..)) return ...;` earlier in an enclosing block"""
    child = node
    for anc in f.ancestors(node):
        if anc.get("k") == "if":
            inthen = any(y is node for y in walk(anc["then"]))
            c = X.strip(anc["cond"])
            neg = c.get("k") == "un" and c.get("op") == "!"
            if inthen and is_sp(anc["cond"]) and not neg:
                return True
            if (not inthen) and anc.get("else") is not None and is_sp(anc["cond"]) and neg:
                return True
        if anc.get("k") == "block":
            for s_ in anc.get("ch", []):
                if s_ is child or any(y is child for y in [s_]):
                    break
                if s_.get("k") == "if" and is_sp(s_["cond"]):
                    c = X.strip(s_["cond"])
                    if c.get("k") == "un" and c.get("op") == "!" and always_returns(s_["then"]):
                        return True
        child = anc
    return False


def value_aliases(f):
    """locals holding the option's value pointer (T *p = (T *) SPIFOPT_OPT_VALUE(n))"""
    al = set()
    for d, v in f.vardecls.items():
        if v.get("init") is not None and any(x.get("k") == "member" and x.get("n") == "value" for x in walk(v["init"])):
            al.add(d)
    for n in walk(f.body):
        if n.get("k") == "assign" and n.get("op") == "=":
            l = X.strip(n["ch"][0])
            if l.get("k") == "ref" and l.get("rk") == "local" and l.get("tp") and any(
                    x.get("k") == "member" and x.get("n") == "value" for x in walk(n["ch"][1])):
                al.add(l["d"])
    return al


def value_store(n, aliases=()):
    """assignment through the option's value pointer:  *((T *) opt.value) op= ...  (or through a local holding that pointer)"""
    if n.get("k") != "assign":
        return False
    l = X.strip(n["ch"][0])
    if l.get("k") in ("un", "index") and (l.get("op") == "*" or l.get("k") == "index"):
        if any(x.get("k") == "member" and x.get("n") == "value" for x in walk(l)):
            return True
        return any(x.get("k") == "ref" and x.get("d") in aliases for x in walk(l["ch"][0]))
    return False


def is_sp(cond):
    return any(m.endswith(":SHOULD_PARSE") for x in walk(cond) for m in x.get("m", []))


def always_returns(stmt):
    k = stmt.get("k")
    if k == "return":
        return True
    if k == "block":
        ch = stmt.get("ch", [])
        return bool(ch) and always_returns(ch[-1])
    if k == "if":
        return stmt.get("else") is not None and always_returns(stmt["then"]) and always_returns(stmt["else"])
    if k == "do":
        return always_returns(stmt["body"])
    return False


def run(tier="quick"):
    chk = Check("C08", level="other", tier=tier,
                explanation="mask-only stores, pass-test control of every target store / handler call, loop-progress must-dataflow, "
                            "letter-cursor typestate, argv compaction shape")
    for rid, txt in (("M1", "boolean handler only ORs / AND-NOTs its mask"), ("M2", "target stores and handler calls are under SHOULD_PARSE"),
                     ("M3", "every way round the main loop advances"), ("M6", "per-word state (long/equal flags, value pointer) does not survive an iteration"), ("N1", "letter cursor never passes the terminator"),
                     ("M5", "argv compaction stays inside argv and terminates it")):
        chk.rule(rid, txt)
    prog = facts.extract(only=["options.c"])
    u = prog.units["options.c"]
    hb = prog.need("handle_boolean")
    parse = prog.need("spifopt_parse")
    # M1
    n1 = 0
    hb_al = value_aliases(hb)
    for n in walk(hb.body):
        if value_store(n, hb_al):
            n1 += 1
            op = n.get("op")
            rhs = X.strip(n["ch"][1])
            mask_in = any(x.get("k") == "member" and x.get("n") == "mask" for x in walk(n["ch"][1]))
            ok = (op == "|=" and mask_in and rhs.get("k") != "un") or (op == "&=" and mask_in and rhs.get("k") == "un" and rhs.get("op") == "~")
            chk.ob("M1", hb.name, "mask-store:" + canon(hb, n)[:40], ok, loc=hb.loc(n),
                   detail="handle_boolean stores %s: a boolean option must only set (|= mask) or clear (&= ~mask) its own mask bits" % X.render(n)[:70],
                   proof="|= mask / &= ~mask")
    # M2
    n2 = 0
    callers = {}
    for f in u.functions.values():
        for c in X.calls_in(f.body):
            cn = X.callee_name(c)
            if cn in u.functions:
                callers.setdefault(cn, []).append((f, c))
    for f in u.functions.values():
        f_al = value_aliases(f)
        for n in walk(f.body):
            is_store = value_store(n, f_al)
            is_handler_call = False
            if n.get("k") == "call" and not X.callee_name(n):
                is_handler_call = any(x.get("k") == "member" and x.get("n") == "value" for x in walk(n["ch"][0]))
            if not (is_store or is_handler_call):
                continue
            n2 += 1
            ok = in_should_parse(f, n)
            how = "guarded in %s" % f.name
            if not ok and f.name in callers:
                ok = all(in_should_parse(g, c) for g, c in callers[f.name])
                how = "every call site of %s is guarded" % f.name
            chk.ob("M2", f.name, ("store:" if is_store else "call:") + canon(f, n)[:40], ok, loc=f.loc(n),
                   detail="%s %s outside the pass test SHOULD_PARSE(): an option of the other pass (pre-parse vs. normal) is assigned or its "
                          "handler is run in the wrong pass" % (f.name, "stores through the option's value pointer" if is_store else "calls the option's handler"),
                   proof=how)
    # M3 loop progress
    idx_i = parse.params and None
    i_d = o_d = None
    for d, v in parse.vardecls.items():
        if v["n"] == "i":
            i_d = d
        if v["n"] == "opt":
            o_d = d
    loops = [n for n in walk(parse.body) if n.get("k") == "for"]
    if i_d is None or o_d is None or not loops:
        raise facts.AnalysisBroken("main loop / cursor of spifopt_parse not identified")
    main = loops[0]
    cfg = nullness.prepared_cfg(parse, NORETURN)
    body_ids = {x["i"] for x in walk(main["body"])}
    cond_ids = {x["i"] for x in walk(main["cond"])} if main.get("cond") is not None else set()
    conts = []

    def tr(state, n, blk):
        if n["i"] in cond_ids:
            return frozenset()          # a new round starts: nothing advanced yet
        if n["i"] not in body_ids:
            return state
        k = n.get("k")
        t = None
        if k == "un" and n.get("op") in ("++",):
            t = X.strip(n["ch"][0])
        elif k == "assign" and n.get("op") in ("=", "+="):
            t = X.strip(n["ch"][0])
        if t is not None and t.get("k") == "ref" and t.get("d") in (i_d, o_d):
            # i-- (boolean re-parse) is not progress
            return state | {("adv",)}
        return state
    # ends of a round: evaluation of the loop condition again
    ends = []

    def vis(state, n, blk):
        if n["i"] in cond_ids and n is X.strip(main["cond"]) or (n["i"] in cond_ids and n.get("i") == main["cond"]["i"]):
            ends.append((n, state, blk))
    # collect predecessor states of the condition block instead: run forward and inspect in-states of blocks that evaluate the cond
    ins = flow.forward(cfg, frozenset({("adv",)}), tr)
    cond_blocks = [b for b, blk in cfg.blocks.items() if any(e in cond_ids for e in blk.el)]
    bad_round = []

    def out_state(p):
        st = ins[p]
        for e in cfg.blocks[p].el:
            nd = parse.nodes.get(e)
            if nd is not None:
                st = tr(st, nd, cfg.blocks[p])
        return st

    def offenders(p, seen):
        """walk back through element-less collector blocks to the block that ends the round without advancing"""
        if p in seen or p not in ins:
            return
        seen.add(p)
        if ("adv",) in out_state(p):
            return
        if not cfg.blocks[p].el:
            for q in cfg.blocks[p].pred:
                offenders(q, seen)
            return
        last = [parse.nodes.get(e) for e in cfg.blocks[p].el if parse.nodes.get(e) is not None]
        bad_round.append(last[-1] if last else main)
    for b in cond_blocks:
        for p in cfg.blocks[b].pred:
            if p in ins and cfg.block_dominates(b, p):      # a way back round the loop
                offenders(p, set())
    chk.ob("M3", parse.name, "loop-progress", not bad_round, loc=parse.loc(bad_round[0]) if bad_round else parse.loc(main),
           detail="spifopt_parse: a path goes round the main loop without advancing the argument index or the letter cursor: the same option is "
                  "parsed again forever (termination then depends on the bad-option counter)",
           proof="every path back to the loop condition passes i++ / opt++ / opt = argv[i]")
    # M6 every argument word is read on its own: only the loop header's cursors survive an iteration
    loopstate.check_item_loop(chk, "M6", parse, main, "argument word")
    # N1 letter cursor
    viol, nchecked = nulcursor.analyse(parse, {o_d}, entry_safe=0)
    for n, kind, msg in viol:
        chk.ob("N1", parse.name, "%s:%s" % (kind, canon(parse, n)[:40]), False, loc=parse.loc(n), detail="spifopt_parse: %s" % msg)
    if not viol:
        chk.ob("N1", parse.name, "cursor", True, loc=parse.loc(parse.body), proof="%d cursor reads/advances covered by non-NUL tests" % nchecked)
    # M5 compaction
    comp = loops[-1] if len(loops) > 1 else None
    ok5 = False
    why = "compaction loop not found"
    if comp is not None:
        stores = [n for n in walk(comp["body"]) if n.get("k") == "assign" and X.strip(n["ch"][0]).get("k") == "index"]
        j_d = None
        for d, v in parse.vardecls.items():
            if v["n"] == "j":
                j_d = d
        # argv[j] = argv[i] under if (argv[i]); j++ only there; loop bound i < argc; both start at 1
        good = len(stores) == 1
        if good:
            s0 = stores[0]
            li = X.strip(X.strip(s0["ch"][0])["ch"][1])
            ri = X.strip(s0["ch"][1])
            good = li.get("d") == j_d and ri.get("k") == "index" and X.strip(ri["ch"][1]).get("d") == i_d
        c = X.strip(comp["cond"]) if comp.get("cond") is not None else {}
        bound_ok = c.get("k") == "bin" and c.get("op") == "<" and X.strip(c["ch"][0]).get("d") == i_d and X.strip(c["ch"][1]).get("rk") == "param"
        incs = [n for n in walk(comp["body"]) if n.get("k") == "un" and n.get("op") == "++" and X.strip(n["ch"][0]).get("d") == j_d]
        guarded = all(any(a.get("k") == "if" for a in parse.ancestors(n) if a["i"] in {x["i"] for x in walk(comp["body"])}) for n in incs + stores)
        term = [n for n in walk(parse.body) if n.get("k") == "assign" and X.is_null_const(n["ch"][1]) and X.strip(n["ch"][0]).get("k") == "index"
                and X.strip(X.strip(n["ch"][0])["ch"][1]).get("d") == j_d and cfg.node_dominates(comp["cond"]["i"], n["i"])]
        ok5 = good and bound_ok and guarded and len(incs) == 1 and bool(term)
        why = "store argv[j] = argv[i]: %s; bound i < argc: %s; j advanced only with a kept word: %s; argv[j] = NULL afterwards: %s" % (good, bound_ok, guarded and len(incs) == 1, bool(term))
    chk.ob("M5", parse.name, "argv-compaction", ok5, loc=parse.loc(comp) if comp else parse.loc(parse.body),
           detail="spifopt_parse: argv compaction does not have the shape that keeps j <= i < argc and NULL-terminates (%s)" % why, proof=why)
    chk.count("boolean_value_stores", n1, floor=2)
    chk.count("target_stores_and_handler_calls", n2, floor=5)
    chk.count("cursor_events", nchecked, floor=6)
    chk.analysed = {"units": ["options.c"]}
    return chk.finish()
