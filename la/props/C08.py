"""C08 — option parser: assigns only what the command line says, terminates, stays inside argv.

Decided (structure of options.c):
  M1  the boolean handler touches its target only with  |= mask  and  &= ~mask  (its own mask bits)
  M2  every store through an option's value pointer and every abstract-handler call is controlled by the pass test
      SHOULD_PARSE(j) - in the handler itself or at every one of its call sites (options of the other pass are left alone)
  M3  every way round the main loop advances the argument index or the letter cursor (termination for arbitrary
      argument vectors, including options missing their value)
  N1  the letter cursor never passes the terminator of its argument (lone '-', last letter of a bundle)
  M5  argv compaction: writes argv[j] only with j <= i < argc and terminates the vector
  M1w the AND-NOT that clears a boolean is taken at the width of its target (not a narrower unsigned complement)
  M6  only the loop's cursors survive an iteration of the main loop (per-word flags and value pointers are re-established)
  N2  a word removed from argv is not read again before the index moves on (typestate + GHOSTPOS feasibility in the callee)
  N3  the word handed to the long-option lookup has both hyphens consumed (may-dataflow of "byte at the cursor is '-'")
  B1  the argument-list handler writes only inside the list it allocated (CAP, strict)
Not decided: final variable values, ordering, the word-count agreement of argument lists."""
import re

from .. import facts, expr as X, nulcursor, nullness, flow, loopstate
from ..facts import walk
from ..report import Check, canon

NORETURN = {"libast_fatal_error"}


def in_should_parse(f, node):
    """node is controlled by the pass test: in the arm of an `if` that the pass test selects, or after an
    `if (<not the pass test>) return ...;` earlier in an enclosing block"""
    _CUR_F[0] = f
    child = node
    for anc in f.ancestors(node):
        if anc.get("k") == "if":
            inthen = any(y is node for y in walk(anc["then"]))
            pol = sp_polarity(anc["cond"])
            if inthen and pol is True:
                return True
            if (not inthen) and anc.get("else") is not None and pol is False:
                return True
        if anc.get("k") == "block":
            for s_ in anc.get("ch", []):
                if s_ is child or any(y is child for y in [s_]):
                    break
                if s_.get("k") == "if" and sp_polarity(s_["cond"]) is False and always_returns(s_["then"]):
                    return True
        child = anc
    return False


def value_aliases(f):
    """locals holding the option's value pointer (T *p = (T *) SPIFOPT_OPT_VALUE(n))"""
    al = set()
    for d, v in f.vardecls.items():
        if v.get("init") is not None and any(x.get("k") == "member" and x.get("n") == "value" for x in walk(v["init"])):
            al.add(d)
    for n in walk(f.body):
        if n.get("k") == "assign" and n.get("op") == "=":
            l = X.strip(n["ch"][0])
            if l.get("k") == "ref" and l.get("rk") == "local" and l.get("tp") and any(
                    x.get("k") == "member" and x.get("n") == "value" for x in walk(n["ch"][1])):
                al.add(l["d"])
    return al


def value_store(n, aliases=()):
    """assignment through the option's value pointer:  *((T *) opt.value) op= ...  (or through a local holding that pointer)"""
    if n.get("k") != "assign":
        return False
    l = X.strip(n["ch"][0])
    if l.get("k") in ("un", "index") and (l.get("op") == "*" or l.get("k") == "index"):
        if any(x.get("k") == "member" and x.get("n") == "value" for x in walk(l)):
            return True
        return any(x.get("k") == "ref" and x.get("d") in aliases for x in walk(l["ch"][0]))
    return False


_SP_LOCALS = {}


def sp_locals(f):
    """locals that hold the value of the pass test (const spif_bool_t this_pass = SHOULD_PARSE(n) ? TRUE : FALSE;)"""
    if f.name not in _SP_LOCALS:
        res = set()
        for d, v in f.vardecls.items():
            if v.get("init") is not None and raw_sp(v["init"]):
                res.add(d)
        for n in walk(f.body):
            if n.get("k") == "assign" and n.get("op") == "=":
                l = X.strip(n["ch"][0])
                if l.get("k") == "ref" and l.get("rk") == "local" and raw_sp(n["ch"][1]):
                    res.add(l["d"])
        # a local that is assigned anything else as well does not stand for the pass test
        for n in walk(f.body):
            if n.get("k") == "assign":
                l = X.strip(n["ch"][0])
                if l.get("k") == "ref" and l.get("d") in res and not raw_sp(n["ch"][1]):
                    res.discard(l["d"])
        _SP_LOCALS[f.name] = res
    return _SP_LOCALS[f.name]


def raw_sp(cond):
    return any(m.endswith(":SHOULD_PARSE") for x in walk(cond) for m in x.get("m", []))


_CUR_F = [None]


def is_sp(cond):
    """the condition is the pass test (either polarity)"""
    return sp_polarity(cond) is not None


_MASKS = {}


def _pass_masks(u):
    """(setting-preparse bit, option-preparse bit) as the unit's macro expansions spell them"""
    if u.name not in _MASKS:
        a = b = None
        for f in u.functions.values():
            for x in walk(f.body):
                if x.get("cv") is not None:
                    for m in x.get("m", []):
                        # pre-order walk: the first node met is the whole macro body
                        if m == "b:SPIFOPT_SETTING_PREPARSE" and a is None:
                            a = x["cv"]
                        if m == "b:SPIFOPT_FLAG_PREPARSE" and b is None:
                            b = x["cv"]
        _MASKS[u.name] = (a, b)
    return _MASKS[u.name]


class _NoValue(Exception):
    pass


def _eval_pass(f, e, val, depth=0, env=None):
    """value of the integer expression e when the parser's PREPARSE setting is val[0] and the option's PREPARSE flag is
    val[1]; everything else the expression could read makes it undecidable (_NoValue).  Finite abstract evaluation: locals
    written once are replaced by their definition, unit-local helpers made of declarations, if / return are followed."""
    amask, bmask = _pass_masks(f.unit)
    env = env or {}

    def ev(e):
        e = X.strip(e)
        if e is None:
            raise _NoValue()
        cv = X.const_val(e)
        if cv is not None:
            return cv
        k = e.get("k")
        if k == "bin" and e.get("op") == "&":
            for x, y in ((e["ch"][0], e["ch"][1]), (e["ch"][1], e["ch"][0])):
                m = X.const_val(y)
                sx = X.strip(x)
                if m is not None and sx is not None and sx.get("k") == "member" and sx.get("n") == "flags":
                    via_list = any(z.get("k") == "member" and z.get("n") == "opt_list" for z in walk(sx))
                    root = any(z.get("k") == "ref" and z.get("n") == "spifopt_settings" for z in walk(sx))
                    if root and not via_list and m == amask:
                        return amask if val[0] else 0
                    if root and via_list and m == bmask:
                        return bmask if val[1] else 0
            raise _NoValue()
        if k == "un" and e.get("op") == "!":
            return 0 if ev(e["ch"][0]) else 1
        if k == "bin" and e.get("op") in ("&&", "||", "==", "!=", "^"):
            a = ev(e["ch"][0])
            if e["op"] == "&&":
                return 1 if (a and ev(e["ch"][1])) else 0
            if e["op"] == "||":
                return 1 if (a or ev(e["ch"][1])) else 0
            b = ev(e["ch"][1])
            return {"==": int(a == b), "!=": int(a != b), "^": a ^ b}[e["op"]]
        if k == "cond":
            return ev(e["ch"][1]) if ev(e["ch"][0]) else ev(e["ch"][2])
        if k == "ref" and e.get("rk") in ("local", "param"):
            if e["d"] in env:
                return env[e["d"]]
            ws = _single_write(f, e["d"])
            if ws is None:
                raise _NoValue()
            return ev(ws)
        if k == "call" and depth < 3:
            g = f.unit.functions.get(X.callee_name(e) or "")
            if g is None or g.body is None:
                raise _NoValue()
            return _eval_body(g, val, depth + 1)
        raise _NoValue()
    return ev(e)


_WRITES = {}


def _single_write(f, d):
    key = (f.unit.name, f.name)
    if key not in _WRITES:
        w = {}
        for x in walk(f.body):
            if x.get("k") == "assign" or (x.get("k") == "un" and x.get("op") in ("++", "--", "&")):
                l = X.strip(x["ch"][0])
                if l is not None and l.get("k") == "ref":
                    w.setdefault(l["d"], []).append(x["ch"][1] if x.get("k") == "assign" and x.get("op") == "=" else None)
            elif x.get("k") == "decl":
                for dcl in x.get("decls", ()):
                    if dcl.get("init") is not None:
                        w.setdefault(dcl["d"], []).append(dcl["init"])
        _WRITES[key] = w
    ws = _WRITES[key].get(d)
    if not ws or len(ws) != 1 or ws[0] is None:
        return None
    return ws[0]


def _eval_body(g, val, depth):
    def run(stmts):
        for s_ in stmts:
            if s_ is None:
                continue
            k = s_.get("k")
            if k == "decl" or k == "null":
                continue
            if k in ("block", "compound"):
                r = run(s_.get("ch", []))
                if r is not None:
                    return r
                continue
            if k == "return" and s_.get("val") is not None:
                return ("ret", _eval_pass(g, s_["val"], val, depth))
            if k == "if":
                c = _eval_pass(g, s_["cond"], val, depth)
                arm = s_["then"] if c else s_.get("else")
                if arm is not None:
                    r = run([arm])
                    if r is not None:
                        return r
                continue
            raise _NoValue()
        return None
    r = run([g.body])
    if r is None:
        raise _NoValue()
    return r[1]


def sp_polarity(cond):
    """True if cond holds exactly when the option belongs to the current pass (PREPARSE setting == option's PREPARSE flag),
    False if it holds exactly when it does not, None if it is something else.  Decided over the four valuations."""
    f = _CUR_F[0]
    if f is None:
        return None
    try:
        tt = [bool(_eval_pass(f, cond, (a, b))) == (a == b) for a in (0, 1) for b in (0, 1)]
    except _NoValue:
        return None
    if all(tt):
        return True
    if not any(tt):
        return False
    return None


def mask_locals(f):
    """locals holding the option's mask (bits = SPIFOPT_OPT_MASK(n))"""
    res = set()
    for d, v in f.vardecls.items():
        if v.get("init") is not None and any(x.get("k") == "member" and x.get("n") == "mask" for x in walk(v["init"])):
            res.add(d)
    for n in walk(f.body):
        if n.get("k") == "assign" and n.get("op") == "=":
            l = X.strip(n["ch"][0])
            if l.get("k") == "ref" and l.get("rk") == "local" and any(x.get("k") == "member" and x.get("n") == "mask" for x in walk(n["ch"][1])):
                res.add(l["d"])
    return res


def is_mask_expr(e, ml):
    s_ = X.strip(e)
    if s_ is None:
        return False
    if s_.get("k") == "member" and s_.get("n") == "mask":
        return True
    return s_.get("k") == "ref" and s_.get("d") in ml


def always_returns(stmt):
    k = stmt.get("k")
    if k == "return":
        return True
    if k == "block":
        ch = stmt.get("ch", [])
        return bool(ch) and always_returns(ch[-1])
    if k == "if":
        return stmt.get("else") is not None and always_returns(stmt["then"]) and always_returns(stmt["else"])
    if k == "do":
        return always_returns(stmt["body"])
    return False


def check_whole_name_match(chk, prog, u, field="long_opt", rule="N4", only=None, story=None):
    """N4 (options) / S7 (built-in table of the config parser): a long option is selected by its whole name.  Every bounded comparison strn(case)cmp(NAME, WORD, n) of a table
    entry's long name with the word decides a match only together with the end of the other string at n:
      n = strlen(NAME)            -> WORD[n] is tested to be '=' or the terminator (the name part of the word ends there), or
      n measured on the WORD      -> NAME[n] is tested to be the terminator (the table name ends there too);
    an unbounded str(case)cmp compares whole names by itself.  Otherwise a word selects an option it is merely a prefix of
    (or that is a prefix of it)."""
    n = 0
    # parameters of unit-local helpers that receive a table entry's long name at some call site
    name_params = set()
    for f in u.functions.values():
        if f.body is None:
            continue
        for c in X.calls_in(f.body):
            g = u.functions.get(X.callee_name(c) or "")
            if g is None:
                continue
            for j, a in enumerate(c["ch"][1:]):
                if j < len(g.params) and any(y.get("k") == "member" and y.get("n") == field for y in walk(a)):
                    name_params.add(g.params[j]["d"])
    for f in u.functions.values():
        if f.body is None or (only is not None and f.name not in only):
            continue
        defs = {}
        for x in walk(f.body):
            if x.get("k") == "assign" and x.get("op") == "=":
                l = X.strip(x["ch"][0])
                if l.get("k") == "ref" and l.get("rk") == "local":
                    defs.setdefault(l["d"], []).append(x["ch"][1])
            elif x.get("k") == "decl":
                for dcl in x.get("decls", ()):
                    if dcl.get("init") is not None:
                        defs.setdefault(dcl["d"], []).append(dcl["init"])

        def is_name(e):
            return any((y.get("k") == "member" and y.get("n") == field) or (y.get("k") == "ref" and y.get("d") in name_params) for y in walk(e))

        reach_cache = {}

        def reaching(d, at_id):
            """the right-hand sides of the definitions of local d that reach node at_id (None for ++ / compound updates)"""
            if f.cfg is None:
                return defs.get(d, [])
            if d not in reach_cache:
                at = {}

                def tr(state, x, blk):
                    k_ = x.get("k")
                    if k_ == "assign" and (X.strip(x["ch"][0]) or {}).get("d") == d:
                        return frozenset({x["i"]})
                    if k_ == "un" and x.get("op") in ("++", "--") and (X.strip(x["ch"][0]) or {}).get("d") == d:
                        return frozenset({x["i"]})
                    if k_ == "decl" and any(dc["d"] == d for dc in x.get("decls", ())):
                        return frozenset({x["i"]})
                    return state

                def vis(state, x, blk):
                    at[x["i"]] = state
                from .. import flow as _flow
                _flow.forward(nullness.prepared_cfg(f, NORETURN), frozenset(), tr, join=lambda a, b: a | b, visit=vis)
                reach_cache[d] = at
            ids = reach_cache[d].get(at_id)
            if ids is None:
                return defs.get(d, [])
            out_ = []
            for i_ in ids:
                nd_ = f.nodes.get(i_)
                if nd_ is None:
                    out_.append(None)
                elif nd_.get("k") == "assign" and nd_.get("op") == "=":
                    out_.append(nd_["ch"][1])
                elif nd_.get("k") == "decl":
                    out_ += [dc.get("init") for dc in nd_.get("decls", ()) if dc["d"] == d]
                else:
                    out_.append(None)
            return out_
        cur_call = [None]

        def length_of(e, depth=0):
            """'name' / 'word' if e is a length measured on the table name / on something else, else None"""
            e = X.strip(e)
            if e is None or depth > 3:
                return None
            if e.get("k") == "ref" and e.get("rk") == "local":
                ds = reaching(e["d"], cur_call[0]) if (depth == 0 and cur_call[0] is not None) else defs.get(e["d"], [])
                if any(d_ is None for d_ in ds):
                    return None
                kinds = {length_of(d_, depth + 1) for d_ in ds}
                return kinds.pop() if len(kinds) == 1 else None
            if e.get("k") == "call" and X.callee_name(e) in ("strlen", "__builtin_strlen") and e["ch"][1:]:
                return "name" if is_name(e["ch"][1]) else "word"
            if e.get("k") == "call" and X.callee_name(e) in ("strcspn", "__builtin_strcspn") and e["ch"][1:]:
                return "name" if is_name(e["ch"][1]) else "word"
            if e.get("k") == "bin" and e.get("op") == "-" and e.get("tw") and all((X.strip(c_) or {}).get("tp") for c_ in e["ch"]):
                return "word"           # a pointer difference inside the word
            return None

        def same_len(a, b):
            return canon(f, a) == canon(f, b)
        for c in X.calls_in(f.body):
            cn = X.callee_name(c) or ""
            if cn not in ("strncasecmp", "strncmp", "__builtin_strncmp", "__builtin_strncasecmp") or len(c["ch"]) < 4:
                continue
            a1, a2, an = c["ch"][1], c["ch"][2], c["ch"][3]
            if not (is_name(a1) or is_name(a2)):
                continue
            name_e, word_e = (a1, a2) if is_name(a1) else (a2, a1)
            n += 1
            cur_call[0] = c["i"]
            kind = length_of(an)
            # tests of the byte at index n of either string anywhere in the enclosing condition / function
            ends_word = ends_name = False

            def terms(e):
                """the summands of an address / index expression (p + i + l -> [p, i, l])"""
                e = X.strip(e)
                if e is None:
                    return []
                if e.get("k") == "bin" and e.get("op") == "+":
                    return terms(e["ch"][0]) + terms(e["ch"][1])
                return [canon(f, e)]
            word_at_n = sorted(terms(word_e) + terms(an))
            for x in walk(f.body):
                if x.get("k") == "index" and same_len(x["ch"][1], an):
                    if is_name(x["ch"][0]):
                        ends_name = True
                    elif canon(f, x["ch"][0]) == canon(f, word_e):
                        ends_word = True
                # the same byte addressed another way: (s + i)[l] is s[i + l] is *(s + i + l)
                if x.get("k") == "index" and not is_name(x["ch"][0]) and sorted(terms(x["ch"][0]) + terms(x["ch"][1])) == word_at_n:
                    ends_word = True
                if x.get("k") == "un" and x.get("op") == "*" and not is_name(x["ch"][0]) and sorted(terms(x["ch"][0])) == word_at_n:
                    ends_word = True
            ok = (kind == "name" and ends_word) or (kind == "word" and ends_name)
            chk.ob(rule, f.name, "whole-name-match:" + canon(f, c)[:40], ok, loc=f.loc(c),
                   detail="%s matches a table name with %s bounded by %s, and never tests that %s ends at that length: %s" % (
                              f.name, cn, "the table name's length" if kind == "name" else ("the word's length" if kind == "word" else "a length of unknown origin"),
                              "the word's name part" if kind == "name" else "the table name",
                              story or "a word selects an option whose name merely begins with it (or that it merely begins with) - `--verb` sets "
                                       "--verbose, an exact `--scrollbar` is taken for --scrollbar-type"),
                   proof="bounded by %s and the other string is tested to end there" % ("strlen(name)" if kind == "name" else "the word's name length"))
    return n


class _VFUnknown(Exception):
    pass


def check_value_finder(chk, prog, u):
    """N5: where the value of a long option comes from.  The function that looks for the '=' in the word (the one calling
    strchr(word, '=')) is evaluated abstractly for the 2 x 2 x 2 situations {'=' present, a byte follows the '=', a next word
    exists}: it must return the position right behind the '=' whenever there is one - also when nothing follows it
    (`--name=` gives the empty value, it does not swallow the next word) - and the next word (or NULL) otherwise, and report
    through its flag parameter exactly whether the '=' was there.  Finite abstract evaluation (pointer values: NULL, the '='
    position + k, the next word); a construct outside the evaluator makes the rule undecided, never an alarm."""
    n = 0
    for f in u.functions.values():
        if f.body is None or len(f.params) < 2:
            continue
        sc = [c for c in X.calls_in(f.body) if X.callee_name(c) in ("strchr", "__builtin_strchr", "index") and len(c["ch"]) >= 3 and X.const_val(c["ch"][2]) == 61]
        if not sc or not (f.j.get("ret", "") + f.j.get("retc", "")).strip().endswith("*"):
            continue
        word_d = (X.strip(sc[0]["ch"][1]) or {}).get("d")
        pp = [p for p in f.params if p.get("tp")]
        if word_d != pp[0]["d"] or len(pp) < 2:
            continue
        next_d = pp[1]["d"]
        flag_d = pp[2]["d"] if len(pp) > 2 else None
        n += 1
        bad = None
        undec = None
        for E in (0, 1):
            for V in (0, 1):
                for N in (0, 1):
                    if not E and V:
                        continue
                    env = {next_d: ("NEXT",) if N else ("NULL",), word_d: ("WORD",)}
                    out = {"flag": None}

                    def truth(v):
                        if v[0] == "int":
                            return v[1] != 0
                        if v[0] == "NULL":
                            return False
                        if v[0] in ("EQ", "NEXT", "WORD"):
                            return True
                        raise _VFUnknown("truth of %r" % (v,))

                    def ev(e):
                        e0 = e
                        e = X.strip(e)
                        if e is None:
                            raise _VFUnknown("expr")
                        cv = X.const_val(e)
                        if cv is not None and not e.get("tp"):
                            return ("int", cv)
                        if X.is_null_const(e0) or X.is_null_const(e):
                            return ("NULL",)
                        k = e.get("k")
                        if k == "ref":
                            if e["d"] in env:
                                return env[e["d"]]
                            raise _VFUnknown("value of %s" % e.get("n"))
                        if k == "call" and e in sc or (k == "call" and X.callee_name(e) in ("strchr", "__builtin_strchr", "index") and X.const_val(e["ch"][2]) == 61):
                            return ("EQ", 0) if E else ("NULL",)
                        if k == "call" and (X.callee_name(e) or "").startswith("libast_"):
                            return ("int", 0)
                        if k == "assign":
                            l = X.strip(e["ch"][0])
                            if e.get("op") == "=":
                                v = ev(e["ch"][1])
                            elif e.get("op") in ("+=", "-=") and l.get("k") == "ref":
                                cur, d_ = ev(l), ev(e["ch"][1])
                                if cur[0] == "EQ" and d_[0] == "int":
                                    v = ("EQ", cur[1] + (d_[1] if e["op"] == "+=" else -d_[1]))
                                else:
                                    raise _VFUnknown("compound assignment")
                            else:
                                raise _VFUnknown("assignment")
                            if l.get("k") == "ref":
                                env[l["d"]] = v
                            elif l.get("k") == "un" and l.get("op") == "*" and (X.strip(l["ch"][0]) or {}).get("d") == flag_d:
                                out["flag"] = v
                            else:
                                raise _VFUnknown("store")
                            return v
                        if k == "un" and e.get("op") in ("++", "--"):
                            l = X.strip(e["ch"][0])
                            cur = ev(l)
                            if cur[0] != "EQ" or l.get("k") != "ref":
                                raise _VFUnknown("increment")
                            new = ("EQ", cur[1] + (1 if e["op"] == "++" else -1))
                            env[l["d"]] = new
                            return cur if e.get("post") else new
                        if k == "un" and e.get("op") == "!":
                            return ("int", 0 if truth(ev(e["ch"][0])) else 1)
                        if k == "un" and e.get("op") == "*":
                            if (X.strip(e["ch"][0]) or {}).get("d") == flag_d and flag_d is not None:
                                if out["flag"] is None:
                                    raise _VFUnknown("flag read before it is written")
                                return out["flag"]
                            p_ = ev(e["ch"][0])
                            if p_[0] == "EQ" and p_[1] == 0:
                                return ("int", 61)
                            if p_[0] == "EQ" and p_[1] == 1:
                                return ("int", 120 if V else 0)
                            raise _VFUnknown("read through %r" % (p_,))
                        if k == "index":
                            p_, i_ = ev(e["ch"][0]), ev(e["ch"][1])
                            if p_[0] == "EQ" and i_[0] == "int":
                                off = p_[1] + i_[1]
                                if off == 0:
                                    return ("int", 61)
                                if off == 1:
                                    return ("int", 120 if V else 0)
                            raise _VFUnknown("indexed read")
                        if k == "bin" and e.get("op") in ("+", "-") and e.get("tp"):
                            p_, i_ = ev(e["ch"][0]), ev(e["ch"][1])
                            if p_[0] == "EQ" and i_[0] == "int":
                                return ("EQ", p_[1] + (i_[1] if e["op"] == "+" else -i_[1]))
                            raise _VFUnknown("pointer arithmetic")
                        if k == "bin" and e.get("op") in ("&&", "||"):
                            a = truth(ev(e["ch"][0]))
                            if e["op"] == "&&":
                                return ("int", 1 if (a and truth(ev(e["ch"][1]))) else 0)
                            return ("int", 1 if (a or truth(ev(e["ch"][1]))) else 0)
                        if k == "bin" and e.get("op") in ("==", "!="):
                            a, b = ev(e["ch"][0]), ev(e["ch"][1])
                            if a[0] == "int" and b[0] == "int":
                                r = a[1] == b[1]
                            elif "NULL" in (a[0], b[0]) or ("int", 0) in (a, b):
                                other = b if (a[0] == "NULL" or a == ("int", 0)) else a
                                r = not truth(other)
                            else:
                                raise _VFUnknown("comparison")
                            return ("int", int(r == (e["op"] == "==")))
                        if k == "cond":
                            return ev(e["ch"][1]) if truth(ev(e["ch"][0])) else ev(e["ch"][2])
                        raise _VFUnknown(k or "?")

                    class _Ret(Exception):
                        def __init__(self, v):
                            self.v = v

                    def run(st):
                        if st is None:
                            return
                        k = st.get("k")
                        if k in ("block", "compound"):
                            for c_ in st.get("ch", []):
                                run(c_)
                        elif k == "decl":
                            for dcl in st.get("decls", ()):
                                if dcl.get("init") is not None:
                                    env[dcl["d"]] = ev(dcl["init"])
                                else:
                                    env[dcl["d"]] = ("UNINIT",)
                        elif k == "if":
                            if not any(y.get("k") in ("assign", "return") or (y.get("k") == "un" and y.get("op") in ("++", "--")) for y in walk(st)):
                                return          # a debugging statement: cannot touch the outcome
                            run(st["then"] if truth(ev(st["cond"])) else st.get("else"))
                        elif k == "return":
                            raise _Ret(ev(st["val"]) if st.get("val") is not None else None)
                        elif k == "do" and X.const_val(st.get("cond")) == 0:
                            run(st.get("body"))
                        elif k == "null":
                            return
                        elif k in ("for", "while", "do", "switch", "goto", "label"):
                            # debugging output wrapped in loops / conditionals on the level: skip statements that cannot touch the outcome
                            if any(y.get("k") == "assign" or (y.get("k") == "un" and y.get("op") in ("++", "--")) for y in walk(st)):
                                raise _VFUnknown(k)
                        else:
                            # expression statement (possibly a debugging macro's if/do block)
                            if st.get("k") in ("assign", "un", "call", "paren", "cast", "icast", "bin", "cond"):
                                if st.get("k") == "call" or not any(y.get("k") == "assign" or (y.get("k") == "un" and y.get("op") in ("++", "--")) for y in walk(st)):
                                    return
                                ev(st)
                            else:
                                raise _VFUnknown(k or "stmt")
                    try:
                        try:
                            run(f.body)
                            ret = None
                        except _Ret as r_:
                            ret = r_.v
                    except _VFUnknown as ex:
                        undec = str(ex)
                        continue
                    if ret == ("int", 0):
                        ret = ("NULL",)             # the null pointer constant written out (val_ptr = NULL; return val_ptr)
                    want_ret = ("EQ", 1) if E else (("NEXT",) if N else ("NULL",))
                    want_flag = 1 if E else 0
                    got_flag = out["flag"][1] if out["flag"] is not None and out["flag"][0] == "int" else None
                    if ret != want_ret or (flag_d is not None and (got_flag is None or bool(got_flag) != bool(want_flag))):
                        bad = (E, V, N, ret, got_flag, want_ret, want_flag)
        if undec is not None and bad is None:
            chk.note("N5: %s not decided (%s)" % (f.name, undec))
            continue
        desc = ""
        if bad is not None:
            E, V, N, ret, gf, wr, wf = bad
            desc = "with %s, %s, %s it returns %s and reports hasequal=%s (expected %s, %s)" % (
                "an '=' in the word" if E else "no '=' in the word", "a byte behind it" if V else "nothing behind it", "a next word" if N else "no next word",
                {"EQ": "the position %s behind the '='" % (ret[1] if ret and ret[0] == "EQ" else "?"), "NEXT": "the next word", "NULL": "NULL"}.get(ret[0] if ret else "NULL", str(ret)),
                gf, {"EQ": "the position right behind the '='", "NEXT": "the next word", "NULL": "NULL"}[wr[0]], wf)
        chk.ob("N5", f.name, "value-of-long-option", bad is None, loc=f.loc(f.body),
               detail="%s: %s: `--name=` takes the next word for its value (and removes it) instead of the empty value" % (f.name, desc),
               proof="8 situations evaluated: behind the '=' iff there is one, else the next word / NULL; flag == presence of '='")
    return n


def check_long_lookup_words(chk, prog, u):
    """N3: the word handed to the long-option lookup has had both hyphens consumed.  May-dataflow over the letter cursor: the
    fact "the byte at p is a hyphen" is established by a successful test `*p == '-'` and killed when p moves; a call
    find_long_option(p) reached with that fact alive looks the name up with a hyphen still in front of it (never found: the
    option is reported as unrecognised and its word is taken for the previous option's value)."""
    lookups = {g.name for g in u.functions.values() if g.name.startswith("find_long")}
    n = 0
    for f in u.functions.values():
        if f.body is None or f.cfg is None:
            continue
        calls = [c for c in X.calls_in(f.body) if X.callee_name(c) in lookups and len(c["ch"]) > 1]
        if not calls:
            continue
        cfg = nullness.prepared_cfg(f, NORETURN)

        def hyphen_test(cond):
            c = X.strip(cond)
            if c is None or c.get("k") != "bin" or c.get("op") not in ("==", "!="):
                return None
            for a, b in ((c["ch"][0], c["ch"][1]), (c["ch"][1], c["ch"][0])):
                a_, cv = X.strip(a), X.const_val(b)
                if cv == 45 and a_ is not None:
                    t = None
                    if a_.get("k") == "un" and a_.get("op") == "*":
                        t = X.strip(a_["ch"][0])
                    elif a_.get("k") == "index" and X.const_val(a_["ch"][1]) == 0:
                        t = X.strip(a_["ch"][0])
                    if t is not None and t.get("k") == "ref":
                        return t["d"], c["op"] == "=="
            return None

        def transfer(st, node, blk):
            k = node.get("k")
            if k == "assign" or (k == "un" and node.get("op") in ("++", "--")):
                t = X.strip(node["ch"][0])
                if t.get("k") == "ref" and t["d"] in st:
                    return st - {t["d"]}
            if k == "assign" and node.get("op") == "=":
                # p = q copies the fact
                t, r = X.strip(node["ch"][0]), X.strip(node["ch"][1])
                if t.get("k") == "ref" and r.get("k") == "ref" and r["d"] in st:
                    return st | {t["d"]}
            if k == "decl":
                for d in node.get("decls", ()):
                    if d.get("init") is not None and X.strip(d["init"]).get("k") == "ref" and X.strip(d["init"])["d"] in st:
                        st = st | {d["d"]}
            return st

        def refine(st, cond, truth, blk):
            ht = hyphen_test(cond)
            if ht is not None and truth in (True, False):
                d, eq = ht
                if (truth is True) == eq:
                    return st | {d}
                return st - {d}
            return st
        hits = {}

        def visit(st, node, blk):
            if node.get("k") == "call" and X.callee_name(node) in lookups and len(node["ch"]) > 1:
                a = X.strip(node["ch"][1])
                hits[node["i"]] = a.get("k") == "ref" and a["d"] in st
        flow.forward(cfg, frozenset(), transfer, refine=refine, join=lambda a, b: a | b, visit=visit)
        for c in calls:
            n += 1
            bad = hits.get(c["i"], False)
            chk.ob("N3", f.name, "long-name-without-hyphens:" + canon(f, c)[:40], not bad, loc=f.loc(c),
                   detail="%s calls %s(%s) on a path where the byte at that pointer has just been tested to be '-' and the pointer has not "
                          "moved: the long name is looked up with a hyphen still in front of it, is never found, and the word is then "
                          "taken for the previous option's value" % (f.name, X.callee_name(c), X.render(c["ch"][1])[:20]),
                   proof="no path reaches the call with a known hyphen at the cursor")
    return n


def run(tier="quick"):
    chk = Check("C08", level="other", tier=tier,
                explanation="mask-only stores, pass-test control of every target store / handler call, loop-progress must-dataflow, "
                            "letter-cursor typestate, argv compaction shape")
    for rid, txt in (("M1", "boolean handler only ORs / AND-NOTs its mask"), ("M2", "target stores and handler calls are under SHOULD_PARSE"),
                     ("M3", "every way round the main loop advances"), ("M6", "per-word state (long/equal flags, value pointer) does not survive an iteration"), ("N1", "letter cursor never passes the terminator"), ("N2", "a word removed from argv is not read again before the index moves on"),
                     ("N3", "the long-option lookup is handed the word with both hyphens consumed"),
                     ("N4", "a long option is selected by its whole name, not by a prefix"),
                     ("N5", "the value of --name=VALUE starts right behind the '=' (also when it is empty)"),
                     ("M5", "argv compaction stays inside argv and terminates it"), ("B1", "the argument-list handler writes only inside the list it allocated")):
        chk.rule(rid, txt)
    prog = facts.extract(only=["options.c"])
    u = prog.units["options.c"]
    # N6 a lookup's "not found" answer survives the trip to its caller: a function that returns a negative constant has a signed
    # return type at least as wide as int.  Through an unsigned type narrower than int the -1 arrives as 255 / 65535, the
    # caller's `== -1` / `< 0` test is never true, and the bounds guard of the table accessor turns the value into entry 0
    chk.rule("N6", "a negative 'not found' value is returned through a signed type no narrower than int")
    nsent = 0
    for f_ in u.functions.values():
        if f_.body is None or not f_.j.get("inmain"):
            continue
        for x in walk(f_.body):
            if x.get("k") == "return" and x.get("val") is not None:
                v_ = x["val"]
                while v_ is not None and (v_.get("k") == "paren" or (v_.get("k") == "icast" and v_.get("ck") == "IntegralCast")):
                    v_ = v_["ch"][0]          # the value as written, before the implicit conversion to the return type
                cv = X.const_val(v_) if v_ is not None else None
                if cv is not None and cv < 0:
                    nsent += 1
                    rw, rs = f_.j.get("retw"), f_.j.get("rets")
                    ok6 = not (rw is not None and ((not rs and rw < 32) or (rs and rw < 32 and cv < -(1 << (rw - 1)))))
                    chk.ob("N6", f_.name, "sentinel-representable:%d" % cv, ok6, loc=f_.loc(x),
                           detail="%s returns %d through its return type %s (%s-bit %s): the caller receives %s, which no comparison "
                                  "with %d matches - a missing option is then treated as a table index" % (
                                      f_.name, cv, f_.j.get("ret"), rw, "signed" if rs else "unsigned",
                                      (cv & ((1 << rw) - 1)) if rw else "?", cv),
                           proof="%s is signed and at least int-wide" % f_.j.get("ret"))
    chk.count("negative_sentinel_returns", nsent, floor=2)
    hb = prog.need("handle_boolean")
    parse = prog.need("spifopt_parse")
    # M1
    n1 = 0
    hb_al = value_aliases(hb)
    ml = mask_locals(hb)
    for n in walk(hb.body):
        if value_store(n, hb_al):
            n1 += 1
            op = n.get("op")
            rhs = X.strip(n["ch"][1])
            inv = rhs.get("k") == "un" and rhs.get("op") == "~"
            ok = (op == "|=" and is_mask_expr(rhs, ml)) or (op == "&=" and inv and is_mask_expr(rhs["ch"][0], ml))
            chk.ob("M1", hb.name, "mask-store:" + canon(hb, n)[:40], ok, loc=hb.loc(n),
                   detail="handle_boolean stores %s: a boolean option must only set (|= mask) or clear (&= ~mask) its own mask bits" % X.render(n)[:70],
                   proof="|= mask / &= ~mask")
            if op == "&=" and inv:
                # ~mask is computed in the type of the mask; if that is unsigned and narrower than the target, the conversion
                # zero-extends and the AND clears every target bit above the mask's width
                lw, mw, msigned = X.strip(n["ch"][0]).get("tw"), rhs.get("tw"), rhs.get("ts")
                wide_ok = not (lw and mw and mw < lw and not msigned)
                chk.ob("M1", hb.name, "clear-width:" + canon(hb, n)[:40], wide_ok, loc=hb.loc(n),
                       detail="handle_boolean clears with %s: ~mask is a %s-bit unsigned value but the target is %s bits wide, so the "
                              "AND also clears target bits %s..%s, which belong to other options" % (X.render(n)[:60], mw, lw, mw, (lw or 0) - 1),
                       proof="the complement is taken at the width of the target")
    # M2
    n2 = 0
    callers = {}
    for f in u.functions.values():
        for c in X.calls_in(f.body):
            cn = X.callee_name(c)
            if cn in u.functions:
                callers.setdefault(cn, []).append((f, c))
    for f in u.functions.values():
        f_al = value_aliases(f)
        for n in walk(f.body):
            is_store = value_store(n, f_al)
            is_handler_call = False
            if n.get("k") == "call" and not X.callee_name(n):
                is_handler_call = any(x.get("k") == "member" and x.get("n") == "value" for x in walk(n["ch"][0]))
            if not (is_store or is_handler_call):
                continue
            n2 += 1
            ok = in_should_parse(f, n)
            how = "guarded in %s" % f.name
            if not ok and f.name in callers:
                ok = all(in_should_parse(g, c) for g, c in callers[f.name])
                how = "every call site of %s is guarded" % f.name
            chk.ob("M2", f.name, ("store:" if is_store else "call:") + canon(f, n)[:40], ok, loc=f.loc(n),
                   detail="%s %s outside the pass test SHOULD_PARSE(): an option of the other pass (pre-parse vs. normal) is assigned or its "
                          "handler is run in the wrong pass" % (f.name, "stores through the option's value pointer" if is_store else "calls the option's handler"),
                   proof=how)
    # M3 loop progress
    # the main loop: the outermost loop of spifopt_parse that looks options up; its cursors: the integer compared with argc in the
    # loop condition and the character pointer that is assigned from argv[..]
    argc_d = parse.params[0]["d"]
    argv_d = parse.params[1]["d"]
    loops = [n for n in walk(parse.body) if n.get("k") in ("for", "while")]
    lookups = [lp for lp in loops if any(re.search(r"find_(long|short)_option$", X.callee_name(c) or "") for c in X.calls_in(lp.get("body") or {}))]
    main = None
    for lp in lookups:
        if not any(lp is not o and any(y is lp for y in walk(o.get("body") or {})) for o in lookups):
            main = lp
    i_d = o_d = None
    if main is not None and main.get("cond") is not None:
        for x in walk(main["cond"]):
            if x.get("k") == "bin" and x.get("op") in ("<", "<=", ">", ">=", "!="):
                a, b = X.strip(x["ch"][0]), X.strip(x["ch"][1])
                for p, q in ((a, b), (b, a)):
                    if q.get("k") == "ref" and q.get("d") == argc_d and p.get("k") == "ref" and p.get("rk") == "local":
                        i_d = p["d"]
        cands = {}
        for x in walk(parse.body):
            pairs = []
            if x.get("k") == "assign" and x.get("op") == "=":
                pairs.append((X.strip(x["ch"][0]), x["ch"][1]))
            if x.get("k") == "decl":
                for dcl in x.get("decls", ()):
                    if dcl.get("init") is not None:
                        pairs.append(({"k": "ref", "d": dcl["d"], "rk": "local", "tp": dcl.get("tp")}, dcl["init"]))
            for l, r in pairs:
                r = X.strip(r)
                if l.get("k") == "ref" and l.get("rk") == "local" and r is not None and r.get("k") == "index" and X.strip(r["ch"][0]).get("d") == argv_d:
                    cands[l["d"]] = cands.get(l["d"], 0) + 1
        if cands:
            o_d = max(cands, key=lambda d: cands[d])
    if i_d is None or o_d is None or main is None:
        raise facts.AnalysisBroken("main loop / cursors of spifopt_parse not identified")
    cfg = nullness.prepared_cfg(parse, NORETURN)
    body_ids = {x["i"] for x in walk(main["body"])}
    cond_ids = {x["i"] for x in walk(main["cond"])} if main.get("cond") is not None else set()
    conts = []

    def tr(state, n, blk):
        if n["i"] in cond_ids:
            return frozenset()          # a new round starts: nothing advanced yet
        if n["i"] not in body_ids:
            return state
        k = n.get("k")
        t = None
        if k == "un" and n.get("op") in ("++",):
            t = X.strip(n["ch"][0])
        elif k == "assign" and n.get("op") in ("=", "+="):
            t = X.strip(n["ch"][0])
        if t is not None and t.get("k") == "ref" and t.get("d") in (i_d, o_d):
            # i-- (boolean re-parse) is not progress
            return state | {("adv",)}
        return state
    # ends of a round: evaluation of the loop condition again
    ends = []

    def vis(state, n, blk):
        if n["i"] in cond_ids and n is X.strip(main["cond"]) or (n["i"] in cond_ids and n.get("i") == main["cond"]["i"]):
            ends.append((n, state, blk))
    # collect predecessor states of the condition block instead: run forward and inspect in-states of blocks that evaluate the cond
    ins = flow.forward(cfg, frozenset({("adv",)}), tr)
    cond_blocks = [b for b, blk in cfg.blocks.items() if any(e in cond_ids for e in blk.el)]
    bad_round = []

    def out_state(p):
        st = ins[p]
        for e in cfg.blocks[p].el:
            nd = parse.nodes.get(e)
            if nd is not None:
                st = tr(st, nd, cfg.blocks[p])
        return st

    def offenders(p, seen):
        """walk back through element-less collector blocks to the block that ends the round without advancing"""
        if p in seen or p not in ins:
            return
        seen.add(p)
        if ("adv",) in out_state(p):
            return
        if not cfg.blocks[p].el:
            for q in cfg.blocks[p].pred:
                offenders(q, seen)
            return
        last = [parse.nodes.get(e) for e in cfg.blocks[p].el if parse.nodes.get(e) is not None]
        bad_round.append(last[-1] if last else main)
    for b in cond_blocks:
        for p in cfg.blocks[b].pred:
            if p in ins and cfg.block_dominates(b, p):      # a way back round the loop
                offenders(p, set())
    chk.ob("M3", parse.name, "loop-progress", not bad_round, loc=parse.loc(bad_round[0]) if bad_round else parse.loc(main),
           detail="spifopt_parse: a path goes round the main loop without advancing the argument index or the letter cursor: the same option is "
                  "parsed again forever (termination then depends on the bad-option counter)",
           proof="every path back to the loop condition passes i++ / opt++ / opt = argv[i]")
    # M6 every argument word is read on its own: only the loop header's cursors survive an iteration
    loopstate.check_item_loop(chk, "M6", parse, main, "argument word", cursors=(i_d, o_d))
    # N1 letter cursor
    viol, nchecked = nulcursor.analyse(parse, {o_d}, entry_safe=0)
    for n, kind, msg in viol:
        chk.ob("N1", parse.name, "%s:%s" % (kind, canon(parse, n)[:40]), False, loc=parse.loc(n), detail="spifopt_parse: %s" % msg)
    if not viol:
        chk.ob("N1", parse.name, "cursor", True, loc=parse.loc(parse.body), proof="%d cursor reads/advances covered by non-NUL tests" % nchecked)
    # M5 compaction: wherever a function copies argv[b] to argv[a] (the compaction of kept words), GHOSTPOS proves
    # 0 <= a <= b < argc at the copy, and that the terminating store argv[a] = NULL has a <= argc
    from ..ghostpos import GhostPos
    from ..lin import Lin, entails
    n5 = 0
    for f in u.functions.values():
        avs = [p for p in f.params if p.get("tp") and re.search(r"char \*\*|char \*\[\]|char \*const \*", (p.get("tc") or "") + (p.get("t") or ""))]
        acs = [p for p in f.params if not p.get("tp") and p.get("tw") and (p.get("tc") or p.get("t") or "").strip() == "int"]
        if not avs or not acs:
            continue
        copies = []
        for x in walk(f.body):
            if x.get("k") == "assign" and x.get("op") == "=":
                l, r = X.strip(x["ch"][0]), X.strip(x["ch"][1])
                if l.get("k") == "index" and X.strip(l["ch"][0]).get("d") == avs[0]["d"] and r.get("k") == "index" and X.strip(r["ch"][0]).get("d") == avs[0]["d"]:
                    copies.append(x)
        if not copies:
            # the compaction written with walking pointers (dst / src into argv): every access through a pointer derived from
            # argv is decided by CAP against the calling convention `argv has argc words and its NULL slot`
            rooted = {avs[0]["d"]}
            ch_ = True
            while ch_:
                ch_ = False
                for d_, v_ in f.vardecls.items():
                    if d_ not in rooted and v_.get("tp") and v_.get("init") is not None and any(y.get("k") == "ref" and y.get("d") in rooted for y in walk(v_["init"])):
                        rooted.add(d_)
                        ch_ = True
                for x in walk(f.body):
                    if x.get("k") == "assign" and x.get("op") == "=":
                        l_ = X.strip(x["ch"][0])
                        if l_.get("k") == "ref" and l_.get("tp") and l_.get("d") not in rooted and any(y.get("k") == "ref" and y.get("d") in rooted for y in walk(x["ch"][1])):
                            rooted.add(l_["d"])
                            ch_ = True
            pstores = []
            for x in walk(f.body):
                if x.get("k") == "assign" and x.get("op") == "=":
                    l_, r_ = X.strip(x["ch"][0]), X.strip(x["ch"][1])
                    if l_.get("k") == "un" and l_.get("op") == "*" and (X.strip(l_["ch"][0]) or {}).get("d") in (rooted - {avs[0]["d"]}) \
                            and r_ is not None and r_.get("k") == "un" and r_.get("op") == "*" and (X.strip(r_["ch"][0]) or {}).get("d") in rooted:
                        pstores.append(x)
            if not pstores:
                # a kept word carried over in a local (word = argv[from]; ..; argv[to] = word): the same CAP obligations
                for x in walk(f.body):
                    if x.get("k") == "assign" and x.get("op") == "=" and not X.is_null_const(x["ch"][1]):
                        l_, r_ = X.strip(x["ch"][0]), X.strip(x["ch"][1])
                        if l_.get("k") == "index" and (X.strip(l_["ch"][0]) or {}).get("d") in rooted and r_ is not None and \
                                r_.get("k") == "ref" and r_.get("rk") == "local" and r_.get("tp"):
                            defs_ = [y for y in walk(f.body) if (y.get("k") == "assign" and y.get("op") == "=" and (X.strip(y["ch"][0]) or {}).get("d") == r_["d"])]
                            inits_ = [(f.vardecls.get(r_["d"]) or {}).get("init")] if (f.vardecls.get(r_["d"]) or {}).get("init") is not None else []
                            srcs_ = [y["ch"][1] for y in defs_] + inits_
                            if srcs_ and all((X.strip(e_) or {}).get("k") in ("index", "un") and any(
                                    z.get("k") == "ref" and z.get("d") in rooted for z in walk(e_)) for e_ in srcs_):
                                pstores.append(x)
            if not pstores:
                continue
            from .. import capdrv
            from ..cap import Cap
            had = capdrv.SPECS.get(f.name)
            capdrv.SPECS[f.name] = {avs[0]["n"]: ("ptrs", acs[0]["n"]), "_pre": [({acs[0]["n"]: 1}, 0)]}
            try:
                cp = Cap(prog, noreturn=NORETURN)
                capdrv.analyse(prog, f, cp)
            finally:
                if had is None:
                    capdrv.SPECS.pop(f.name, None)
                else:
                    capdrv.SPECS[f.name] = had
            for o in cp.obls:
                if o.kind not in ("lower", "upper", "null"):
                    continue
                if o.ok or not o.undecided:
                    n5 += 1
                    chk.ob("M5", f.name, "compaction-access:%s:%s" % (o.kind, canon(f, o.node)[:36]), o.ok, loc=f.loc(o.node),
                           detail="%s: %s; witness %s" % (f.name, o.detail, o.witness),
                           proof="inside argv[0..argc] on every explored path (CAP)")
            continue
        g = GhostPos(f, prog, self_index=None)
        from ..ghostpos import entry_from_callers
        ctx = entry_from_callers(f, u, lambda h: GhostPos(h, prog, self_index=None))
        g.run(list(ctx) if ctx is not None else [Lin.sym("v%d" % acs[0]["d"])])
        AC = Lin.sym("v%d" % acs[0]["d"])
        copy_loops = [lp for lp in walk(f.body) if lp.get("k") in ("for", "while") and any(any(y is c for y in walk(lp.get("body") or {})) for c in copies)]

        def v5(st, x, blk, f=f, g=g):
            if x.get("k") == "assign" and x.get("op") == "=":
                l, r = X.strip(x["ch"][0]), X.strip(x["ch"][1])
                if l.get("k") != "index" or X.strip(l["ch"][0]).get("d") != avs[0]["d"]:
                    return
                a_ = g.lin(l["ch"][1])
                if any(x is c for c in copies):
                    b_ = g.lin(r["ch"][1])
                    ok = a_ is not None and b_ is not None and entails(list(st), a_) and entails(list(st), b_ - a_) and entails(list(st), AC - 1 - b_)
                    chk.ob("M5", f.name, "compaction-copy:" + canon(f, x)[:40], ok, loc=f.loc(x),
                           detail="%s copies %s where 0 <= destination <= source < argc is not provable (state: %s): a kept word would be "
                                  "written past its own position or outside argv" % (f.name, X.render(x)[:50], " & ".join(sorted("%r>=0" % c for c in st))[:200]),
                           proof="0 <= a <= b <= argc-1 entailed")
                elif X.is_null_const(x["ch"][1]) and copy_loops and not any(any(y is x for y in walk(lp)) for lp in copy_loops):
                    # the terminator written after the compaction
                    if any(cfg5.node_dominates(lp["cond"]["i"], x["i"]) for lp in copy_loops if lp.get("cond") is not None):
                        ok = a_ is not None and entails(list(st), a_) and entails(list(st), AC - a_)
                        chk.ob("M5", f.name, "compaction-terminator:" + canon(f, x)[:40], ok, loc=f.loc(x),
                               detail="%s terminates the compacted vector at an index not provably within 0..argc (state: %s)" % (
                                   f.name, " & ".join(sorted("%r>=0" % c for c in st))[:200]), proof="0 <= index <= argc entailed")
        cfg5 = nullness.prepared_cfg(f, NORETURN)
        before = len(chk.obls)
        g.visit(v5)
        n5 += len(chk.obls) - before
    chk.count("compaction_obligations", n5, floor=2)
    # N2 a removed word is not read again: after `argv[i] = NULL` (argument removal) and until the index moves on, no callee that is
    # handed (i, argv) may read argv[i] as a string.  Callee side: GHOSTPOS decides whether an argv[E] read with E == i is feasible.
    def reads_current_word(h, argv_j, idx_j):
        gh = GhostPos(h, prog, self_index=None)
        gh.run()
        I_ = Lin.sym("v%d" % h.params[idx_j]["d"])
        av_d = h.params[argv_j]["d"]
        hits = []
        # locals that hold the address of a slot (rest = &argv[i]): rest[k] is argv[i + k]
        slot_alias = {}
        for y in walk(h.body):
            rhs_, d_ = None, None
            if y.get("k") == "assign" and y.get("op") == "=" and X.strip(y["ch"][0]).get("k") == "ref":
                rhs_, d_ = X.strip(y["ch"][1]), X.strip(y["ch"][0])["d"]
            if y.get("k") == "decl":
                for dcl in y.get("decls", ()):
                    if dcl.get("init") is not None:
                        r0 = X.strip(dcl["init"])
                        if r0.get("k") == "un" and r0.get("op") == "&" and X.strip(r0["ch"][0]).get("k") == "index" and \
                                X.strip(X.strip(r0["ch"][0])["ch"][0]).get("d") == av_d:
                            slot_alias[dcl["d"]] = X.strip(r0["ch"][0])["ch"][1]
            if rhs_ is not None and rhs_.get("k") == "un" and rhs_.get("op") == "&" and X.strip(rhs_["ch"][0]).get("k") == "index" and \
                    X.strip(X.strip(rhs_["ch"][0])["ch"][0]).get("d") == av_d:
                slot_alias[d_] = X.strip(rhs_["ch"][0])["ch"][1]

        def vr(st, x, blk):
            base_d = X.strip(x["ch"][0]).get("d") if x.get("k") == "index" else None
            if x.get("k") == "index" and (base_d == av_d or base_d in slot_alias):
                par = h.parent.get(x["i"])
                if par is not None and par.get("k") == "un" and par.get("op") == "&":
                    return          # &argv[E]: the address of the slot, not its contents
                while par is not None and par.get("k") in ("paren", "icast", "cast"):
                    nxt_ = h.parent.get(par["i"])
                    if par.get("k") in ("icast", "cast") and par.get("ck") != "LValueToRValue" and nxt_ is not None and nxt_.get("k") == "assign" and nxt_["ch"][0] is par:
                        break
                    par = nxt_
                if par is not None and par.get("k") == "assign" and X.strip(par["ch"][0]) is x:
                    return          # a store into the slot, not a read
                e = gh.lin(x["ch"][1])
                if e is not None and base_d in slot_alias:
                    e0 = gh.lin(slot_alias[base_d])
                    e = (e0 + e) if e0 is not None else None
                    if e is None:
                        return      # the slot the alias points at is not a linear expression: not decided
                if e is not None and gh.compatible(st, [e - I_, I_ - e]):
                    hits.append(x)
        gh.visit(vr)
        return hits
    cleared_calls = []

    def clears_slot(h_, pa, pi):
        """does the unit-local helper h_ store NULL into P_pa[P_pi] (drop_arg(argv, pos))?"""
        if h_ is None or h_.body is None or pa >= len(h_.params) or pi >= len(h_.params):
            return False
        da, di = h_.params[pa]["d"], h_.params[pi]["d"]
        for y in walk(h_.body):
            if y.get("k") == "assign" and y.get("op") == "=" and X.is_null_const(y["ch"][1]):
                l_ = X.strip(y["ch"][0])
                if l_.get("k") == "index" and X.strip(l_["ch"][0]).get("d") == da and X.strip(l_["ch"][1]).get("d") == di:
                    return True
        return False

    def tr2(state, x, blk):
        if x.get("k") == "call":
            h_ = u.functions.get(X.callee_name(x) or "")
            if h_ is not None:
                args_ = x["ch"][1:]
                aj_ = [j for j, a in enumerate(args_) if X.strip(a).get("d") == argv_d]
                ij_ = [j for j, a in enumerate(args_) if X.strip(a).get("d") == i_d]
                if aj_ and ij_ and clears_slot(h_, aj_[0], ij_[0]):
                    return state | {"cleared"}
        if x.get("k") == "assign" and x.get("op") == "=":
            l = X.strip(x["ch"][0])
            if l.get("k") == "index" and X.strip(l["ch"][0]).get("d") == argv_d and X.strip(l["ch"][1]).get("d") == i_d and X.is_null_const(x["ch"][1]):
                return state | {"cleared"}
            if l.get("k") == "ref" and l.get("d") == i_d:
                return state - {"cleared"}
        if x.get("k") == "assign" and X.strip(x["ch"][0]).get("d") == i_d:
            return state - {"cleared"}
        if x.get("k") == "un" and x.get("op") in ("++", "--") and X.strip(x["ch"][0]).get("d") == i_d:
            return state - {"cleared"}
        return state

    def vis2(state, x, blk):
        if x.get("k") == "call" and "cleared" in state:
            h = u.functions.get(X.callee_name(x) or "")
            if h is None or h.cfg is None:
                return
            args = x["ch"][1:]
            aj = [j for j, a in enumerate(args) if X.strip(a).get("d") == argv_d]
            ij = [j for j, a in enumerate(args) if X.strip(a).get("d") == i_d]
            if aj and ij and aj[0] < len(h.params) and ij[0] < len(h.params):
                cleared_calls.append((x, h, aj[0], ij[0]))
    flow.forward(cfg, frozenset(), tr2, join=lambda a, b: a | b, visit=vis2)
    n_n2 = 0
    for x, h, aj, ij in cleared_calls:
        n_n2 += 1
        hits = reads_current_word(h, aj, ij)
        chk.ob("N2", parse.name, "removed-word-not-reread:" + h.name, not hits, loc=h.loc(hits[0]) if hits else parse.loc(x),
               detail="spifopt_parse calls %s (%s) on a path where argv[i] has been set to NULL by argument removal and the index has not "
                      "moved, and %s reads %s, which can be that very slot, as a string: NULL dereference (-xVALUE spelling with "
                      "removal enabled)" % (h.name, parse.loc(x), h.name, X.render(hits[0])[:30] if hits else ""),
               proof="no argv[E] read with E == i is feasible in %s" % h.name)
    chk.count("calls_after_word_removal", n_n2, floor=1)
    chk.count("long_option_lookups", check_long_lookup_words(chk, prog, u), floor=2)
    chk.count("long_name_comparisons", check_whole_name_match(chk, prog, u), floor=1)
    chk.count("value_finders", check_value_finder(chk, prog, u))
    # B1 argument-list handler: every store into the word list it allocates is within the allocation (CAP, strict: a bound that
    # cannot be established is reported), and what it hands to the string functions is a string
    from ..cap import Cap
    from ..capcheck import run_cap

    class LocalCap(Cap):
        def no_inline(self, fn):
            return fn.unit is not self.cur_fn.unit or Cap.no_inline(self, fn)
    al_fns = [f for f in u.functions.values() if f.cfg is not None and any(
        X.callee_name(c) in ("malloc", "spifmem_malloc") for c in X.calls_in(f.body)) and any(
        p.get("tp") and re.search(r"char \*\*|char \*\[\]", (p.get("tc") or "") + (p.get("t") or "")) for p in f.params)]
    nb, nund, samples = run_cap(chk, prog, al_fns, rule="B1", noreturn=NORETURN, strict=True,
                                cap_factory=lambda p_: LocalCap(p_, noreturn=NORETURN), kinds={"upper", "lower", "count"})
    chk.count("list_building_functions", nb, floor=1)
    chk.count("boolean_value_stores", n1, floor=2)
    chk.count("target_stores_and_handler_calls", n2, floor=5)
    chk.count("cursor_events", nchecked, floor=6)
    chk.analysed = {"units": ["options.c"]}
    return chk.finish()
