"""C12 — split, tok and the word utilities never read beyond the terminator of their input.

CAP (strict) over spiftool_split, spif_tok_eval, spiftool_get_word, spiftool_get_pword and spiftool_num_words: the
scan cursor stays at or before the terminator on every path (including a trailing backslash, a quote inside the other
kind of quote, an explicit delimiter set), every token buffer write is in bounds, and every scanner loop advances.
S3: spiftool_split and spif_tok_eval agree on the per-character step for every (current, next, quote state) configuration
(STEPEQ: finite abstract evaluation over character classes; default quote/escape characters of the tok class).
S2: the word loops of get_word/get_pword/num_words carry only their cursors and counters from word to word (LOOPSTATE).
The token lists themselves (the grammar) are not decided."""
import re
from .. import facts, expr as X, loopstate
from ..facts import walk
from ..report import Check
from ..cap import Cap
from ..capcheck import run_cap

NORETURN = {"libast_fatal_error"}
FUNCS = ["spiftool_split", "spiftool_get_word", "spiftool_get_pword", "spiftool_num_words", "spif_tok_eval"]


class ProgressCap(Cap):
    check_progress = True

    def no_inline(self, fn):
        # methods of other classes are verified on their own (C01); here only the scanner's cursor matters
        return fn.unit is not self.cur_fn.unit or Cap.no_inline(self, fn)


def run(tier="quick"):
    chk = Check("C12", level="other", tier=tier,
                explanation="CAP (strict, with loop-progress obligations) over the scanners: cursor-vs-terminator discipline and token-buffer bounds")
    chk.rule("B1", "cursor never passes the terminator; token buffer writes in bounds")
    chk.rule("P1", "every scanner loop advances")
    chk.rule("S3", "spiftool_split and the tok scanner take the same per-character step (emission, advance, quote state) in every configuration")
    chk.rule("S4", "each scanner's per-character step is the one the quoting grammar prescribes")
    chk.rule("S2", "word loops carry only their header variables from word to word (no stale delimiter/quote state)")
    prog = facts.extract()
    fns = []
    for nm in FUNCS:
        f = prog.fn(nm)
        if f is None:
            raise facts.AnalysisBroken("scanner %s not found" % nm)
        fns.append(f)
    holder = []

    def factory(p):
        c = ProgressCap(p, noreturn=NORETURN)
        holder.append(c)
        return c
    n, nund, samples = run_cap(chk, prog, fns, rule="B1", noreturn=NORETURN, strict=True, cap_factory=factory,
                               kinds={"lower", "upper", "null", "count", "cursor", "freed"})
    nloops = 0
    for cp in holder:
        k = 0
        for o in cp.obls:
            if o.kind == "progress":
                nloops += 1
                k += 1
                if not o.ok and any((X.callee_name(c_) or "") in o.fn.unit.functions for c_ in X.calls_in(o.node)):
                    chk.note("P1: progress of the loop at %s goes through a helper call; not decided" % o.fn.loc(o.node))
                    continue
                if not o.ok and o.fn.nodes.get(o.node.get("i")) is not o.node:
                    # a loop of an inlined helper (same policy as the strict bounds of run_cap): what the helper's cursor is -
                    # a value handed in through a structure of the caller - is weaker knowledge than a local of the scanner
                    chk.note("P1: progress of the loop at line %s of a helper inlined into %s is not established; not decided" % (o.node.get("l"), o.fn.name))
                    continue
                chk.ob("P1", o.fn.name, "progress:loop%d" % k, o.ok, loc=o.fn.loc(o.node), detail="%s: %s" % (o.fn.name, o.detail),
                       proof="a cursor/index strictly advances on every path through the body")
    # S5: an evaluation that reports success has replaced the token list: a store of a fresh list into self->tokens dominates
    # every successful return of the tok scanner (an object that is evaluated again - with an empty source, say - must not keep
    # the tokens of the source it was evaluated on before)
    from .. import nullness as _nl
    tf = prog.fn("spif_tok_eval")
    if tf is not None and tf.body is not None and tf.cfg is not None:
        tcfg = _nl.prepared_cfg(tf, NORETURN)
        stores = []
        for x in walk(tf.body):
            if x.get("k") == "assign" and x.get("op") == "=":
                l = X.strip(x["ch"][0])
                if l is not None and l.get("k") == "member" and l.get("n") == "tokens":
                    r_ = X.strip(x["ch"][1])
                    fresh_ = any(y.get("k") == "call" for y in walk(x["ch"][1]))
                    if not fresh_ and r_ is not None and r_.get("k") == "ref" and r_.get("rk") == "local":
                        # the new list goes through a local first (fresh = LIST_NEW(..); self->tokens = fresh;)
                        defs_ = [y["ch"][1] for y in walk(tf.body) if y.get("k") == "assign" and y.get("op") == "=" and (X.strip(y["ch"][0]) or {}).get("d") == r_["d"]]
                        defs_ += [dc["init"] for y in walk(tf.body) if y.get("k") == "decl" for dc in y.get("decls", ()) if dc["d"] == r_["d"] and dc.get("init") is not None]
                        fresh_ = bool(defs_) and all(any(z.get("k") == "call" for z in walk(e_)) for e_ in defs_)
                    if fresh_:
                        stores.append(x)
        for c_ in X.calls_in(tf.body):          # the reset moved into a unit-local helper
            g_ = tf.unit.functions.get(X.callee_name(c_) or "")
            if g_ is not None and g_.body is not None and any(
                    y.get("k") == "assign" and (X.strip(y["ch"][0]) or {}).get("k") == "member" and X.strip(y["ch"][0]).get("n") == "tokens" and
                    any(z.get("k") == "call" for z in walk(y["ch"][1])) for y in walk(g_.body)):
                stores.append(c_)
        rets = [x for x in walk(tf.body) if x.get("k") == "return" and x.get("val") is not None and (X.const_val(x["val"]) or 0) != 0
                and not any(m_.startswith("b:ASSERT") or m_.startswith("b:REQUIRE") for m_ in x.get("m", []))]
        bad = [r for r in rets if not any(tcfg.node_dominates(s_["i"], r["i"]) for s_ in stores)]
        chk.rule("S5", "a successful evaluation has replaced the token list")
        chk.ob("S5", tf.name, "token-list-replaced", bool(rets) and not bad, loc=tf.loc(bad[0]) if bad else tf.loc(tf.body),
               detail="%s reports success on a path on which it has not stored a new token list: the object keeps the tokens of the "
                      "source it was evaluated on before" % tf.name,
               proof="a store of a fresh list into self->tokens dominates every successful return")
    # S6 a copy is tokenized with its own separators: in a dup function of the tokenizer, a method applied to the copy that reads a
    # field of the object it is given runs after the copy has been given that field - evaluating the copy first and copying the
    # separator set (or the quoting characters) afterwards tokenizes it with the defaults, so the copy's tokens differ from
    # what the grammar defines for its own (source, separators)
    chk.rule("S6", "a duplicate is only evaluated after it has been given the fields the evaluation reads")
    n6 = 0
    tu = prog.units.get("tok.c")
    for f6 in (tu.functions.values() if tu is not None else ()):
        if f6.body is None or f6.cfg is None or not re.search(r"_dup$", f6.name):
            continue
        cfg6 = _nl.prepared_cfg(f6, NORETURN)
        copies = set()
        for x in walk(f6.body):
            if x.get("k") == "assign" and x.get("op") == "=":
                l, r = X.strip(x["ch"][0]), X.strip(x["ch"][1])
                if l is not None and l.get("k") == "ref" and l.get("rk") == "local" and r is not None and r.get("k") == "call" and re.search(r"_new$", X.callee_name(r) or ""):
                    copies.add(l["d"])
        stores6 = {}
        for x in walk(f6.body):
            if x.get("k") == "assign" and x.get("op") == "=":
                l = X.strip(x["ch"][0])
                if l is not None and l.get("k") == "member" and l.get("arrow") and (X.strip(l["ch"][0]) or {}).get("d") in copies:
                    stores6.setdefault(l["n"], []).append(x)
        for c in X.calls_in(f6.body):
            g6 = tu.functions.get(X.callee_name(c) or "")
            a0 = X.strip(c["ch"][1]) if c["ch"][1:] else None
            if g6 is None or g6.body is None or not g6.params or a0 is None or a0.get("k") != "ref" or a0.get("d") not in copies or re.search(r"_(new|init)$", g6.name):
                continue
            reads6 = set()
            for y in walk(g6.body):
                if y.get("k") == "member" and y.get("arrow") and (X.strip(y["ch"][0]) or {}).get("d") == g6.params[0]["d"]:
                    par = g6.parent.get(y["i"])
                    if not (par is not None and par.get("k") == "assign" and par.get("op") == "=" and X.strip(par["ch"][0]) is y):
                        reads6.add(y["n"])
            def after6(a_id, b_id):
                """is node b reachable from node a?"""
                pa, pb = cfg6.pos.get(a_id), cfg6.pos.get(b_id)
                if pa is None or pb is None:
                    return False
                if pa[0] == pb[0] and pa[1] < pb[1]:
                    return True
                seen_, work_ = set(), [pa[0]]
                while work_:
                    cur_ = work_.pop()
                    for s_, _c, _t in cfg6.edges(cur_):
                        if s_ == pb[0]:
                            return True
                        if s_ not in seen_:
                            seen_.add(s_)
                            work_.append(s_)
                return False
            late = sorted(fld for fld in reads6 if fld in stores6 and not any(cfg6.node_dominates(st_["i"], c["i"]) for st_ in stores6[fld])
                          and any(after6(c["i"], st_["i"]) for st_ in stores6[fld]))
            n6 += 1
            chk.ob("S6", f6.name, "copy-complete-before:%s" % g6.name, not late, loc=f6.loc(c),
                   detail="%s applies %s() to the copy before the copy has been given %s (stored only afterwards): the method works on the "
                          "constructor's defaults instead of the original's settings, so the copy's result differs from the original's" % (
                              f6.name, g6.name, ", ".join(late)),
                   proof="every field %s reads is stored into the copy before the call (or not stored by the dup at all)" % g6.name)
    chk.count("methods_applied_to_a_copy", n6)
    # S2: the word loops treat every word on its own: only the variables named by the loop header survive an iteration
    nitem = 0
    for nm in ("spiftool_get_word", "spiftool_get_pword", "spiftool_num_words"):
        f = prog.fn(nm)
        outer = [x for x in walk(f.body) if x.get("k") in ("for", "while") and any(y.get("k") in ("for", "while") for y in walk(x.get("body") or {}) if y is not x)]
        outer = [x for x in outer if not any(x is not o and any(y is x for y in walk(o.get("body") or {})) for o in outer)]
        for lp in outer:
            nitem += 1
            loopstate.check_item_loop(chk, "S2", f, lp, "word")
    # S3: split and tok agree on the per-character step (STEPEQ: finite abstract evaluation over character classes)
    from .. import stepeq
    sib = []
    for nm in ("spiftool_split", "spif_tok_eval"):
        f = prog.fn(nm)
        if f is None:
            raise facts.AnalysisBroken("%s not found" % nm)
        r = stepeq.find_token_loop(f)
        if r is None:
            raise facts.AnalysisBroken("token loop of %s not identified" % nm)
        consts = {}
        for g in r[3].unit.functions.values():
            # every constant the unit stores into an 8-bit field (the defaults, wherever they are set: init functions, done, a
            # helper); the field counts as configured to that character when all such stores agree
            if g.body is None:
                continue
            for x in walk(g.body):
                if x.get("k") == "assign" and x.get("op") == "=" and X.strip(x["ch"][0]).get("k") == "member" and X.const_val(x["ch"][1]) is not None \
                        and (X.strip(x["ch"][0]).get("tw") or 0) == 8:
                    nm_ = (X.strip(x["ch"][0]).get("rec"), X.strip(x["ch"][0])["n"])      # a field of one record type
                    v_ = X.const_val(x["ch"][1])
                    consts[nm_] = v_ if consts.get(nm_, v_) == v_ else None
        consts = {k_: v_ for k_, v_ in consts.items() if v_ is not None}
        sib.append((r[3], r, stepeq.Step(r[3], r[1], r[2], consts)))
    ndec = nundec = 0
    diffs = []
    gdiffs = []
    # one outcome per configuration: the token ends here ("END": the loop condition fails or the body breaks out), or the step taken
    configs = [("step", cur, nxt, qu) for cur in ("NUL",) + stepeq.CLASSES for nxt in ("NUL",) + stepeq.CLASSES for qu in ("NUL", "DQ", "SQ")
               if not (cur == "NUL" and nxt != "NUL")]
    for cfg_ in configs:
        outs = []
        try:
            for f, r, st_ in sib:
                outs.append(st_.run(r[0], cfg_[1], cfg_[2], cfg_[3]))
        except stepeq.Undecided as e:
            nundec += 1
            chk.note("S3: configuration %s not decided: %s" % (cfg_, e))
            continue
        ndec += 1
        if outs[0] != outs[1]:
            diffs.append((cfg_, outs))
        want = stepeq.grammar_step(cfg_[1], cfg_[2], cfg_[3]) if stepeq.grammar_continues(cfg_[1], cfg_[3]) else "END"
        for (f, r, st_), got in zip(sib, outs):
            if got != want:
                gdiffs.append((f, r, cfg_, got, want))
    def describe(o):
        return "ends the token" if o == "END" else ("emits %s, advances %d, quote -> %s" % (list(o[0]), o[1], o[2]))
    NAMES = {"DQ": "a double quote", "SQ": "a single quote", "ESC": "a backslash", "DELIM": "a delimiter", "OTHER": "an ordinary character", "NUL": "the terminator"}
    f0, r0, _ = sib[0]
    f1, r1, _ = sib[1]
    if diffs:
        for cfg_, outs in diffs[:4]:
            what = "at %s followed by %s, %s: %s %s; %s %s" % (
                NAMES[cfg_[1]], NAMES[cfg_[2]], "outside quotes" if cfg_[3] == "NUL" else "inside %s quotes" % ("double" if cfg_[3] == "DQ" else "single"),
                f0.name, describe(outs[0]), f1.name, describe(outs[1]))
            chk.ob("S3", f0.name, "step-agreement:%s/%s/%s" % (cfg_[1], cfg_[2], cfg_[3]), False, loc=f0.loc(r0[0]),
                   detail="the two scanners disagree on the per-character step " + what)
    else:
        chk.ob("S3", f0.name, "step-agreement", True, loc=f0.loc(r0[0]),
               proof="%d character/look-ahead/quote configurations evaluated abstractly in both scanners: same emission, advance, quote state and continuation" % ndec)
    for f in (f0, f1):
        mine = [g for g in gdiffs if g[0] is f]
        if mine:
            _, r, cfg_, got, want = mine[0]
            chk.ob("S4", f.name, "step-grammar:%s/%s/%s" % (cfg_[1], cfg_[2], cfg_[3]), False, loc=f.loc(r[0]),
                   detail="%s departs from the quoting grammar at %s%s, %s: it %s where the grammar %s" % (
                       f.name, NAMES[cfg_[1]], (" followed by " + NAMES[cfg_[2]]) if cfg_[2] else "",
                       "outside quotes" if cfg_[3] == "NUL" else "inside %s quotes" % ("double" if cfg_[3] == "DQ" else "single"),
                       describe(got), describe(want)))
        else:
            chk.ob("S4", f.name, "step-grammar", True, loc=f.loc(f.body),
                   proof="every decided configuration takes the step the grammar prescribes (quotes group and are removed, a backslash makes a "
                         "following delimiter or the closing quote literal, the rest is copied)")
    chk.count("step_configurations_decided", ndec, floor=90)
    chk.count("step_configurations_undecided", nundec)
    chk.count("word_loops", nitem, floor=3)
    chk.count("scanners", n, floor=5)
    chk.count("loops_with_progress_obligation", nloops, floor=12)
    chk.count("undecided_obligations", nund)
    if samples:
        chk.note("undecided: " + " | ".join(samples))
    chk.analysed = {"functions": FUNCS}
    chk.assume("inputs are NUL-terminated strings; a tokenizer's source is a valid str object; ctype predicates are false for NUL; "
               "strchr(set, c) is modelled as possibly matching any c including the terminator")
    return chk.finish()
