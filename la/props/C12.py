"""C12 — split, tok and the word utilities never read beyond the terminator of their input.

CAP (strict) over spiftool_split, spif_tok_eval, spiftool_get_word, spiftool_get_pword and spiftool_num_words: the
scan cursor stays at or before the terminator on every path (including a trailing backslash, a quote inside the other
kind of quote, an explicit delimiter set), every token buffer write is in bounds, and every scanner loop advances.
S2: the word loops of get_word/get_pword/num_words carry only their cursors and counters from word to word (LOOPSTATE).
The token lists themselves (the grammar) are not decided."""
from .. import facts, expr as X, loopstate
from ..facts import walk
from ..report import Check
from ..cap import Cap
from ..capcheck import run_cap

NORETURN = {"libast_fatal_error"}
FUNCS = ["spiftool_split", "spiftool_get_word", "spiftool_get_pword", "spiftool_num_words", "spif_tok_eval"]


class ProgressCap(Cap):
    check_progress = True

    def no_inline(self, fn):
        # methods of other classes are verified on their own (C01); here only the scanner's cursor matters
        return fn.unit is not self.cur_fn.unit or Cap.no_inline(self, fn)


def run(tier="quick"):
    chk = Check("C12", level="other", tier=tier,
                explanation="CAP (strict, with loop-progress obligations) over the scanners: cursor-vs-terminator discipline and token-buffer bounds")
    chk.rule("B1", "cursor never passes the terminator; token buffer writes in bounds")
    chk.rule("P1", "every scanner loop advances")
    chk.rule("S2", "word loops carry only their header variables from word to word (no stale delimiter/quote state)")
    prog = facts.extract()
    fns = []
    for nm in FUNCS:
        f = prog.fn(nm)
        if f is None:
            raise facts.AnalysisBroken("scanner %s not found" % nm)
        fns.append(f)
    holder = []

    def factory(p):
        c = ProgressCap(p, noreturn=NORETURN)
        holder.append(c)
        return c
    n, nund, samples = run_cap(chk, prog, fns, rule="B1", noreturn=NORETURN, strict=True, cap_factory=factory,
                               kinds={"lower", "upper", "null", "count", "cursor", "freed"})
    nloops = 0
    for cp in holder:
        k = 0
        for o in cp.obls:
            if o.kind == "progress":
                nloops += 1
                k += 1
                if not o.ok and any((X.callee_name(c_) or "") in o.fn.unit.functions for c_ in X.calls_in(o.node)):
                    chk.note("P1: progress of the loop at %s goes through a helper call; not decided" % o.fn.loc(o.node))
                    continue
                chk.ob("P1", o.fn.name, "progress:loop%d" % k, o.ok, loc=o.fn.loc(o.node), detail="%s: %s" % (o.fn.name, o.detail),
                       proof="a cursor/index strictly advances on every path through the body")
    # S2: the word loops treat every word on its own: only the variables named by the loop header survive an iteration
    nitem = 0
    for nm in ("spiftool_get_word", "spiftool_get_pword", "spiftool_num_words"):
        f = prog.fn(nm)
        outer = [x for x in walk(f.body) if x.get("k") in ("for", "while") and any(y.get("k") in ("for", "while") for y in walk(x.get("body") or {}) if y is not x)]
        outer = [x for x in outer if not any(x is not o and any(y is x for y in walk(o.get("body") or {})) for o in outer)]
        for lp in outer:
            nitem += 1
            loopstate.check_item_loop(chk, "S2", f, lp, "word")
    chk.count("word_loops", nitem, floor=3)
    chk.count("scanners", n, floor=5)
    chk.count("loops_with_progress_obligation", nloops, floor=12)
    chk.count("undecided_obligations", nund)
    if samples:
        chk.note("undecided: " + " | ".join(samples))
    chk.analysed = {"functions": FUNCS}
    chk.assume("inputs are NUL-terminated strings; a tokenizer's source is a valid str object; ctype predicates are false for NUL; "
               "strchr(set, c) is modelled as possibly matching any c including the terminator")
    return chk.finish()
