"""C10 — config value expansion: cursor discipline, write-or-retract, bounded copies, declared effects.

Decided (structure of spifconf_shell_expand and the variable store):
  N1  NULCURSOR: the input cursor is advanced only over bytes known to be non-NUL and every look-ahead read is
      justified by a test of the bytes before it - on every path (trailing backslash, unterminated ${ or $( ,
      %name( at the end of the input) the cursor cannot pass the terminator
  V1  write-or-retract: on every path through one iteration of the main loop the output position j is written
      (newbuff[j] = ..  or a bounded copy starting at newbuff + j) or j is retracted; no iteration leaves a byte of
      the result unwritten (the result never depends on stack contents)
  V2  the bounded copies into the 20 kB result all have destination newbuff + j and size max - j (sibling agreement)
  V3  the result is terminated at j after the loop (store newbuff[j] = 0 dominates the copy back)
  V5  effects: globals referenced by the expansion code are within the declared set
  V6  the variable store: every early exit of the lookup loop is decided by the same ordering function that the
      insertion uses (strcmp), so lookup and insertion agree on the order
  V4  every indexed store into the result buffer is below its size (GHOSTPOS over the output index; also with DEBUG=0)
  V7  the escape table: every backslash-letter the code turns into a constant yields the control character of that name
  V9  spiftool_safe_strncpy stores a terminator on every return reachable with size >= 1
  V8  ${NAME} / $(NAME): the closing bracket that ended the name scan is consumed, not handed back to the main loop as text
  B1  CAP over the builtin_* functions: every write into their buffers (the %exec command line, ...) is bounded
Not decided: the value of the expansion (escape table, quoting, %put/%get semantics)."""
import re

from .. import facts, expr as X, nulcursor, nullness, flow
from ..facts import walk
from ..report import Check, canon

NORETURN = {"libast_fatal_error"}
ALLOWED_GLOBALS = {"builtins", "libast_debug_level", "fstate", "fstate_idx", "stderr", "libast_program_name", "libast_program_version",
                   "spifconf_vars", "rseed", "environ", "errno"}


def local_named(f, name):
    for d, v in f.vardecls.items():
        if v["n"] == name:
            return d
    return None


def run(tier="quick"):
    chk = Check("C10", level="other", tier=tier,
                explanation="cursor typestate over the input, write-or-retract dataflow over the output index, sibling agreement of the "
                            "bounded copies, effect set, ordering agreement of the variable store")
    for rid, txt in (("N1", "input cursor never passes the terminator"), ("V1", "every iteration writes position j or retracts j"),
                     ("V2", "bounded copies: destination newbuff + j, size max - j"), ("V3", "result terminated at j"), ("V4", "every indexed store into the result buffer is inside it"),
                     ("V5", "effects within the declared set"), ("B1", "the built-ins' buffer writes are bounded (CAP)"), ("V7", "escape letters map to the control characters they name"), ("V8", "a bracketed reference consumes its closing bracket"), ("V9", "the bounded copy terminates its destination whenever size >= 1"), ("V6", "lookup early exits use the insertion's ordering function")):
        chk.rule(rid, txt)
    prog = facts.extract(only=["conf.c"])
    u = prog.units["conf.c"]
    f = prog.need("spifconf_shell_expand")
    cfg = nullness.prepared_cfg(f, NORETURN)
    pb = local_named(f, "pbuff")
    # the cursor: the local initialised from the parameter and dereferenced by the main loop condition
    if pb is None:
        for d, v in f.vardecls.items():
            if v.get("init") is not None and X.strip(v["init"]).get("rk") == "param" and v.get("tp"):
                pb = d
    cursors = {pb} if pb is not None else None
    if pb is None:
        # an index cursor: the input parameter is never re-pointed and an integer local indexes it in the outermost loop's test
        sd = f.params[0]["d"]
        repointed = any(x.get("k") in ("assign", "un") and x.get("ch") and X.strip(x["ch"][0]) is not None and X.strip(x["ch"][0]).get("d") == sd and
                        (x.get("k") == "assign" or x.get("op") in ("++", "--", "&")) for x in walk(f.body))
        outer = [n for n in walk(f.body) if n.get("k") in ("for", "while", "do") and n.get("cond") is not None]
        outer = [lp for lp in outer if not any(lp is not o and any(y is lp for y in walk(o.get("body") or {})) for o in outer)]
        if not repointed:
            for lp in outer:
                for x in walk(lp["cond"]):
                    if x.get("k") == "index" and X.strip(x["ch"][0]).get("d") == sd:
                        ix = X.strip(x["ch"][1])
                        if ix.get("k") == "ref" and ix.get("rk") == "local" and not ix.get("tp") and pb is None:
                            pb = ix["d"]
                            cursors = nulcursor.Cursors({pb})
                            cursors.index_base[pb] = sd
    if pb is None:
        raise facts.AnalysisBroken("input cursor of spifconf_shell_expand not identified")
    # variable offsets justified by a successful strncasecmp(name, cursor, l)
    just_vars = set()
    for c in X.calls_in(f.body):
        if X.callee_name(c) in ("strncasecmp", "strncmp") and len(c["ch"]) >= 4:
            a1 = X.strip(c["ch"][2])
            a2 = X.strip(c["ch"][3])
            co_ = nulcursor.cursor_offset(c["ch"][2], cursors)
            if co_ == (pb, 0) and a2.get("k") == "ref":
                just_vars.add(a2["d"])

    # where the table entry the search stopped at is known to have a name (a built-in matched) - as a must-fact of the nullness
    # dataflow, so it does not matter whether the skip sits in an arm of that test or behind an early exit on its negation
    matched_at = set()
    ncfg_ = nullness.prepared_cfg(f, NORETURN)

    def _vis_matched(state, x, blk):
        if any(f_[0] == "nn" and "name" in str(f_[1]) for f_ in state):
            matched_at.add(x["i"])
    if ncfg_ is not None:
        flow.forward(ncfg_, frozenset(), nullness.transfer, refine=nullness.refine, visit=_vis_matched)

    handed_on = []

    def justified(n, state):
        for x in walk(n):
            if x.get("k") == "ref" and x.get("d") in just_vars:
                return True
        if n.get("k") == "assign" and n.get("op") == "+=":
            r_ = X.strip(n["ch"][1])
            g_ = u.functions.get(X.callee_name(r_) or "") if r_ is not None and r_.get("k") == "call" else None
            if g_ is not None and g_.body is not None and g_.static and any((X.strip(a_) or {}).get("d") in cursors for a_ in r_["ch"][1:]):
                # the distance was measured by a scan helper of the same file that was handed the cursor: whether every byte it
                # counted was tested lies in the helper, which this rule does not follow (undecided, noted - not a violation)
                handed_on.append("%s (%s)" % (g_.name, f.loc(n)))
                return True
        if n["i"] in matched_at:
            # ... for the skips in the main loop's own body only: a nested loop (the table search itself, the collection of the
            # call's arguments) must justify its steps by its own tests
            loops_ = [anc for anc in f.ancestors(n) if anc.get("k") in ("for", "while", "do")]
            if len(loops_) == 1:
                return True
        # the two skips over "(" / " )" right after a builtin name matched: the match test compared pbuff[l] (and pbuff[l+1])
        # with '(' / ' ' / ')', so those bytes are not the terminator
        child = n
        for anc in f.ancestors(n):
            if anc.get("k") in ("for", "while", "do") and child is anc.get("body"):
                return False
            if anc.get("k") == "if" and any(y.get("k") == "member" and y.get("n") == "name" for y in walk(anc["cond"])) and any(
                    y.get("k") == "ref" and y.get("n") == "builtins" for y in walk(anc["cond"])):
                # the arm on which the table entry the search stopped at has a name (a built-in matched), whichever way the
                # test is written
                inthen = any(y is n for y in walk(anc["then"]))
                inelse = anc.get("else") is not None and any(y is n for y in walk(anc["else"]))
                if inthen or inelse:
                    if any(f_[0] == "nn" and "name" in str(f_[1]) for f_ in X.implied(anc["cond"], inthen)):
                        return True
            child = anc
        return False
    viol, nchecked = nulcursor.analyse(f, cursors, entry_safe=0, justified=justified)
    for n, kind, msg in viol:
        chk.ob("N1", f.name, "%s:%s" % (kind, canon(f, n)[:40]), False, loc=f.loc(n), detail="%s: %s" % (f.name, msg))
    if not viol:
        chk.ob("N1", f.name, "cursor", True, loc=f.loc(f.body), proof="%d cursor reads/advances, each covered by a non-NUL test of the bytes before it" % nchecked)
    if handed_on:
        chk.note("N1 undecided: the cursor is moved by the result of a scan helper that is not followed: " + ", ".join(sorted(set(handed_on))))
    # ---- V1 write-or-retract over j
    # the result buffer: the local array that is copied back into the argument at the end; the main loop: the outermost
    # `for` whose body switches on the input byte; the output index: the integer its increment clause steps
    nb = None
    for c in X.calls_in(f.body):
        if X.callee_name(c) in ("strcpy", "__builtin_strcpy", "__builtin___strcpy_chk") and len(c["ch"]) >= 3:
            src = X.strip(c["ch"][2])
            if src.get("k") == "ref" and src.get("rk") == "local":
                nb = src["d"]
    # the main loop: the outermost loop whose body switches on the input byte; the output index: the integer local that
    # indexes the stores into the result buffer inside it
    loops = [n for n in walk(f.body) if n.get("k") in ("for", "while", "do") and n.get("body") is not None and any(y.get("k") == "switch" for y in walk(n["body"]))]
    loops = [lp for lp in loops if not any(lp is not o and any(y is lp for y in walk(o["body"])) for o in loops)]
    jd = None
    if loops and nb is not None:
        cands = {}
        for x in walk(loops[0]):
            if x.get("k") == "assign" and x.get("op") == "=":
                l = X.strip(x["ch"][0])
                if l.get("k") == "index" and X.strip(l["ch"][0]).get("d") == nb:
                    for y in walk(l["ch"][1]):
                        if y.get("k") == "ref" and y.get("rk") == "local" and not y.get("tp"):
                            cands[y["d"]] = cands.get(y["d"], 0) + 1
        if cands:
            jd = max(cands, key=lambda d: cands[d])
    if jd is None or nb is None or not loops:
        raise facts.AnalysisBroken("main loop of spifconf_shell_expand (output index over the result buffer) not identified")
    main = loops[0]
    delegated = []

    def is_nb_at_j(e):
        """newbuff + j  or &newbuff[j]"""
        s = X.strip(e)
        if s.get("k") == "bin" and s.get("op") == "+":
            a, b = X.strip(s["ch"][0]), X.strip(s["ch"][1])
            return a.get("d") == nb and b.get("k") == "ref" and b.get("d") == jd
        if s.get("k") == "un" and s.get("op") == "&":
            t = X.strip(s["ch"][0])
            if t.get("k") == "index":
                a, b = X.strip(t["ch"][0]), X.strip(t["ch"][1])
                return a.get("d") == nb and b.get("k") == "ref" and b.get("d") == jd
        return False

    def wr_transfer(state, n, blk):
        state = nullness.transfer(state, n, blk)
        k = n.get("k")
        if k == "assign" and n.get("op") == "=":
            l = X.strip(n["ch"][0])
            if l.get("k") == "index" and X.strip(l["ch"][0]).get("d") == nb:
                ix = X.strip(l["ch"][1])
                if ix.get("k") == "ref" and ix.get("d") == jd:
                    return state | {("w",)}
                if ix.get("k") == "un" and ix.get("op") == "++" and X.strip(ix["ch"][0]).get("d") == jd:
                    return state   # newbuff[j++] = x : wrote the old position; the new one is still open
        if k == "un" and n.get("op") == "++" and X.strip(n["ch"][0]).get("d") == jd:
            return frozenset(x for x in state if x != ("w",))
        if k == "un" and n.get("op") == "--" and X.strip(n["ch"][0]).get("d") == jd:
            return state | {("w",)}      # retracted: the loop increment brings j back to an already-written or same position
        if k == "assign" and n.get("op") in ("+=",) and X.strip(n["ch"][0]).get("d") == jd:
            return state                  # j += (bytes copied - 1): the copy below/above wrote them
        if k == "call" and u.functions.get(X.callee_name(n) or "") is not None and u.functions[X.callee_name(n)].static:
            # a static helper that is handed the result buffer and the output index (or its address) does the writing: the
            # bounded copy inside it is checked by V2 in the helper's own terms; this path is not decided here
            args = n["ch"][1:]
            has_nb = any(X.strip(a).get("d") == nb for a in args)
            has_j = any(y.get("k") == "ref" and y.get("d") == jd for a in args for y in walk(a))
            if has_nb and has_j:
                delegated.append(n)
                return state | {("w",)}
        if k == "call" and X.callee_name(n) in ("spiftool_safe_strncpy", "strncpy", "memcpy", "snprintf") and n["ch"][1:] and is_nb_at_j(n["ch"][1]):
            # copying an empty string stores only a terminator at j (and truncates the result there): the copy counts as
            # writing position j only where its source is known to be non-empty
            src = X.strip(n["ch"][2])
            if src.get("k") == "ref" and ("true", "*d%d" % src["d"]) in state:
                return state | {("w",)}
            return state
        return state
    ends = []

    def wr_visit(state, n, blk):
        # every step of the output index to the next position (the loop's own increment, or one in the middle of an iteration
        # that emits two bytes) leaves a written position behind; `newbuff[j++] = x` writes as it steps
        if n.get("k") == "un" and n.get("op") == "++" and X.strip(n["ch"][0]).get("d") == jd and any(y is n for y in walk(main)):
            par = f.parent.get(n["i"])
            while par is not None and par.get("k") in ("paren", "icast", "cast"):
                par = f.parent.get(par["i"])
            if par is not None and par.get("k") == "index":
                return
            ends.append((n, ("w",) in state, blk))
    flow.forward(cfg, frozenset({("w",)}), wr_transfer, refine=nullness.refine, visit=wr_visit)
    ok = bool(ends) and all(e[1] for e in ends)
    # locate an offending path end for the report
    chk.ob("V1", f.name, "write-or-retract", ok, loc=f.loc(main),
           detail="%s: some path through one iteration of the main loop neither writes newbuff[j] (or a bounded copy at newbuff + j) nor "
                  "retracts j: that byte of the result is whatever was on the stack" % f.name,
           proof="every path to the loop increment has written position j or decremented j")
    # ---- V2 bounded copies at an offset: wherever conf.c copies with the bounded copy into `B + O`, the size is `L - O` for the
    # same O (otherwise the text lands at one place while the bound is computed for another), and all sites with the same
    # base B agree on the limit L (sibling agreement).  Stated without names, so it holds inside an extracted helper too.
    copies = []
    for g in u.functions.values():
        for c in X.calls_in(g.body):
            if X.callee_name(c) == "spiftool_safe_strncpy" and len(c["ch"]) >= 4:
                d0 = X.strip(c["ch"][1])
                if d0.get("k") == "un" and d0.get("op") == "&" and X.strip(d0["ch"][0]).get("k") == "index":
                    # &B[O] is B + O
                    ix_ = X.strip(d0["ch"][0])
                    d0 = {"k": "bin", "op": "+", "ch": [ix_["ch"][0], ix_["ch"][1]]}
                if d0.get("k") == "bin" and d0.get("op") == "+" and X.strip(d0["ch"][1]).get("k") == "ref" and not X.strip(d0["ch"][1]).get("tp"):
                    copies.append((g, c, X.strip(d0["ch"][0]), X.strip(d0["ch"][1])))
                elif g is f and any(y.get("k") == "ref" and y.get("d") == nb for y in walk(c["ch"][1])):
                    copies.append((g, c, X.strip(c["ch"][1]), None))
    limits = {}
    for g, c, base, off in copies:
        sz = X.strip(c["ch"][3])
        size_ok = off is not None and sz.get("k") == "bin" and sz.get("op") == "-" and X.strip(sz["ch"][1]).get("k") == "ref" and \
            X.strip(sz["ch"][1]).get("d") == off.get("d")
        dest_ok = off is not None and (g is not f or (base.get("d") == nb and off.get("d") == jd))
        if size_ok:
            limits.setdefault((g.name, X.render(base)), set()).add(X.render(sz["ch"][0]))
        chk.ob("V2", g.name, "copy-site:" + canon(g, c)[:44], dest_ok and size_ok, loc=g.loc(c),
               detail="%s: bounded copy %s does not have a destination `buffer + index` with size `limit - index` for the same index "
                      "(in %s: the result buffer at the output index): the text %s" % (
                          g.name, X.render(c)[:60], f.name, "lands at the wrong place" if not dest_ok else "can overrun the buffer"),
               proof="destination B + O, size L - O")
    for (gname, base), ls in sorted(limits.items()):
        chk.ob("V2", gname, "one-limit:" + base[:30], len(ls) == 1, loc=f.loc(f.body),
               detail="%s bounds its copies into %s with different limits %s: one of them is not the size of the buffer" % (gname, base, sorted(ls)),
               proof="every copy into %s is bounded by %s" % (base, sorted(ls)[0]))
    if delegated:
        chk.note("V1: %d iteration path(s) hand the result buffer and the output index to a static helper; the write is decided by V2 inside the helper" % len(delegated))
    # ---- V4 every store into the result buffer through an index is inside it: GHOSTPOS over the output index (loop bound,
    # in-body increments, MIN()-clamped advances) proves 0 <= index <= sizeof(buffer) - 1 at each store, in this build
    # configuration (with DEBUG=0 the ASSERT that bounds the terminating store is compiled out: the thorough tier runs that too)
    from ..ghostpos import GhostPos
    from ..lin import Lin, entails
    nbsize = None
    vd = f.vardecls.get(nb, {})
    m_ = re.search(r"\[(\d+)\]", (vd.get("tc") or "") + (vd.get("t") or ""))
    if m_:
        nbsize = int(m_.group(1))
    n4 = 0
    if nbsize:
        g4 = GhostPos(f, prog, self_index=None)
        g4.run([])

        def v4(st, x, blk):
            if x.get("k") == "assign":
                l = X.strip(x["ch"][0])
                if l.get("k") == "index" and X.strip(l["ch"][0]).get("d") == nb:
                    e = g4.lin(l["ch"][1])
                    # upper bound only: the index is unsigned; its single transient "-1" (retract at position 0, undone by the
                    # loop increment before the next store) is V1's subject
                    ok = e is not None and entails(list(st), Lin.const(nbsize - 1) - e)
                    chk.ob("V4", f.name, "store-in-buffer:" + canon(f, x)[:40], ok, loc=f.loc(x),
                           detail="%s stores %s where index <= %d is not provable (index %s; state %s): a byte can land outside the "
                                  "%d-byte result buffer" % (f.name, X.render(x)[:40], nbsize - 1, e, " & ".join(sorted("%r>=0" % c for c in st))[:160], nbsize),
                           proof="0 <= index <= %d entailed" % (nbsize - 1))
        before = len(chk.obls)
        g4.visit(v4)
        n4 = len(chk.obls) - before
    chk.count("indexed_result_stores", n4, floor=10)
    # ---- V3 terminator
    term = [n for n in walk(f.body) if n.get("k") == "assign" and X.const_val(n["ch"][1]) == 0 and X.strip(n["ch"][0]).get("k") == "index"
            and X.strip(X.strip(n["ch"][0])["ch"][0]).get("d") == nb and X.strip(X.strip(n["ch"][0])["ch"][1]).get("d") == jd]
    back = [c for c in X.calls_in(f.body) if X.callee_name(c) in ("strcpy", "__builtin_strcpy", "__builtin___strcpy_chk") and X.strip(c["ch"][2]).get("d") == nb]
    okt = bool(term) and bool(back) and all(any(cfg.node_dominates(t["i"], b["i"]) for t in term) for b in back)
    chk.ob("V3", f.name, "terminated-at-j", okt, loc=f.loc(back[0]) if back else f.loc(f.body),
           detail="%s copies the result back without having terminated it at j" % f.name, proof="newbuff[j] = 0 dominates the copy back")
    # ---- V5 effects
    closure = [f] + [g for g in u.functions.values() if g.name.startswith("builtin_") or g.name in ("spifconf_get_var", "spifconf_put_var")]
    badg = []
    # constant data (a const-qualified object with an initialiser: a lookup table) is not state: nothing can be carried in it
    const_data = {gl["n"] for gl in u.all_globals if gl.get("init") is not None and re.match(r"\s*(static\s+)?const\b", (gl.get("tc") or gl.get("t") or ""))
                  and "*" not in (gl.get("tc") or gl.get("t") or "")}
    for g in closure:
        for x in walk(g.body):
            if x.get("k") == "ref" and x.get("rk") in ("global", "slocal") and x.get("n") not in ALLOWED_GLOBALS and not x.get("n", "").startswith("__") \
                    and x.get("n") not in const_data:
                badg.append((g, x))
    chk.ob("V5", f.name, "effect-set", not badg, loc=badg[0][0].loc(badg[0][1]) if badg else f.loc(f.body),
           detail="%s touches global `%s`, outside the declared set of the expansion (builtins table, variable store, file state for messages, "
                  "program name/version, random seed)" % (badg[0][0].name if badg else "", badg[0][1].get("n") if badg else ""),
           proof="globals referenced: within the declared set")
    # ---- V6 ordering agreement
    g = prog.need("spifconf_get_var")
    p_ = prog.need("spifconf_put_var")
    from ..listrules import unit_closure as _uc
    # the comparison the insertion orders the list with: in spifconf_put_var or in a unit-local search helper it calls
    ordfn = {X.callee_name(c) for g_ in _uc(p_) if g_.body is not None and (g_ is p_ or g_.static)
             for c in X.calls_in(g_.body) if X.callee_name(c) in ("strcmp", "strcasecmp", "strcoll")}
    gcfg = nullness.prepared_cfg(g, NORETURN)
    for lp in [n for n in walk(g.body) if n.get("k") in ("for", "while")]:
        for x in walk(lp["body"]):
            if x.get("k") == "if":
                cond = x["cond"]
                calls = {X.callee_name(c) for c in X.calls_in(cond)}
                refs_local_cmp = False
                for y in walk(cond):
                    if y.get("k") == "ref" and y.get("rk") == "local":
                        # a local holding the comparison result
                        for z in walk(g.body):
                            if z.get("k") == "assign" and X.strip(z["ch"][0]).get("d") == y["d"] and {X.callee_name(c) for c in X.calls_in(z["ch"][1])} & ordfn:
                                refs_local_cmp = True
                if X.strip(cond).get("k") == "bin" and X.strip(X.strip(cond)["ch"][0]).get("n") == "libast_debug_level":
                    continue
                okc = bool(calls & ordfn) or refs_local_cmp
                chk.ob("V6", g.name, "exit-by-order-fn:" + canon(g, cond)[:40], okc, loc=g.loc(x),
                       detail="%s leaves its search loop on `%s`, which is not decided by %s (the function spifconf_put_var orders the list with): "
                              "lookup and insertion can disagree on the order and stored variables become unreachable" % (
                                  g.name, X.render(cond)[:50], "/".join(sorted(ordfn))),
                       proof="decided by %s" % "/".join(sorted(ordfn)))
    # ---- V7 escape table: each letter after a backslash that the code turns into a constant yields the control character C
    # gives that letter
    ESC_REF = {ord("n"): 10, ord("r"): 13, ord("t"): 9, ord("b"): 8, ord("f"): 12, ord("a"): 7, ord("v"): 11, ord("e"): 27}
    nesc = 0
    from ..listrules import unit_closure
    for fsw, sw in [(g_, x) for g_ in unit_closure(f) if g_.body is not None for x in walk(g_.body) if x.get("k") == "switch"]:
        body = sw.get("body")
        if body is None or body.get("k") != "block":
            continue
        entries = []
        labels = []
        stmts = list(body.get("ch", []))
        i_ = 0
        while i_ < len(stmts):
            st_ = stmts[i_]
            if st_.get("k") in ("case", "default"):
                lab = st_
                while lab is not None and lab.get("k") in ("case", "default"):
                    if lab.get("k") == "case" and lab.get("val") is not None:
                        labels.append(X.const_val(lab["val"]))
                    inner = lab.get("sub")
                    if inner is not None and inner.get("k") in ("case", "default"):
                        lab = inner
                    else:
                        first = inner
                        lab = None
                seq = [first] if first is not None else []
                j_ = i_ + 1
                while j_ < len(stmts) and stmts[j_].get("k") not in ("case", "default", "break"):
                    seq.append(stmts[j_])
                    j_ += 1
                for q in seq:
                    # the character the letter stands for: stored into the result, into a local, or returned (a helper)
                    if q.get("k") == "assign" and q.get("op") == "=" and X.strip(q["ch"][0]).get("k") in ("index", "ref") and X.const_val(q["ch"][1]) is not None:
                        for lv in labels:
                            entries.append((lv, X.const_val(q["ch"][1]), q))
                        break
                    if q.get("k") == "return" and q.get("val") is not None and X.const_val(q["val"]) is not None:
                        for lv in labels:
                            entries.append((lv, X.const_val(q["val"]), q))
                        break
                if (j_ < len(stmts) and stmts[j_].get("k") == "break") or (seq and seq[-1].get("k") in ("return", "continue", "goto")):
                    labels = []         # the case ends here: later labels do not fall into it
                i_ = j_
                continue
            i_ += 1
        letters = [e for e in entries if e[0] in ESC_REF]
        if len(letters) < 3:
            continue
        for lv, cv, q in letters:
            nesc += 1
            chk.ob("V7", fsw.name, "escape:\\%s" % chr(lv), cv == ESC_REF[lv], loc=fsw.loc(q),
                   detail="%s turns backslash-%s into character %d; the control character that letter names is %d" % (fsw.name, chr(lv), cv, ESC_REF[lv]),
                   proof="\\%s -> %d" % (chr(lv), cv))
    # the same table kept as constant data: values[strchr(letters, c) - letters] with two parallel constant strings
    def const_text(name):
        for gl in u.all_globals:
            if gl["n"] == name and gl.get("init") is not None and "const" in (gl.get("tc") or gl.get("t") or ""):
                iv = X.strip(gl["init"])
                if iv is not None and iv.get("k") == "str":
                    return iv.get("sv") or ""
        return None
    for g_ in unit_closure(f):
        if g_.body is None:
            continue
        for x in walk(g_.body):
            if x.get("k") != "index":
                continue
            vb, ix = X.strip(x["ch"][0]), X.strip(x["ch"][1])
            if vb is None or ix is None or vb.get("k") != "ref" or vb.get("rk") not in ("global", "slocal"):
                continue
            if ix.get("k") != "bin" or ix.get("op") != "-":
                continue
            lb = X.strip(ix["ch"][1])
            hit = X.strip(ix["ch"][0])
            if lb is None or lb.get("k") != "ref" or lb.get("rk") not in ("global", "slocal") or hit is None:
                continue
            vals_t, lets_t = const_text(vb["n"]), const_text(lb["n"])
            if vals_t is None or lets_t is None:
                continue
            # the position comes from a search of the letters table
            srcs = [hit]
            if hit.get("k") == "ref" and hit.get("rk") == "local":
                srcs = [y["ch"][1] for y in walk(g_.body) if y.get("k") == "assign" and y.get("op") == "=" and (X.strip(y["ch"][0]) or {}).get("d") == hit["d"]]
                srcs += [dc["init"] for y in walk(g_.body) if y.get("k") == "decl" for dc in y.get("decls", ()) if dc["d"] == hit["d"] and dc.get("init") is not None]
            if not srcs or not all(any(X.callee_name(c) in ("strchr", "memchr", "__builtin_strchr") and (X.strip(c["ch"][1]) or {}).get("n") == lb["n"]
                                       for c in X.calls_in(e_)) for e_ in srcs):
                continue
            lets_ = lets_t.split("\0")[0]
            for i_, ch_ in enumerate(lets_):
                if ord(ch_) in ESC_REF:
                    cv = ord(vals_t[i_]) if i_ < len(vals_t) else None
                    nesc += 1
                    chk.ob("V7", g_.name, "escape:\\%s" % ch_, cv == ESC_REF[ord(ch_)], loc=g_.loc(x),
                           detail="%s turns backslash-%s into character %s (table %s / %s); the control character that letter names is %d" % (
                               g_.name, ch_, cv, lb["n"], vb["n"], ESC_REF[ord(ch_)]),
                           proof="\\%s -> %s" % (ch_, cv))
    chk.count("escape_table_entries", nesc, floor=6)
    # ---- V8 a bracketed reference consumes its closing bracket: where an arm selected by an opening bracket ('{' or '(' after
    # the '$') scans up to the matching closer, the byte that ended the scan - the closer - is not the byte the main loop
    # processes next.  Offset dataflow: the cursor's distance from the closer (0 on the scan's exit edge `byte == closer`,
    # moved by every ++ / -- / += k) must not be 0 where the main loop's condition reads the next byte.
    from ..confrules import case_label_of
    OPEN = {ord("}"): ord("{"), ord(")"): ord("("), ord("]"): ord("["), ord(">"): ord("<")}
    scans = {}
    # a closer held in a local (closer = '}' / ')' / 0, chosen by the opener): every non-zero constant it is ever given is a
    # closing bracket
    closer_vars = {}
    for d_, v_ in f.vardecls.items():
        if v_.get("tp") or (v_.get("tw") or 0) > 32:
            continue
        vals_ = []
        okc = True
        for x in walk(f.body):
            if x.get("k") == "assign" and (X.strip(x["ch"][0]) or {}).get("d") == d_:
                cv_ = X.const_val(x["ch"][1]) if x.get("op") == "=" else None
                if cv_ is None:
                    okc = False
                else:
                    vals_.append(cv_)
            elif x.get("k") == "un" and x.get("op") in ("++", "--", "&") and (X.strip(x["ch"][0]) or {}).get("d") == d_:
                okc = False
        if v_.get("init") is not None:
            cv_ = X.const_val(v_["init"])
            if cv_ is None:
                okc = False
            else:
                vals_.append(cv_)
        nz_ = [c_ for c_ in vals_ if c_ != 0]
        if okc and nz_ and all(c_ in OPEN for c_ in nz_):
            closer_vars[d_] = sorted(set(nz_))
    for lp in walk(main.get("body") or {}):
        if lp.get("k") not in ("for", "while") or lp.get("cond") is None or lp is main:
            continue
        for cj in walk(lp["cond"]):
            if cj.get("k") == "bin" and cj.get("op") == "!=":
                for a_, b_ in ((cj["ch"][0], cj["ch"][1]), (cj["ch"][1], cj["ch"][0])):
                    kv = X.const_val(b_)
                    if kv in OPEN and nulcursor.byte_expr(a_, cursors) == (pb, 0):
                        lab = case_label_of(f, lp)
                        if lab is not None and lab.get("k") == "case" and X.const_val(lab["val"]) == OPEN[kv]:
                            scans[cj["i"]] = (lp, kv)
                        else:
                            # the arm selected by the opener written as an if / else-if on the byte under the cursor
                            for anc in f.ancestors(lp):
                                if anc is main:
                                    break
                                if anc.get("k") == "if" and any(y is lp for y in walk(anc["then"])) and any(
                                        y.get("k") == "bin" and y.get("op") == "==" and OPEN[kv] in (X.const_val(y["ch"][0]), X.const_val(y["ch"][1]))
                                        and (nulcursor.byte_expr(y["ch"][0], cursors) or nulcursor.byte_expr(y["ch"][1], cursors) or (None,))[0] == pb
                                        for y in walk(anc["cond"])):
                                    scans[cj["i"]] = (lp, kv)
                                    break
                    sb_ = X.strip(b_)
                    if kv is None and sb_ is not None and sb_.get("k") == "ref" and sb_.get("d") in closer_vars and nulcursor.byte_expr(a_, cursors) == (pb, 0):
                        scans[cj["i"]] = (lp, ("var", sb_["d"]))

    def v8_transfer(st, n, blk):
        if not st:
            return st
        k = n.get("k")
        t = X.strip(n["ch"][0]) if k in ("un", "assign") and n.get("ch") else None
        if t is not None and t.get("k") == "ref" and t.get("d") == pb:
            if k == "un" and n.get("op") in ("++", "--"):
                d_ = 1 if n["op"] == "++" else -1
                return frozenset(("co", x[1] + d_, x[2]) for x in st if abs(x[1] + d_) <= 4)
            if k == "assign" and n.get("op") in ("+=", "-=") and X.const_val(n["ch"][1]) is not None:
                d_ = X.const_val(n["ch"][1]) * (1 if n["op"] == "+=" else -1)
                return frozenset(("co", x[1] + d_, x[2]) for x in st if abs(x[1] + d_) <= 4)
            if k == "assign":
                return frozenset()
        return st

    def v8_refine(st, cond, truth, blk):
        c = X.strip(cond)
        while c is not None and c.get("k") == "bin" and c.get("op") in ("&&", "||"):
            c = X.strip(c["ch"][1])         # the block of a logical operator decides its last operand
        if c is not None and c.get("i") in scans and truth is False:
            return frozenset({("co", 0, c["i"])})
        if st and c is not None and c.get("k") == "bin" and c.get("op") in ("==", "!=") and truth in (True, False):
            # a test of the byte under the cursor while the cursor is known to stand on the closer: one outcome is impossible
            for a_, b_ in ((c["ch"][0], c["ch"][1]), (c["ch"][1], c["ch"][0])):
                k2 = X.const_val(b_)
                sb_ = X.strip(b_)
                if k2 is None and sb_ is not None and sb_.get("k") == "ref" and sb_.get("d") in closer_vars:
                    k2 = ("var", sb_["d"])
                if k2 is not None and nulcursor.byte_expr(a_, cursors) == (pb, 0):
                    says_equal = (c["op"] == "==") == truth

                    def same(kv_, k2=k2):
                        if isinstance(kv_, tuple) or isinstance(k2, tuple):
                            return kv_ == k2 if (isinstance(kv_, tuple) and isinstance(k2, tuple)) else None
                        return kv_ == k2
                    return frozenset(x for x in st if x[1] != 0 or same(scans[x[2]][1]) is None or (same(scans[x[2]][1]) == says_equal))
        return st
    reread = []

    def v8_visit(st, n, blk):
        if st and any(y is n for y in walk(main.get("cond") or {})) and nulcursor.byte_expr(n, cursors) == (pb, 0):
            for x in st:
                if x[1] == 0:
                    reread.append((n, x[2]))
    flow.forward(cfg, frozenset(), v8_transfer, refine=v8_refine, join=lambda a, b: a | b, visit=v8_visit)
    for cid, (lp, kv) in sorted(scans.items()):
        bad = [r for r in reread if r[1] == cid]
        kname = chr(kv) if not isinstance(kv, tuple) else "/".join(chr(c_) for c_ in closer_vars[kv[1]])
        oname = chr(OPEN[kv]) if not isinstance(kv, tuple) else "/".join(chr(OPEN[c_]) for c_ in closer_vars[kv[1]])
        chk.ob("V8", f.name, "closer-consumed:%s" % kname, not bad, loc=f.loc(lp),
               detail="%s: after a reference opened by '%s' was scanned up to its '%s', the main loop resumes AT that '%s': the closing "
                      "bracket is copied to the result as ordinary text, so the text after the reference is not preserved "
                      "(\"${HOME}/x\" expands to \"/home/u}/x\")" % (f.name, oname, kname, kname),
               proof="on every path from the scan's exit on the closer to the main loop's next read the cursor has moved past it")
    chk.count("bracketed_reference_scans", len(scans), floor=2)
    # ---- V9 the bounded copy the expansion relies on terminates what it wrote: every return of spiftool_safe_strncpy that is
    # reachable with valid strings and a size of at least 1 is preceded by a store of the terminator through the destination
    # (the expansion copies into an uninitialised stack buffer and counts on the callee for the NUL, also when one byte is left)
    prog_s = facts.extract(only=["strings.c"])
    sc = prog_s.need("spiftool_safe_strncpy")

    def v9_returns(fn_, dd, szd, nn_params, depth=0):
        """[(return node, a terminator was stored through the pointer parameter dd - or size < 1 is known - on every path to it)]"""
        cfg_ = nullness.prepared_cfg(fn_, NORETURN)
        rooted = {dd}
        changed_ = True
        while changed_:
            changed_ = False
            for d_, v_ in fn_.vardecls.items():
                if d_ not in rooted and v_.get("init") is not None and any(y.get("k") == "ref" and y.get("d") in rooted for y in walk(v_["init"])):
                    rooted.add(d_)
                    changed_ = True
            for x in walk(fn_.body):
                if x.get("k") == "assign" and x.get("op") == "=":
                    l_ = X.strip(x["ch"][0])
                    if l_.get("k") == "ref" and l_.get("d") not in rooted and any(y.get("k") == "ref" and y.get("d") in rooted for y in walk(x["ch"][1])):
                        rooted.add(l_["d"])
                        changed_ = True

        def transfer(st, n, blk):
            st = nullness.transfer(st, n, blk)
            if n.get("k") == "assign" and n.get("op") == "=" and X.const_val(n["ch"][1]) == 0:
                l_ = X.strip(n["ch"][0])
                if l_.get("k") in ("un", "index") and (l_.get("op") == "*" or l_.get("k") == "index") and any(
                        y.get("k") == "ref" and y.get("d") in rooted for y in walk(l_["ch"][0])):
                    return st | {("term",)}
            if n.get("k") == "call" and depth < 3:
                # a worker of the same file that is handed the destination and terminates it on every one of its returns
                g_ = fn_.unit.functions.get(X.callee_name(n) or "")
                if g_ is not None and g_.body is not None and g_ is not fn_ and len(g_.params) == len(n["ch"]) - 1:
                    for j_, a_ in enumerate(n["ch"][1:]):
                        sa_ = X.strip(a_)
                        if g_.params[j_].get("tp") and sa_ is not None and any(y.get("k") == "ref" and y.get("d") in rooted for y in walk(sa_)) \
                                and not (sa_.get("k") == "un" and sa_.get("op") == "&"):
                            rs_ = v9_returns(g_, g_.params[j_]["d"], None, [], depth + 1)
                            if rs_ and all(ok_ for _, ok_ in rs_):
                                return st | {("term",)}
            return st

        def refine(st, cond, truth, blk):
            st2 = nullness.refine(st, cond, truth, blk)
            if st2 is None or isinstance(truth, tuple) or szd is None:
                return st2
            for f_ in X.implied(cond, truth):
                if f_[0] == "cmp":
                    op_, a_, b_ = f_[1], f_[2], f_[3]
                    ub = None
                    try:
                        if a_ == "d%d" % szd and op_ in ("<", "<="):
                            ub = int(b_) - (1 if op_ == "<" else 0)
                        if b_ == "d%d" % szd and op_ in (">", ">="):
                            ub = int(a_) - (1 if op_ == ">" else 0)
                    except ValueError:
                        ub = None
                    if ub is not None and ub <= 0:
                        st2 = st2 | {("nosize",)}
            return st2
        rets = []

        def visit(st, n, blk):
            if n.get("k") == "return":
                rets.append((n, ("term",) in st or ("nosize",) in st))
        flow.forward(cfg_, frozenset(("nn", "d%d" % d_) for d_ in nn_params), transfer, refine=refine, visit=visit)
        return rets
    v9_rets = v9_returns(sc, sc.params[0]["d"], sc.params[2]["d"], [sc.params[0]["d"], sc.params[1]["d"]])
    bad9 = [r for r in v9_rets if not r[1]]
    chk.ob("V9", sc.name, "terminates-what-it-wrote", bool(v9_rets) and not bad9, loc=sc.loc(bad9[0][0]) if bad9 else sc.loc(sc.body),
           detail="%s returns on a path with valid strings and size >= 1 without having stored a terminator through dest: the caller's "
                  "buffer (the expansion's uninitialised result buffer, when exactly one byte is left) keeps whatever it held" % sc.name,
           proof="a store of 0 through the destination precedes every return that is reachable with size >= 1")
    # ---- B1 the built-ins the expansion calls keep every write inside their own buffers (the command line built by %exec,
    # the number printed by %random, the directory listing): CAP with the string/file tools that store through a pointer
    # argument interpreted as well
    from ..capcheck import run_cap
    from .C11 import ConfCap
    prog_all = facts.extract()
    bfns = [g_ for g_ in prog_all.units["conf.c"].functions.values() if g_.name.startswith("builtin_") and g_.cfg is not None]
    # the two built-ins that accumulate text in a fixed buffer are in the strict scope (as in C11): every bound of theirs is
    # proven on the reviewed tree, so a bound that can no longer be established is reported
    from .C11 import STRICT_FUNCS
    sfns = [g_ for g_ in bfns if g_.name in STRICT_FUNCS]
    ofns = [g_ for g_ in bfns if g_.name not in STRICT_FUNCS]
    nb1, nund1, samp1 = run_cap(chk, prog_all, ofns, rule="B1", noreturn=NORETURN, cap_factory=lambda p: ConfCap(p, noreturn=NORETURN),
                                kinds={"lower", "upper", "null", "count", "cursor", "freed"})
    nb1s, nund1s, samp1s = run_cap(chk, prog_all, sfns, rule="B1", noreturn=NORETURN, cap_factory=lambda p: ConfCap(p, noreturn=NORETURN),
                                   kinds={"lower", "upper", "null", "count", "cursor", "freed"}, strict=True)
    nb1, nund1, samp1 = nb1 + nb1s, nund1 + nund1s, samp1 + samp1s
    chk.count("builtins_analysed", nb1, floor=4)
    chk.count("undecided_builtin_obligations", nund1)
    chk.count("cursor_events", nchecked, floor=30)
    chk.count("bounded_copy_sites", len(copies), floor=2)
    chk.count("iteration_ends", len(ends), floor=1)
    chk.analysed = {"units": ["conf.c"], "functions": [x.name for x in closure]}
    chk.assume("a look-ahead/advance by l is justified by the strncasecmp(name, cursor, l) match that precedes it; the input is NUL-terminated")
    return chk.finish()
