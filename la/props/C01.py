"""C01 — str/ustr objects are faithful character-sequence values.

Decided (structural, for every history because every method preserves the representation invariant):
  B1  CAP: from both legal entry states of every value-class argument — (NULL,0,0) and allocated with
      0 <= len < size <= capacity, text terminated exactly at len — every read/write extent of every method is inside
      the object's own buffer, no NULL/dangling buffer is dereferenced, and the invariant holds again on every return
      (also for objects returned by dup/substr/constructors)
  B2  'not found' is reported as the length: the failing arm of every search returns self->len
  B3  range refusals are soft: index/count guards never take the fatal ASSERT path and exist in every configuration
  R1/R2  stream/descriptor readers: cursor re-derived after realloc, advance only by positive counts
"""
from .. import facts, expr as X, nullness, stale, classinfo
from ..facts import walk
from ..report import Check, canon
import re

from ..capcheck import run_cap
from ..cap import Cap as Cap0

NORETURN = {"libast_fatal_error"}
UNITS = ["str.c", "ustr.c"]
# ASSERT conditions that are not NULL tests but are not position/count refusals either (one line of reason each)
B3_EXCEPTIONS = {
    "!$P1>=0": "validity of a file descriptor argument (init_from_fd / new_from_fd), not a position inside the value",
}
SKIP = ("_show", "_get_size", "_set_size", "_get_len", "_set_len")


def scope(prog, units):
    fns = []
    slotf = prog.slot_functions()
    for u in units:
        unit = prog.units.get(u)
        if unit is None:
            raise facts.AnalysisBroken("%s not analysed" % u)
        for f in unit.functions.values():
            if f.cfg is None or f.name.endswith(SKIP):
                continue
            if f.name in slotf or not f.static:
                fns.append(f)
    return fns


def check_not_found(chk, prog, fns):
    """B2: in search functions, the path on which the libc search returned NULL returns self->len."""
    n = 0
    for f in fns:
        searches = [c for c in X.calls_in(f.body) if X.callee_name(c) in ("strstr", "strchr", "strrchr", "index", "rindex", "memmem", "memchr", "strcasestr")]
        if not searches or not f.params:
            continue
        if not f.name.endswith(("_find", "_find_from_ptr", "_index", "_rindex")):
            continue
        n += 1
        # returns reached with the search result NULL
        cfg = nullness.prepared_cfg(f, NORETURN)
        from .. import flow
        bad = []
        good = []
        res_locals = set()
        for x in walk(f.body):
            if x.get("k") == "assign" and x.get("op") == "=":
                r = X.strip(x["ch"][1])
                l = X.strip(x["ch"][0])
                if r.get("k") == "call" and r in [X.strip(s) for s in searches] and l.get("k") == "ref":
                    res_locals.add("d%d" % l["d"])
            if x.get("k") == "decl":
                for d in x.get("decls", ()):
                    if d.get("init") is not None and X.strip(d["init"]).get("k") == "call" and X.callee_name(X.strip(d["init"])) in ("strstr", "strchr", "strrchr", "index", "rindex", "memmem", "memchr"):
                        res_locals.add("d%d" % d["d"])

        def is_len(v, pidx=0):
            v = X.strip(v)
            return v is not None and v.get("k") == "member" and v.get("n") == "len" and X.strip(v["ch"][0]).get("pi") == pidx

        def helper_returns_len(g, j_null, k_self):
            """does the unit-local helper g return <param k_self>->len on every return reachable with <param j_null> NULL?"""
            if g is None or g.body is None or g.cfg is None or j_null >= len(g.params) or k_self >= len(g.params):
                return False
            gcfg = nullness.prepared_cfg(g, NORETURN)
            rets = []

            def gv(state, nd, blk):
                if nd.get("k") == "return" and nd.get("val") is not None:
                    rets.append(is_len(nullness.resolve_conditional(nd["val"], state), k_self))
            flow.forward(gcfg, frozenset({("null", "d%d" % g.params[j_null]["d"])}), nullness.transfer, refine=nullness.refine, visit=gv)
            return bool(rets) and all(rets)
        search_ids = {id(X.strip(s_)) for s_ in searches}

        def transfer(state, nd, blk):
            # the scenario "the search finds nothing": its result is NULL wherever it is stored; a local given self->len holds it
            st = nullness.transfer(state, nd, blk)
            pairs = []
            if nd.get("k") == "assign" and nd.get("op") == "=":
                l_ = X.strip(nd["ch"][0])
                if l_ is not None and l_.get("k") == "ref" and l_.get("rk") == "local":
                    pairs.append((l_["d"], nd["ch"][1]))
            if nd.get("k") == "decl":
                pairs += [(dc["d"], dc["init"]) for dc in nd.get("decls", ()) if dc.get("init") is not None]
            for d_, rhs_ in pairs:
                st = frozenset(x for x in st if x != ("islen", d_))
                r_ = X.strip(rhs_)
                if r_ is not None and id(r_) in search_ids:
                    st = frozenset(x for x in st if not (x[0] in ("nn", "null") and x[1] == "d%d" % d_)) | {("null", "d%d" % d_)}
                elif is_len(nullness.resolve_conditional(rhs_, st)):
                    st = st | {("islen", d_)}
            return st

        def visit(state, nd, blk):
            if nd.get("k") == "return" and nd.get("val") is not None and any(("null", p) in state for p in res_locals):
                v2 = nullness.resolve_conditional(nd["val"], state)
                s2 = X.strip(v2)
                okv = is_len(v2)
                if not okv and s2 is not None and s2.get("k") == "ref" and ("islen", s2.get("d")) in state:
                    okv = True
                if not okv and s2 is not None and s2.get("k") == "call":
                    g_ = f.unit.functions.get(X.callee_name(s2) or "")
                    args_ = s2["ch"][1:]
                    jn = [i_ for i_, a_ in enumerate(args_) if (X.strip(a_) or {}).get("k") == "ref" and ("null", "d%d" % X.strip(a_).get("d")) in state]
                    ks = [i_ for i_, a_ in enumerate(args_) if (X.strip(a_) or {}).get("k") == "ref" and X.strip(a_).get("pi") == 0 and X.strip(a_).get("rk") == "param"]
                    if g_ is not None and jn and ks:
                        okv = helper_returns_len(g_, jn[0], ks[0])
                (good if okv else bad).append(nd)
        flow.forward(cfg, frozenset(), transfer, refine=nullness.refine, visit=visit)
        ok = bool(good) and not bad
        chk.ob("B2", f.name, "not-found-returns-len", ok, loc=f.loc(bad[0]) if bad else f.loc(f.body),
               detail="%s: when the search finds nothing it returns %s instead of the length" % (f.name, X.render(bad[0]["val"])[:40] if bad else "nothing recognisable"),
               proof="the NULL-result path returns self->len")
    return n


def check_soft_guards(chk, prog, fns):
    """B3: the conditions of ASSERT* macros are nullness tests of parameters only; value/range refusals use REQUIRE
    (never fatal, present in every configuration)."""
    n = 0
    for f in fns:
        for x in walk(f.body):
            if x.get("k") != "if":
                continue
            m = x.get("m") or []
            if not m or not (m[0] in ("b:ASSERT_RVAL", "b:ASSERT")):
                continue
            cond = x["cond"]
            cs = X.strip(cond)
            if cs.get("k") == "bin" and X.strip(cs["ch"][0]).get("n") == "libast_debug_level":
                continue    # the macro's own runtime-level test
            facts_ = X.implied(cond, True) | X.implied(cond, False)
            only_null = bool(facts_) and all(ft[0] in ("nn", "null") for ft in facts_)
            # ... and of objects / handles only: a NULL *text or byte pointer* is data (SPIF_STR_STR of an empty object is NULL by
            # design) and is refused softly, by REQUIRE, at every level and in every build
            pmap = {"d%d" % p_["d"]: p_ for p_ in f.params}
            for ft in facts_:
                p_ = pmap.get(ft[1]) if ft[0] in ("nn", "null") else None
                if p_ is not None:
                    t_ = " ".join(((p_.get("tc") or "") + " " + (p_.get("t") or "")).replace("const", " ").split())
                    if re.search(r"\b(unsigned |signed )?char \*( |$)", t_) and "_t_struct" not in t_:
                        only_null = False
            n += 1
            # validity of a file-descriptor argument (init_from_fd / new_from_fd) is not a position inside the value: a sign test of
            # an int parameter of a *_fd function, in whatever polarity the macro spells its test
            cd = cs
            while cd is not None and cd.get("k") == "un" and cd.get("op") == "!":
                cd = X.strip(cd["ch"][0])
            if "_fd" in f.name and cd is not None and cd.get("k") == "bin" and cd.get("op") in (">=", "<", ">", "<=") and \
                    X.const_val(cd["ch"][1]) in (0, -1) and X.strip(cd["ch"][0]).get("rk") == "param" and not X.strip(cd["ch"][0]).get("tp"):
                only_null = True
            chk.ob("B3", f.name, "assert-is-null-guard:" + canon(f, cond)[:40], only_null, loc=f.loc(x),
                   detail="%s guards a value/range condition or a data pointer (%s) with ASSERT: at runtime level >= 1 such an argument "
                          "kills the process and with DEBUG=0 the guard vanishes, instead of being refused" % (f.name, X.render(cond)[:60]),
                   proof="ASSERT condition is a pure NULL test of an object / handle parameter")
    return n


def run(tier="quick", prop="C01", units=None, extra_rules=True):
    units = units or UNITS
    chk = Check(prop, level="other", tier=tier,
                explanation="CAP (relational abstract interpreter with trace partitioning and Fourier-Motzkin entailment) over every method of the class from "
                            "both representation states; not-found and soft-refusal protocol rules; reader cursor rules")
    chk.rule("B1", "every access inside the buffer and the representation invariant preserved, from every legal entry state")
    chk.rule("B2", "search functions return the length when nothing is found")
    chk.rule("B3", "ASSERT guards only NULL objects; range refusals are soft (REQUIRE)")
    chk.rule("E1", "trim can leave the empty text (reachability on the over-approximated paths)")
    chk.rule("R1", "reader cursor re-derived after realloc")
    chk.rule("R2", "reader advances only by positive counts")
    prog = facts.extract()
    fns = scope(prog, units)
    if prop == "C07":
        # E2: comparisons between two buffer objects look only at the first len bytes of each
        chk.rule("E2", "a comparison of two buffer objects reads only their values (not the capacity beyond len)")

        class ExtentCap(Cap0):
            check_value_extent = True
        nf, nund, samples = run_cap(chk, prog, fns, rule="B1", noreturn=NORETURN, cap_factory=lambda p_: ExtentCap(p_, noreturn=NORETURN))
        for o in list(chk.obls):
            if o.site.startswith("extent:"):
                o.rule = "E2"
    else:
        nf, nund, samples = run_cap(chk, prog, fns, rule="B1", noreturn=NORETURN)
    n2 = check_not_found(chk, prog, fns)
    n3 = check_soft_guards(chk, prog, fns)
    nr = 0
    for f in fns:
        if any(X.callee_name(c) in ("read", "fread", "fgets") for c in X.calls_in(f.body)):
            nr += 1
            su = stale.stale_uses(f, NORETURN)
            for r, uq, name in su[:3]:
                chk.ob("R1", f.name, "stale-cursor:" + name, False, loc=f.loc(uq),
                       detail="%s uses cursor `%s` after the buffer was reallocated at %s without re-deriving it" % (f.name, name, f.loc(r) if r else "?"))
            if not su:
                chk.ob("R1", f.name, "stale-cursor", True, loc=f.loc(f.body), proof="cursor re-derived after every realloc")
            adv = stale.unguarded_io_advances(f, NORETURN)
            for io, up, name in adv[:3]:
                chk.ob("R2", f.name, "advance:" + canon(f, up)[:40], False, loc=f.loc(up),
                       detail="%s advances %s by the result of %s() where it may be <= 0" % (f.name, X.render(up["ch"][0]), X.callee_name(io)))
            if not adv:
                chk.ob("R2", f.name, "advance", True, loc=f.loc(f.body), proof="advances dominated by n > 0")
    # E1 (a reachability obligation, decided on CAP's over-approximation of the feasible paths): trimming a non-empty text CAN
    # leave the empty text - the ideal trim of an all-blank text is empty, so some path from an entry state with len >= 1 must
    # reach a return where the object's len may be 0.  If even the over-approximation has no such path, the function can never
    # produce that value.
    from .. import capdrv
    from ..cap import Cap
    from ..lin import feasible
    ntrim = 0
    for f in fns:
        if not re.search(r"_trim$", f.name) or f.body is None:
            continue
        entries = capdrv.entry_states(f)
        kept = []
        for st in entries:
            v = st.env.get(f.params[0]["d"])
            ln = st.heap.get((v[1], "len")) if v is not None and v[0] == "o" else None
            if ln is None or ln[0] != "i":
                continue
            st.cons.append(ln[1] - 1)              # a non-empty text
            if feasible(st.cons):
                kept.append(st)
        if not kept:
            continue
        cp = Cap(prog, noreturn=NORETURN)
        cp.record = False
        try:
            rets = cp.run_function(f, kept)
        except RecursionError:
            continue
        if any("budget" in n_ or "partial" in n_ for n_ in cp.notes):
            chk.note("E1: %s not decided (exploration incomplete: %s)" % (f.name, "; ".join(cp.notes)[:120]))
            continue          # the reachability argument needs the complete over-approximation
        ntrim += 1
        can_empty = False
        for st in rets:
            v = st.env.get(f.params[0]["d"])
            ln = st.heap.get((v[1], "len")) if v is not None and v[0] == "o" else None
            if ln is None or ln[0] != "i" or feasible(st.cons + [ln[1], -ln[1]]):
                can_empty = True
        chk.ob("E1", f.name, "can-yield-empty", can_empty, loc=f.loc(f.body),
               detail="%s can never leave the empty text when it is given a non-empty one: on every path from an entry state with "
                      "len >= 1 the object returns with len >= 1 - a text that consists only of blanks keeps one of them, where "
                      "the ideal sequence is empty" % f.name,
               proof="some path from a non-empty entry state reaches a return where len may be 0")
    chk.count("trim_functions", ntrim)
    chk.count("methods_analysed", nf, floor=int(30 * len(units)))
    chk.count("undecided_obligations", nund)
    chk.count("search_functions", n2)
    # ASSERT compiles to nothing in a DEBUG=0 configuration: the guard census is an anchor only where ASSERT exists
    chk.count("assert_guards", n3, floor=(25 * len(units)) if str(prog.config.get("DEBUG", "4")) != "0" else None)
    chk.count("reader_functions", nr)
    if samples:
        chk.note("undecided (loop summarisation too weak; not reported as violations): " + " | ".join(samples))
    chk.analysed = {"units": units, "functions": [f.name for f in fns]}
    chk.assume("integer arithmetic on lengths does not overflow; distinct parameters do not alias; allocation succeeds")
    chk.assume("libc models in la/cap.py (memcpy, strlen, vsnprintf, fgets, read, realloc ...)")
    return chk.finish()
