"""C05 — object protocol: dup is an independent copy, comp is a consistent order, type names the class.

Structural clauses decided (necessary conditions of the property):
  K1  comp with both arguments NULL returns EQUAL (the one-NULL cases are C16's G2)
  K2  every value a comp function returns is an ordering constant, the sign idiom, or another comparison's result
  K3  the operand of the sign idiom is a signed value no wider than int and is not a narrowing cast of a wider
      difference (otherwise antisymmetry fails)
  K4  a comp function never dispatches comp on its own unchanged arguments (termination)
  K5  a comp function that bounds its work by one object's length compares the two lengths (equal-prefix
      objects of different length are not equal)
  D1  dup returns a freshly constructed object, never an argument
  D2  every owned pointer field of the copy is re-allocated/duplicated after any whole-struct copy
  D3  element/data slots of the copy are filled from DUP/dup calls or NULL, never with the original's pointers
  D4  dup does not dereference or dispatch through a field/element that may be NULL in a reachable state
  D5  the copy's buffer is at least as large as the capacity recorded in it and every extent written is inside it (CAP)
  T1  type() returns the class name of the object's own class
"""
import re

from .. import facts, expr as X, nullness, flow, classinfo
from ..facts import walk
from ..report import Check, canon

FILES = {"obj.c", "str.c", "ustr.c", "mbuff.c", "objpair.c", "tok.c", "url.c", "regexp.c", "array.c",
         "linked_list.c", "dlinked_list.c"}
NORETURN = {"libast_fatal_error"}
# storage fields that are NULL exactly when the companion length is 0; their extents are CAP obligations
STORAGE_FIELDS = {"items", "s", "buff"}
CMP_CONSTS = {-1, 0, 1}


def is_cmp_type(n):
    t = (n.get("t") or "") + " " + (n.get("tc") or "")
    return "spif_cmp_t" in t


def sign_idiom(n):
    """(operand node) if n is (E < 0) ? LESS : ((E > 0) ? GREATER : EQUAL) in any nesting order, else None"""
    s = X.strip(n)
    if s.get("k") != "cond":
        return None
    c = X.strip(s["ch"][0])
    if c.get("k") == "bin" and c.get("op") in ("<", ">") and X.const_val(c["ch"][1]) == 0:
        other = X.strip(s["ch"][2])
        tv = X.const_val(s["ch"][1])
        if tv in (-1, 1) and other.get("k") == "cond":
            c2 = X.strip(other["ch"][0])
            if c2.get("k") == "bin" and c2.get("op") in ("<", ">") and X.const_val(c2["ch"][1]) == 0:
                return c["ch"][0], c2["ch"][0]
    return None


def sign_form(n):
    """operands [E, ...] if n is an expression over sign tests of one value E (E < 0, E > 0, 0 < E, E == 0 ...), constants,
    + - and ?: whose value is -1 / 0 / 1 for a negative / zero / positive E (abstract evaluation over the sign domain:
    covers the nested conditional, (E > 0) - (E < 0), and any other arrangement); else None"""
    ops = []

    def ev(m, sgn):
        s = X.strip(m)
        c = X.const_val(s)
        if c is not None:
            return c
        k = s.get("k")
        if k == "bin" and s.get("op") in ("<", ">", "<=", ">=", "==", "!="):
            l, r = s["ch"]
            op = s["op"]
            if X.const_val(r) == 0 and X.const_val(l) is None:
                e = l
            elif X.const_val(l) == 0 and X.const_val(r) is None:
                e = r
                op = {"<": ">", ">": "<", "<=": ">=", ">=": "<="}.get(op, op)
            else:
                return None
            ops.append(e)
            return int({"<": sgn < 0, ">": sgn > 0, "<=": sgn <= 0, ">=": sgn >= 0, "==": sgn == 0, "!=": sgn != 0}[op])
        if k == "bin" and s.get("op") in ("+", "-"):
            a, b = ev(s["ch"][0], sgn), ev(s["ch"][1], sgn)
            if a is None or b is None:
                return None
            return a + b if s["op"] == "+" else a - b
        if k == "un" and s.get("op") in ("-", "!"):
            a = ev(s["ch"][0], sgn)
            if a is None:
                return None
            return -a if s["op"] == "-" else int(not a)
        if k == "cond":
            c = ev(s["ch"][0], sgn)
            if c is None:
                return None
            return ev(s["ch"][1] if c else s["ch"][2], sgn)
        return None

    for sgn in (-1, 0, 1):
        if ev(n, sgn) != sgn:
            return None
    if not ops:
        return None
    keys = {X.render(X.strip(o)) for o in ops}
    if len(keys) != 1 or any(list(X.calls_in(o)) for o in ops):
        return None
    return list({id(o): o for o in ops}.values())


def operand_type_problem(op):
    """describe why `op < 0` cannot order correctly, or None"""
    # outermost explicit/implicit casts
    n = op
    while n.get("k") == "paren":
        n = n["ch"][0]
    w, sgn = n.get("tw"), n.get("ts")
    if w is None:
        return "operand of the sign test is not an integer"
    if not sgn:
        return "operand of the sign test has unsigned type %s: `< 0` is never true, so the order is not antisymmetric" % n.get("t")
    # narrowing: a cast to a narrower type of a wider integer expression
    m = n
    while m.get("k") in ("paren", "icast", "cast"):
        inner = m["ch"][0]
        si = inner
        while si.get("k") == "paren":
            si = si["ch"][0]
        if m.get("k") in ("cast", "icast") and m.get("ck") == "IntegralCast" and si.get("tw") and m.get("tw") and si["tw"] > m["tw"]:
            return "operand is a %d-bit difference narrowed to %d bits: the sign can be lost" % (si["tw"], m["tw"])
        m = inner
    if w > 32:
        return None
    return None


def mentions_len(n, pidx):
    """does the subtree read <param pidx>->len ?"""
    for x in walk(n):
        if x.get("k") == "member" and x.get("n") == "len" and x.get("arrow"):
            b = X.strip(x["ch"][0])
            if b.get("k") == "ref" and b.get("rk") == "param" and b.get("pi") == pidx:
                return True
    return False


def returns_under(fn, seed, summ):
    from ..nullness import prepared_cfg, transfer, refine
    cfg = prepared_cfg(fn, summ.noreturn)
    rets = []

    def visit(state, n, blk):
        if n.get("k") == "return":
            rets.append((n, state))
    flow.forward(cfg, frozenset(seed), transfer, refine=refine, visit=visit)
    return rets


def outparam_stores(g, j, seed, summ):
    """[(rhs node, state)] for every store `*P_j = rhs` of helper g reachable under the seed facts"""
    from ..nullness import prepared_cfg, transfer, refine
    if g.body is None or j >= len(g.params):
        return []
    d = g.params[j]["d"]
    cfg = prepared_cfg(g, summ.noreturn)
    out = []

    def visit(state, n, blk):
        if n.get("k") == "assign" and n.get("op") == "=":
            l = X.strip(n["ch"][0])
            if l.get("k") == "un" and l.get("op") == "*" and X.strip(l["ch"][0]).get("d") == d:
                out.append((n["ch"][1], state))
    flow.forward(cfg, frozenset(seed), transfer, refine=refine, visit=visit)
    return out


def outparam_calls(f, d, prog):
    """calls in f that pass &local(d) to a function of the program: [(call, callee, param index)]"""
    res = []
    for c in X.calls_in(f.body):
        g = prog.fn(X.callee_name(c) or "")
        if g is None:
            continue
        for j, a in enumerate(c["ch"][1:]):
            sa = X.strip(a)
            if sa.get("k") == "un" and sa.get("op") == "&" and X.strip(sa["ch"][0]).get("d") == d:
                res.append((c, g, j))
    return res


def comp_family(prog):
    """comp-slot functions of the anchored files plus the comparison functions they return-delegate to"""
    fam = []
    for f in classinfo.functions_in_slot(prog, "comp"):
        if f.unit.name in FILES and f not in fam:
            fam.append(f)
    i = 0
    while i < len(fam):
        f = fam[i]
        i += 1
        for n in walk(f.body):
            if n.get("k") == "return" and n.get("val") is not None:
                v = X.strip(n["val"])
                if v.get("k") == "call" and X.callee_name(v):
                    g = prog.fn(X.callee_name(v))
                    if g is not None and g not in fam and g.unit.name in FILES and "cmp_t" in (g.j.get("ret", "") + g.j.get("retc", "")):
                        fam.append(g)
    return fam


def check_comp(chk, prog, summ, f, slot_comp, nullable):
    loc = f.loc(f.body)
    if len(f.params) < 2:
        return
    p0, p1 = "d%d" % f.params[0]["d"], "d%d" % f.params[1]["d"]
    # K1 (a static worker that is only ever called - never installed in a table or passed around - is judged where its
    # callers delegate to it, with the nullness of the arguments they pass: both_null_values follows the delegation)
    internal = False
    if f.static and not slot_comp:
        callee_ids = set()
        for f2 in f.unit.functions.values():
            if f2.body is not None:
                for c in X.calls_in(f2.body):
                    s0 = X.strip(c["ch"][0])
                    if s0 is not None and s0.get("k") == "ref":
                        callee_ids.add(s0["i"])
        internal = bool(callee_ids) and not any(
            x.get("k") == "ref" and x.get("rk") == "func" and x.get("n") == f.name and x["i"] not in callee_ids
            for f2 in f.unit.functions.values() if f2.body is not None for x in walk(f2.body))
    if f.params[0].get("tp") and f.params[1].get("tp") and not internal:
        undec = [False]

        def both_null_values(fn, depth=0):
            """constants fn returns when its first two arguments are NULL (delegation to another comparison and verdicts a helper
            stores through an out-parameter are followed); None entries mean a value that is not a constant"""
            out = set()
            q0, q1 = "d%d" % fn.params[0]["d"], "d%d" % fn.params[1]["d"]
            for n, st in returns_under(fn, {("null", q0), ("null", q1)}, summ):
                v = n.get("val")
                if v is None:
                    out.add("void")
                    continue
                v = nullness.resolve_conditional(v, st)
                sv = X.strip(v)
                if sv.get("k") == "call" and X.callee_name(sv) and prog.fn(X.callee_name(sv)) and depth < 3:
                    g = prog.fn(X.callee_name(sv))
                    args = sv["ch"][1:]
                    if len(args) >= 2 and len(g.params) >= 2 and nullness.rhs_nullness(st, args[0]) == "null" and nullness.rhs_nullness(st, args[1]) == "null":
                        out |= both_null_values(g, depth + 1)
                        continue
                if sv.get("k") == "ref" and sv.get("rk") == "local" and X.const_val(v) is None:
                    oc = outparam_calls(fn, sv["d"], prog)
                    got = []
                    for c_, g_, j_ in oc:
                        seed_ = set()
                        for jj, a_ in enumerate(c_["ch"][1:]):
                            if jj < len(g_.params) and g_.params[jj].get("tp") and nullness.rhs_nullness(st, a_) == "null":
                                seed_.add(("null", "d%d" % g_.params[jj]["d"]))
                        for rhs_, st2 in outparam_stores(g_, j_, seed_, summ):
                            got.append(X.const_val(nullness.resolve_conditional(rhs_, st2)))
                    if oc and got and all(x is not None for x in got):
                        out.update(got)
                        continue
                    if oc:
                        undec[0] = True
                        continue
                out.add(X.const_val(v))
            return out
        vals = both_null_values(f)
        if undec[0] and vals <= {0}:
            chk.note("K1: %s returns a verdict a helper computed through an out-parameter; not decided" % f.name)
            vals = {0}
        chk.ob("K1", f.name, "both-null", vals == {0}, loc=loc,
               detail="%s(NULL, NULL) returns %s, expected SPIF_CMP_EQUAL (0)" % (f.name, sorted(map(str, vals))),
               proof="every return reachable with both arguments NULL yields 0")
    # K2 / K3: classify return values
    localdefs = {}
    for n in walk(f.body):
        if n.get("k") == "assign" and n.get("op") == "=":
            l = X.strip(n["ch"][0])
            if l.get("k") == "ref" and l.get("rk") == "local":
                localdefs.setdefault(l["d"], []).append(n["ch"][1])
        if n.get("k") == "decl":
            for d in n.get("decls", ()):
                if d.get("init") is not None:
                    localdefs.setdefault(d["d"], []).append(d["init"])

    def classify(v, depth=0):
        s = X.strip(v)
        if X.const_val(v) is not None:
            return "const" if X.const_val(v) in CMP_CONSTS else "bad:constant %s is not an ordering value" % X.const_val(v)
        si = sign_idiom(v) or sign_form(v)
        if si:
            for op in si:
                pr = operand_type_problem(op)
                if pr:
                    return "bad3:" + pr
            return "sign"
        if s.get("k") == "call":
            cn = X.callee_name(s)
            if cn:
                g = prog.fn(cn)
                if g is not None and "cmp_t" in (g.j.get("ret", "") + g.j.get("retc", "")):
                    return "call"
                if is_cmp_type(s):
                    return "call"
                return "bad:result of %s() is not a comparison value" % cn
            if X.dispatch_slot(s) in ("comp",):
                return "dispatch"
            if is_cmp_type(v) or is_cmp_type(s):
                return "dispatch"
            return "bad:indirect call that is not a comp dispatch"
        if s.get("k") == "cond":
            a, b = classify(s["ch"][1], depth + 1), classify(s["ch"][2], depth + 1)
            for r in (a, b):
                if r.startswith("bad"):
                    return r
            return "cond"
        if s.get("k") == "ref" and s.get("rk") == "local" and depth < 4:
            defs = list(localdefs.get(s["d"], []))
            oc = outparam_calls(f, s["d"], prog)
            for c_, g_, j_ in oc:
                # values a helper stores through the out-parameter count as definitions of the local
                st_ = outparam_stores(g_, j_, set(), summ)
                if not st_:
                    return "local"          # nothing recognisable: not decided, not a violation
                defs.extend(r_ for r_, _ in st_)
            if not defs:
                return "bad:returns an unassigned local"
            for d in defs:
                r = classify(d, depth + 1)
                if r.startswith("bad"):
                    return r
            return "local"
        return "bad:%s is neither an ordering constant, the sign idiom nor a comparison result" % X.render(v)[:60]

    nret = 0
    for n in walk(f.body):
        if n.get("k") == "return" and n.get("val") is not None:
            nret += 1
            r = classify(n["val"])
            if r.startswith("bad3:"):
                chk.ob("K3", f.name, "sign-operand:" + canon(f, n["val"])[:50], False, loc=f.loc(n), detail="%s: %s" % (f.name, r[5:]))
            else:
                chk.ob("K2", f.name, "ret:" + canon(f, n["val"])[:50], not r.startswith("bad"), loc=f.loc(n),
                       detail="%s returns a value that is not sign-normalised: %s" % (f.name, r[4:]), proof=r)
                if r == "sign":
                    chk.ob("K3", f.name, "sign-operand:" + canon(f, n["val"])[:50], True, loc=f.loc(n), proof="signed, <= int, not narrowed")
    # K4 self recursion
    if slot_comp:
        for c in X.calls_in(f.body):
            direct = X.callee_name(c) == f.name
            if X.dispatch_slot(c) == "comp" or direct:
                args = c["ch"][1:]
                if len(args) >= 2:
                    a0, a1 = X.strip(args[0]), X.strip(args[1])
                    same = (a0.get("k") == "ref" and a0.get("rk") == "param" and a0.get("pi") == 0 and
                            a1.get("k") == "ref" and a1.get("rk") == "param" and a1.get("pi") == 1)
                    # the dispatch object must also be self
                    if same:
                        chk.ob("K4", f.name, "self-dispatch", False, loc=f.loc(c),
                               detail="%s dispatches comp on its own unchanged arguments (%s): unbounded recursion, the comparison never terminates" % (
                                   f.name, X.render(c)[:60]))
        if not any(o.rule == "K4" and o.function == f.name for o in chk.obls):
            chk.ob("K4", f.name, "self-dispatch", True, loc=loc, proof="no comp dispatch / direct call on (self, other)")
    # K6 totality on nullable states
    check_nullflow(chk, prog, summ, f, nullable, "K6")
    # K7 no EQUAL verdict from inside the element loop: while the index is below both lengths, one pair of elements (two
    # NULL placeholders, two equal members) cannot decide that the containers are equal - later elements and the lengths
    # have not been looked at
    for lp in walk(f.body):
        if lp.get("k") not in ("for", "while", "do") or lp.get("cond") is None or lp.get("body") is None:
            continue
        if not (mentions_len(lp["cond"], 0) or mentions_len(lp["cond"], 1)):
            continue

        def may_be_zero(v):
            v = X.strip(v)
            if v is None:
                return False
            if v.get("k") == "cond":
                return may_be_zero(v["ch"][1]) or may_be_zero(v["ch"][2])
            return X.const_val(v) == 0
        bad = [r for r in walk(lp["body"]) if r.get("k") == "return" and r.get("val") is not None and may_be_zero(r["val"])]
        chk.ob("K7", f.name, "no-equal-verdict-inside-element-loop", not bad, loc=f.loc(bad[0]) if bad else f.loc(lp),
               detail="%s returns SPIF_CMP_EQUAL from inside its element loop (%s): the first pair of elements that compares equal - "
                      "two NULL placeholders - ends the comparison, whatever the later elements and the lengths are" % (
                          f.name, X.render(bad[0])[:40] if bad else ""),
               proof="every return inside the loop yields a non-EQUAL verdict")
    # K5 length tie-break
    if mentions_len(f.body, 0) or mentions_len(f.body, 1):
        # locals that are plain copies of one object's length (mine = self->len; the temporaries of MIN())
        wr = {}
        for n in walk(f.body):
            if n.get("k") == "assign":
                l = X.strip(n["ch"][0])
                if l.get("k") == "ref" and l.get("rk") == "local":
                    wr.setdefault(l["d"], []).append(n["ch"][1] if n.get("op") == "=" else None)
            elif n.get("k") == "decl":
                for dcl in n.get("decls", ()):
                    if dcl.get("init") is not None:
                        wr.setdefault(dcl["d"], []).append(dcl["init"])
        lencopy = {}
        for d, ws in wr.items():
            if len(ws) == 1 and ws[0] is not None:
                r = X.strip(ws[0])
                if r is not None and r.get("k") == "member" and r.get("n") == "len":
                    for i in (0, 1):
                        if mentions_len(r, i):
                            lencopy[d] = i

        def is_len(e, i):
            e = X.strip(e)
            if e is None:
                return False
            if e.get("k") == "ref" and lencopy.get(e.get("d")) == i:
                return True
            return e.get("k") == "member" and e.get("n") == "len" and mentions_len(e, i)

        def decides(n):
            """is the comparison used to decide something (a branch, a constant verdict), as opposed to selecting one of the
            two lengths as a value (MIN / MAX, `common = a < b ? a : b`)?"""
            cur = n
            par = f.parent.get(cur["i"])
            while par is not None:
                k = par.get("k")
                if k in ("paren", "icast", "cast") or (k == "un" and par.get("op") == "!") or (k == "bin" and par.get("op") in ("&&", "||", "==", "!=")):
                    cur, par = par, f.parent.get(par["i"])
                    continue
                if k in ("if", "while", "for", "do"):
                    return par.get("cond") is cur
                if k == "cond":
                    if par["ch"][0] is not cur:
                        return False
                    return X.const_val(par["ch"][1]) is not None and X.const_val(par["ch"][2]) is not None
                if k == "return":
                    return True
                if k in ("assign", "decl"):
                    return True          # a flag / verdict computed from the comparison
                return False
            return False
        ok = False
        for n in walk(f.body):
            if n.get("k") == "bin" and n.get("op") in ("<", ">", "<=", ">=", "==", "!=", "-"):
                a, b = n["ch"][0], n["ch"][1]
                if ((is_len(a, 0) and is_len(b, 1)) or (is_len(a, 1) and is_len(b, 0))) and decides(n):
                    ok = True
        chk.ob("K5", f.name, "length-tie-break", ok, loc=loc,
               detail="%s bounds its comparison by a length but never decides anything on self->len against other->len: an object "
                      "that is a proper prefix of the other compares EQUAL" % f.name,
               proof="self->len is compared with other->len in a deciding position (branch or constant verdict)")


def copy_cursor_locals(f, result_vars):
    """locals of f that only ever point at storage of the copy (see check_dup): greatest fixpoint over their assignments"""
    def rooted(r_, cands):
        r_ = X.strip(r_)
        if r_ is None:
            return False
        if X.is_null_const(r_) or r_.get("k") == "call":
            return True
        if r_.get("k") == "cond":
            return rooted(r_["ch"][1], cands) and rooted(r_["ch"][2], cands)
        b_ = r_
        while b_ is not None and b_.get("k") == "member":
            b_ = X.strip(b_["ch"][0])
        return b_ is not None and b_.get("k") == "ref" and (b_.get("d") in result_vars or b_.get("d") in cands)
    cur = {d_ for d_, v_ in f.vardecls.items() if v_.get("tp")} - set(result_vars)
    changed = True
    while changed:
        changed = False
        for n_ in walk(f.body):
            if n_.get("k") == "assign":
                l_ = X.strip(n_["ch"][0])
                if l_.get("k") == "ref" and l_.get("d") in cur and not (n_.get("op") == "=" and rooted(n_["ch"][1], cur)):
                    cur.discard(l_["d"])
                    changed = True
            elif n_.get("k") == "decl":
                for dcl in n_.get("decls", ()):
                    if dcl["d"] in cur and dcl.get("init") is not None and not rooted(dcl["init"], cur):
                        cur.discard(dcl["d"])
                        changed = True
            elif n_.get("k") == "un" and n_.get("op") == "&":
                t_ = X.strip(n_["ch"][0])
                if t_.get("k") == "ref" and t_.get("d") in cur:
                    cur.discard(t_["d"])
                    changed = True
    return cur


def helper_fresh_fields(g, j, argmap):
    """Fields of g's parameter j (the copy) that g leaves holding fresh storage (or NULL) on every path: stored from a call, NULL or a
    cursor over the copy's own nodes - or left alone only where a parameter that received the original's value of that field
    (argmap: parameter index -> field) is NULL, in which case the bytewise-copied field is NULL too."""
    if g.body is None or g.cfg is None or j >= len(g.params):
        return set()
    pj = g.params[j]["d"]
    cursors = copy_cursor_locals(g, {pj})
    cfg = nullness.prepared_cfg(g, NORETURN)
    pk = {g.params[k]["d"]: fld for k, fld in argmap.items() if k < len(g.params)}

    def fresh(rhs):
        s_ = X.strip(rhs)
        if X.is_null_const(rhs) or (s_ is not None and s_.get("k") == "call"):
            return True
        b_ = s_
        while b_ is not None and b_.get("k") == "member":
            b_ = X.strip(b_["ch"][0])
        return b_ is not None and b_.get("k") == "ref" and (b_.get("d") in cursors or (b_.get("d") == pj and s_.get("k") == "member"))

    def transfer(st, n, blk):
        if n.get("k") == "assign" and n.get("op") == "=":
            l = X.strip(n["ch"][0])
            if l.get("k") == "member" and l.get("arrow") and X.strip(l["ch"][0]).get("d") == pj:
                st = st - {l["n"]}
                if fresh(n["ch"][1]):
                    st = st | {l["n"]}
        return st

    def refine(st, cond, truth, blk):
        for fact in X.implied(cond, truth):
            if fact[0] == "null":
                for d_, fld in pk.items():
                    if fact[1] == "d%d" % d_:
                        st = st | {fld}
        return st
    exits = []

    def visit(st, n, blk):
        if n.get("k") == "return":
            exits.append(st)
    ins = flow.forward(cfg, frozenset(), transfer, refine=refine, visit=visit)
    if cfg.exit in ins and not any(x.get("k") == "return" for x in walk(g.body)):
        exits.append(ins[cfg.exit])
    elif cfg.exit in ins:
        # falling off the end of a void helper after explicit early returns
        last = [b for b in cfg.blocks.values() if cfg.exit in [s_ for s_ in b.succ if s_ is not None]]
        exits.append(ins[cfg.exit])
    if not exits:
        return set()
    out = set(exits[0])
    for e in exits[1:]:
        out &= set(e)
    return out


def check_dup(chk, prog, summ, f, nullable):
    loc = f.loc(f.body)
    rec = classinfo.rec_of_param(f, 0)
    # owned fields: from the done function of the same table
    owned = []
    for t in classinfo.tables_of(prog, f.name):
        for s, v in t["slots"].items():
            if isinstance(v, str) and s.split(".")[-1] == "done":
                d = prog.fn(v)
                if d is not None:
                    for x in classinfo.owned_fields(d):
                        if x not in owned:
                            owned.append(x)
    # after a whole-struct copy every pointer field of the copy refers to the ORIGINAL's storage, owned or not (a list's
    # tail, for one): all pointer fields of the record are subject to D2 in a function that copies the struct wholesale
    if any(X.callee_name(c) in ("memcpy", "memmove", "__builtin_memcpy") for c in X.calls_in(f.body)):
        rj = prog.records.get(rec or "")
        if rj:
            for fld in rj["fields"]:
                if fld.get("tp") and fld["n"] not in owned and fld["n"] not in ("cls", "parent"):
                    owned.append(fld["n"])
    self_d = f.params[0]["d"]
    # D1: returned expression
    for n in walk(f.body):
        if n.get("k") == "return" and n.get("val") is not None:
            v = X.strip(n["val"])
            if X.is_null_const(n["val"]):
                continue
            bad = v.get("k") == "ref" and v.get("rk") == "param"
            chk.ob("D1", f.name, "fresh-result:" + canon(f, n["val"])[:40], not bad, loc=f.loc(n),
                   detail="%s returns its own argument instead of a new object" % f.name, proof="result is a local / constructor call")
    # D2: flow-sensitive state of the copy's owned fields
    cfg = nullness.prepared_cfg(f, NORETURN)
    result_vars = set()
    for n in walk(f.body):
        if n.get("k") == "return" and n.get("val") is not None:
            v = X.strip(n["val"])
            if v.get("k") == "ref" and v.get("rk") == "local":
                result_vars.add(v["d"])

    # locals that only ever point at storage of the copy: every assignment to them is a call result (a fresh node), NULL, another
    # such local, or a member chain rooted at the result object or at such a local (dest = dup(src); dest = dest->next; prev = dest).
    # Greatest fixpoint: start from every pointer local and drop those with any other assignment (src = self->head).
    def _copy_rooted(r_, cands):
        r_ = X.strip(r_)
        if r_ is None:
            return False
        if X.is_null_const(r_) or r_.get("k") == "call":
            return True
        if r_.get("k") == "cond":
            return _copy_rooted(r_["ch"][1], cands) and _copy_rooted(r_["ch"][2], cands)
        b_ = r_
        while b_ is not None and b_.get("k") == "member":
            b_ = X.strip(b_["ch"][0])
        return b_ is not None and b_.get("k") == "ref" and (b_.get("d") in result_vars or b_.get("d") in cands)
    copy_cursors = {d_ for d_, v_ in f.vardecls.items() if v_.get("tp")} - result_vars
    changed_ = True
    while changed_:
        changed_ = False
        for n_ in walk(f.body):
            if n_.get("k") == "assign":
                l_ = X.strip(n_["ch"][0])
                if l_.get("k") == "ref" and l_.get("d") in copy_cursors and not (n_.get("op") == "=" and _copy_rooted(n_["ch"][1], copy_cursors)):
                    copy_cursors.discard(l_["d"])
                    changed_ = True
            elif n_.get("k") == "decl":
                for dcl in n_.get("decls", ()):
                    if dcl["d"] in copy_cursors and dcl.get("init") is not None and not _copy_rooted(dcl["init"], copy_cursors):
                        copy_cursors.discard(dcl["d"])
                        changed_ = True
            elif n_.get("k") == "un" and n_.get("op") == "&":
                t_ = X.strip(n_["ch"][0])
                if t_.get("k") == "ref" and t_.get("d") in copy_cursors:
                    copy_cursors.discard(t_["d"])      # address taken: may be written elsewhere
                    changed_ = True

    def is_self_expr(e):
        for x in walk(e):
            if x.get("k") == "ref" and x.get("rk") == "param" and x.get("d") == self_d:
                return True
        return False

    def fresh_rhs(rhs, state=frozenset()):
        s = X.strip(rhs)
        if X.is_null_const(rhs):
            return True
        if s.get("k") == "call":
            return True
        if s.get("k") == "cond":
            return fresh_rhs(s["ch"][1], state) and fresh_rhs(s["ch"][2], state)
        if s.get("k") == "ref" and s.get("rk") == "local" and ("freshvar", s["d"]) in state:
            return True           # a temporary that holds a fresh allocation (tmp = MALLOC(..); copy->f = tmp;)
        if s.get("k") == "ref" and s.get("rk") == "local" and s["d"] in copy_cursors:
            return True           # a cursor over the copy's own nodes (dest = tmp->head; dest = dest->next)
        return False

    def outparam_fresh(g_, j_):
        """does the unit-local helper g_ store through its parameter j_ (an out-parameter `item **last`) only NULL, call results
        or cursors over nodes it created itself - and store something on every path to a return?"""
        if g_.body is None or g_.cfg is None or j_ >= len(g_.params):
            return False
        pd_ = g_.params[j_]["d"]
        curs_ = copy_cursor_locals(g_, set())
        stores_ = []
        for x_ in walk(g_.body):
            if x_.get("k") == "assign" and x_.get("op") == "=":
                l_ = X.strip(x_["ch"][0])
                if l_.get("k") == "un" and l_.get("op") == "*" and (X.strip(l_["ch"][0]) or {}).get("d") == pd_:
                    stores_.append(x_)
        if not stores_:
            return False
        for x_ in stores_:
            r_ = X.strip(x_["ch"][1])
            if not (X.is_null_const(x_["ch"][1]) or (r_ is not None and (r_.get("k") == "call" or (r_.get("k") == "ref" and r_.get("d") in curs_)))):
                return False
        gcfg_ = nullness.prepared_cfg(g_, NORETURN)
        rets_ = [x_ for x_ in walk(g_.body) if x_.get("k") == "return"]
        return bool(rets_) and all(any(gcfg_.node_dominates(s_["i"], r_["i"]) for s_ in stores_) for r_ in rets_)

    def transfer(state, n, blk):
        state = nullness.transfer(state, n, blk)
        k = n.get("k")
        if k == "call" and prog.fn(X.callee_name(n) or "") is not None and prog.fn(X.callee_name(n)).unit is f.unit:
            # a unit-local helper that hands back part of the copy through an out-parameter (dup_chain(self->head, &last))
            g0_ = prog.fn(X.callee_name(n))
            for j0_, a0_ in enumerate(n["ch"][1:]):
                sa0_ = X.strip(a0_)
                if sa0_ is not None and sa0_.get("k") == "un" and sa0_.get("op") == "&":
                    t0_ = X.strip(sa0_["ch"][0])
                    if t0_ is not None and t0_.get("k") == "ref" and t0_.get("rk") == "local" and outparam_fresh(g0_, j0_):
                        state = frozenset(state) | {("freshvar", t0_["d"])}
            # a unit-local helper that is handed the copy (copy_chain(copy, self->head)): the fields it re-establishes
            g_ = prog.fn(X.callee_name(n))
            args_ = n["ch"][1:]
            for j_, a_ in enumerate(args_):
                sa_ = X.strip(a_)
                if sa_ is not None and sa_.get("k") == "ref" and sa_.get("d") in result_vars:
                    argmap = {}
                    for k_, b_ in enumerate(args_):
                        sb_ = X.strip(b_)
                        if sb_ is not None and sb_.get("k") == "member" and sb_.get("arrow") and X.strip(sb_["ch"][0]).get("d") == self_d:
                            argmap[k_] = sb_["n"]
                    got = helper_fresh_fields(g_, j_, argmap)
                    if got:
                        return frozenset(state) | frozenset(("fresh", fld) for fld in got if fld in owned)
        if k == "call" and X.callee_name(n) in ("memcpy", "memmove", "__builtin_memcpy"):
            args = n["ch"][1:]
            d = X.strip(args[0])
            if d.get("k") == "ref" and d.get("d") in result_vars and is_self_expr(args[1]):
                return frozenset(x for x in state if x[0] != "fresh")
        if k == "assign" and n.get("op") == "=":
            l = X.strip(n["ch"][0])
            if l.get("k") == "member" and l.get("arrow"):
                b = X.strip(l["ch"][0])
                if b.get("k") == "ref" and b.get("d") in result_vars and l["n"] in owned:
                    st = set(x for x in state if not (x[0] == "fresh" and x[1] == l["n"]))
                    if fresh_rhs(n["ch"][1], state):
                        st.add(("fresh", l["n"]))
                    return frozenset(st)
            if l.get("k") == "ref" and l.get("d") in result_vars:
                # (re)construction of the result object: every field is constructor-initialised
                return frozenset(state) | frozenset(("fresh", fld) for fld in owned)
            if l.get("k") == "ref" and l.get("rk") == "local":
                st = set(x for x in state if not (x[0] in ("freshvar", "aliasfld") and x[1] == l["d"]))
                if fresh_rhs(n["ch"][1], state) and not X.is_null_const(n["ch"][1]):
                    st.add(("freshvar", l["d"]))
                r_ = X.strip(n["ch"][1])
                if r_ is not None and r_.get("k") == "member" and r_.get("arrow") and X.strip(r_["ch"][0]).get("d") == self_d:
                    st.add(("aliasfld", l["d"], r_["n"]))       # src = self->head: a NULL test of src is one of self->head
                return frozenset(st)
        if k == "decl":
            st = set(state)
            for dcl in n.get("decls", ()):
                st.discard(("freshvar", dcl["d"]))
                st = set(x for x in st if not (x[0] == "aliasfld" and x[1] == dcl["d"]))
                if dcl.get("init") is not None and fresh_rhs(dcl["init"], state) and not X.is_null_const(dcl["init"]):
                    st.add(("freshvar", dcl["d"]))
                r_ = X.strip(dcl["init"]) if dcl.get("init") is not None else None
                if r_ is not None and r_.get("k") == "member" and r_.get("arrow") and X.strip(r_["ch"][0]).get("d") == self_d:
                    st.add(("aliasfld", dcl["d"], r_["n"]))
            return frozenset(st)
        return state

    bad = {}
    selfp = "d%d" % self_d

    def visit(state, n, blk):
        if n.get("k") == "return" and n.get("val") is not None and not X.is_null_const(n["val"]):
            rv = X.strip(n["val"])
            if not (rv.get("k") == "ref" and rv.get("d") in result_vars):
                return
            for fld in owned:
                if ("fresh", fld) in state:
                    continue
                if ("null", "%s->%s" % (selfp, fld)) in state:
                    continue   # the original holds NULL there: nothing to alias
                bad.setdefault(fld, n)
    def refine2(state, cond, truth, blk):
        st = nullness.refine(state, cond, truth, blk)
        if st is None:
            return None
        # on a branch where the original's field is NULL the (copied) field of the result is NULL too: nothing is shared
        add = set()
        for fld in owned:
            if ("null", "%s->%s" % (selfp, fld)) in st and ("null", "%s->%s" % (selfp, fld)) not in state:
                add.add(("fresh", fld))
        for x in st:
            if x[0] == "aliasfld" and x[2] in owned and ("null", "d%d" % x[1]) in st and ("null", "d%d" % x[1]) not in state:
                add.add(("fresh", x[2]))
        return frozenset(st) | add if add else st
    if owned and cfg is not None:
        seed = frozenset(("nn", "d%d" % p["d"]) for p in f.params if p.get("tp"))
        flow.forward(cfg, seed, transfer, refine=refine2, visit=visit)
    for fld in owned:
        n = bad.get(fld)
        chk.ob("D2", f.name, "deep-copy:" + fld, n is None, loc=f.loc(n) if n else loc,
               detail="%s returns a copy whose owned field `%s` still aliases the original's storage (shallow copy): "
                      "mutating or deleting either object invalidates the other" % (f.name, fld),
               proof="`%s` is overwritten with a fresh allocation/dup (or constructor-initialised, or NULL in the original) on every path" % fld)
    # D3: element/data stores
    for n in walk(f.body):
        if n.get("k") == "assign" and n.get("op") == "=":
            l = X.strip(n["ch"][0])
            slot = None
            if l.get("k") == "index":
                slot = "[]"
            elif l.get("k") == "member" and l.get("n") in ("data", "key", "value"):
                slot = l["n"]
            if slot is None:
                continue
            if not is_self_expr(n["ch"][1]):
                continue
            ok = fresh_rhs(n["ch"][1])
            chk.ob("D3", f.name, "element-copy:" + canon(f, l)[:40], ok, loc=f.loc(n),
                   detail="%s stores the original's element pointer %s into the copy instead of a duplicate" % (f.name, X.render(n["ch"][1])[:60]),
                   proof="element comes from a DUP/dup call")
    check_nullflow(chk, prog, summ, f, nullable, 'D4')


_FATAL = {}


from ..models import ALLOCATORS, PURE_LIBC
ALLOC_LIKE = ALLOCATORS | {"memcpy", "memmove", "__builtin___memcpy_chk", "__builtin_memcpy"}


def derivers(unit):
    """{function name: (derived field, {input fields})} for functions that compute a field of their object from other
    fields of the same object through a call (self->data = compile(text, self->flags, ..)), plus the functions that end in
    such a call on every non-failure return."""
    direct = {}
    for g in unit.functions.values():
        if g.body is None or not g.params:
            continue
        p0 = g.params[0]["d"]

        def own_field(e):
            e = X.strip(e)
            if e is not None and e.get("k") == "member" and e.get("arrow"):
                b = X.strip(e["ch"][0])
                if b is not None and b.get("k") == "ref" and b.get("d") == p0:
                    return e["n"]
            return None
        for x in walk(g.body):
            if x.get("k") != "assign" or x.get("op") != "=":
                continue
            d_ = own_field(x["ch"][0])
            if d_ is None:
                continue
            ins = set()
            rhs_ = x["ch"][1]
            r0_ = X.strip(rhs_)
            if r0_ is not None and r0_.get("k") == "ref" and r0_.get("rk") == "local" and r0_.get("tp"):
                # the computed object first held in a pointer local (compiled = compile(..); self->data = compiled;) - a count
                # that libc computed into an integer local is not a compiled form of the fields it was handed
                ds_ = [y["ch"][1] for y in walk(g.body) if y.get("k") == "assign" and y.get("op") == "=" and (X.strip(y["ch"][0]) or {}).get("d") == r0_["d"]]
                ds_ += [dc["init"] for y in walk(g.body) if y.get("k") == "decl" for dc in y.get("decls", ()) if dc["d"] == r0_["d"] and dc.get("init") is not None]
                if len(ds_) == 1:
                    rhs_ = ds_[0]
            for c in X.calls_in(rhs_):
                if (X.callee_name(c) or "") in ALLOC_LIKE or (X.callee_name(c) or "") in PURE_LIBC:
                    continue        # storage sized by a field / a value libc reads off a field is not a compiled form of it
                for a in c["ch"][1:]:
                    for y in walk(a):
                        f_ = own_field(y)
                        if f_ is not None and f_ != d_:
                            ins.add(f_)
            if ins:
                old = direct.get(g.name)
                direct[g.name] = (d_, ins | (old[1] if old else set()))
    out = dict(direct)
    changed = True
    while changed:
        changed = False
        for g in unit.functions.values():
            if g.name in out or g.body is None or not g.params:
                continue
            p0 = g.params[0]["d"]
            rets = [x for x in walk(g.body) if x.get("k") == "return" and x.get("val") is not None]
            good = []
            for r in rets:
                v = X.strip(r["val"])
                if X.const_val(v) == 0:
                    continue            # failure return
                if v.get("k") == "call" and X.callee_name(v) in out and len(v["ch"]) > 1 and X.strip(v["ch"][1]).get("d") == p0:
                    good.append(X.callee_name(v))
                else:
                    good = None
                    break
            if good:
                out[g.name] = out[good[0]]
                changed = True
    return out


def check_derived(chk, prog, f):
    """D6: a field of the copy that another field is computed from (the flags a pattern is compiled with) is stored before the
    last computation: after `copy->flags = ..` every path to the return of the copy passes a call of the computing function on
    the copy.  Otherwise the copy reports the original's flags but matches with the pattern compiled under other flags."""
    dv = derivers(f.unit)
    if not dv:
        return 0
    inputs = set()
    for _, (d_, ins) in dv.items():
        inputs |= ins
    cfg = nullness.prepared_cfg(f, NORETURN)
    p0 = f.params[0]["d"] if f.params else None

    def lhs_copy_field(n):
        if n.get("k") == "assign":
            t = X.strip(n["ch"][0])
            if t.get("k") == "member" and t.get("arrow") and t.get("n") in inputs:
                b = X.strip(t["ch"][0])
                if b.get("k") == "ref" and b.get("rk") == "local":
                    return b["d"], t["n"]
        return None

    derived_fields = {d_ for (d_, ins) in dv.values()}

    def transfer(st, n, blk):
        lf = lhs_copy_field(n)
        if lf is not None:
            return st | {lf}
        if n.get("k") == "assign":
            t = X.strip(n["ch"][0])
            if t.get("k") == "member" and t.get("arrow") and t.get("n") in derived_fields:
                b = X.strip(t["ch"][0])
                if b.get("k") == "ref":
                    # the derived field itself is copied/stored: nothing stale remains for the inputs it is computed from
                    ins_ = set()
                    for (d_, i_) in dv.values():
                        if d_ == t["n"]:
                            ins_ |= i_
                    return frozenset(x for x in st if not (x[0] == b["d"] and x[1] in ins_))
        if n.get("k") == "call" and X.callee_name(n) in dv and len(n["ch"]) > 1:
            a = X.strip(n["ch"][1])
            if a.get("k") == "ref":
                return frozenset(x for x in st if not (x[0] == a["d"] and x[1] in dv[X.callee_name(n)][1]))
        return st
    sites = [n for n in walk(f.body) if lhs_copy_field(n) is not None]
    if not sites:
        return 0
    bad = []

    def visit(st, n, blk):
        if n.get("k") == "return" and n.get("val") is not None:
            v = X.strip(n["val"])
            if v.get("k") == "ref":
                for (d, fld) in st:
                    if d == v["d"]:
                        bad.append((n, fld))
    flow.forward(cfg, frozenset(), transfer, join=lambda a, b: a | b, visit=visit)
    for sname in sorted({lhs_copy_field(n)[1] for n in sites}):
        b_ = [x for x in bad if x[1] == sname]
        who = sorted(g for g, (d_, ins) in dv.items() if sname in ins)
        chk.ob("D6", f.name, "derived-after:" + sname, not b_, loc=f.loc(b_[0][0]) if b_ else f.loc(sites[0]),
               detail="%s stores the copy's `%s` and returns the copy on a path without calling %s on it afterwards: `%s` was computed "
                      "by the constructor from the default `%s`, so the copy reports the original's `%s` but behaves according to another" % (
                          f.name, sname, "/".join(who), dv[who[0]][0] if who else "?", sname, sname),
               proof="every path from the store to the return of the copy calls %s on the copy" % "/".join(who))
    return len(sites)


def fatal_params(prog):
    if id(prog) not in _FATAL:
        _FATAL.clear()
        _FATAL[id(prog)] = nullness.fatal_guarded_params(prog, NORETURN)
    return _FATAL[id(prog)]


def check_nullflow(chk, prog, summ, f, nullable, rule):
    cfg = nullness.prepared_cfg(f, NORETURN)
    # D4: dereference / dispatch through nullable fields and elements
    nul = nullable
    sites = []

    # locals whose value comes from a nullable path (src = self->head; dest = dest->next)
    nlocals = set()
    changed = True

    def nullable_path(e):
        s = X.strip(e)
        if s.get("k") == "member" and s.get("arrow"):
            r = s.get("rec")
            if r in nul and s["n"] in nul[r] and s["n"] not in STORAGE_FIELDS:
                return True
        if s.get("k") == "index":
            b = X.strip(s["ch"][0])
            if b.get("k") == "member" and b.get("n") == "items":
                return True
        if s.get("k") == "ref" and s.get("rk") == "local" and s["d"] in nlocals:
            return True
        return False
    while changed:
        changed = False
        for n in walk(f.body):
            if n.get("k") == "assign" and n.get("op") == "=":
                l = X.strip(n["ch"][0])
                if l.get("k") == "ref" and l.get("rk") == "local" and l["d"] not in nlocals and nullable_path(n["ch"][1]):
                    nlocals.add(l["d"])
                    changed = True

    def visit4(state, n, blk):
        for base, kind in nullness.deref_sites(f, n):
            if nullable_path(base):
                p = X.apath(base)
                known = p is not None and ("nn", p) in state
                # a local the value was copied into and tested also counts (handled by aliases in transfer)
                sites.append((n, base, kind, known))
        if n.get("k") == "call":
            cn = X.callee_name(n)
            for j, a in enumerate(n["ch"][1:]):
                if nullable_path(a) and cn and summ.derefs_param(cn, j):
                    p = X.apath(a)
                    sites.append((n, a, "arg of %s" % cn, p is not None and ("nn", p) in state))
                elif nullable_path(a) and cn and (cn, j) in fatal_params(prog):
                    # the callee treats NULL here as a broken invariant: fatal at runtime level >= 1, refused at level 0,
                    # dereferenced in a DEBUG=0 build
                    p = X.apath(a)
                    sites.append((n, a, "ASSERT-guarded argument of %s" % cn, p is not None and ("nn", p) in state))

    # locals copied from nullable fields (src = self->head) inherit nullability: track via a light alias map
    if cfg is not None:
        seed = frozenset([("nn", "d%d" % p["d"]) for p in f.params if p.get("tp")])
        flow.forward(cfg, seed, nullness.transfer, refine=nullness.refine, visit=visit4)
    seen = set()
    for n, base, kind, ok in sites:
        key = canon(f, base)
        if (key, ok) in seen:
            continue
        seen.add((key, ok))
        chk.ob(rule, f.name, "nullable:" + key[:50], ok, loc=f.loc(n),
               detail="%s dereferences %s (%s), which is NULL in a reachable state (empty container / placeholder / "
                      "freshly initialised object), without testing it" % (f.name, X.render(base)[:50], kind),
               proof="dominated by a non-NULL test of the same path")


def check_extern_nullable_args(chk, prog, summ, f0, nullable, rule="D4"):
    """D4 (continued): in the unit-local functions a dup runs (constructor, initialiser, the function that derives a field), a
    storage field that is NULL in a freshly created object (the text of a pattern-less regexp) is not handed to a library
    function outside libast that dereferences it, unless a non-NULL test of it has been passed."""
    from ..listrules import unit_closure
    from ..models import DEREFS
    n = 0
    for f in unit_closure(f0):
        if f.cfg is None or f.body is None:
            continue
        cfg = nullness.prepared_cfg(f, NORETURN)
        sites = []

        def storage_path(e):
            s_ = X.strip(e)
            if s_ is not None and s_.get("k") == "member" and s_.get("arrow"):
                r = s_.get("rec")
                b_ = X.strip(s_["ch"][0])
                # the object's own storage (through the casts to its parent class), not that of an object it refers to
                if r in nullable and s_["n"] in nullable[r] and s_["n"] in STORAGE_FIELDS and b_ is not None and \
                        b_.get("k") == "ref" and b_.get("rk") == "param" and b_.get("pi") == 0:
                    return True
            return False

        def visit(state, x, blk):
            if x.get("k") != "call":
                return
            cn = X.callee_name(x)
            if cn is None or prog.fn(cn) is not None or cn not in DEREFS:
                return
            for j in DEREFS[cn]:
                if 1 + j >= len(x["ch"]):
                    continue
                a = nullness.resolve_conditional(x["ch"][1 + j], state)
                arms = [(a, state)]
                sa = X.strip(a)
                if sa is not None and sa.get("k") == "cond":
                    # each arm under what its test establishes (s ? s : "")
                    arms = [(sa["ch"][1], frozenset(state) | frozenset(X.implied(sa["ch"][0], True))),
                            (sa["ch"][2], frozenset(state) | frozenset(X.implied(sa["ch"][0], False)))]
                for arm, st_ in arms:
                    if storage_path(arm):
                        p_ = X.apath(arm)
                        sites.append((x, arm, cn, p_ is not None and ("nn", p_) in st_))
        seed = frozenset([("nn", "d%d" % p["d"]) for p in f.params if p.get("tp")])
        flow.forward(cfg, seed, nullness.transfer, refine=nullness.refine, visit=visit)
        seen = set()
        for x, arm, cn, ok in sites:
            key = canon(f, arm) + ":" + cn
            if key in seen:
                continue
            seen.add(key)
            n += 1
            chk.ob(rule, f.name, "nullable-storage-to-%s:%s" % (cn, canon(f, arm)[:30]), ok, loc=f.loc(x),
                   detail="%s (run by %s) hands %s to %s(), which dereferences it; the field is NULL in a freshly created object, so "
                          "%s on such an object crashes" % (f.name, f0.name, X.render(arm)[:40], cn, f0.name),
                   proof="a non-NULL test of the field is passed first")
    return n


def check_type(chk, prog, f):
    loc = f.loc(f.body)
    tabs = [t["var"] for t in classinfo.tables_of(prog, f.name)]
    n_ok = 0
    for n in walk(f.body):
        if n.get("k") != "return" or n.get("val") is None:
            continue
        if X.top_macro(n) in ("ASSERT_RVAL", "REQUIRE_RVAL") or any(m.startswith("b:ASSERT_RVAL") or m.startswith("b:REQUIRE_RVAL") for m in n.get("m", [])):
            continue
        v = n["val"]
        good = False
        why = X.render(v)[:60]
        # the class read into a local first (cls = SPIF_OBJ_CLASS(self); return (classname_t) cls;): its one definition
        sv_ = X.strip(v)
        if sv_ is not None and sv_.get("k") == "ref" and sv_.get("rk") == "local":
            defs_ = [y["ch"][1] for y in walk(f.body) if y.get("k") == "assign" and y.get("op") == "=" and (X.strip(y["ch"][0]) or {}).get("d") == sv_["d"]]
            defs_ += [dc["init"] for y in walk(f.body) if y.get("k") == "decl" for dc in y.get("decls", ()) if dc["d"] == sv_["d"] and dc.get("init") is not None]
            if len(defs_) == 1:
                v = defs_[0]
        # (classname_t) SPIF_OBJ_CLASS(self)  -> cast of self->cls ; or CLASS_VAR->classname
        for x in walk(v):
            if x.get("k") == "member" and x.get("n") == "cls":
                b = X.strip(x["ch"][0])
                if b.get("k") == "ref" and b.get("rk") == "param" and b.get("pi") == 0:
                    good = True
            if x.get("k") == "member" and x.get("n") == "classname":
                good = good or any(y.get("k") == "ref" and (y.get("rk") == "param" or y.get("n") in tabs or True) for y in walk(x))
            if x.get("k") == "ref" and x.get("rk") == "global" and x.get("n") in tabs:
                good = True
        chk.ob("T1", f.name, "classname", good, loc=f.loc(n),
               detail="%s returns %s, which is not the class name of the object's own class" % (f.name, why),
               proof="returns the object's class (whose first member is the class name) or the class variable's classname")
        n_ok += 1
    return n_ok


def run(tier="quick"):
    chk = Check("C05", level="other", tier=tier,
                explanation="structural necessary conditions of the object protocol on every dup/comp/type slot function of the "
                            "value classes: sign-normalised comparison values, NULL ordering, termination, length tie-break; deep-copy "
                            "discipline and totality of dup on nullable states; type names the class")
    for rid, txt in (("K1", "comp(NULL,NULL) == EQUAL"), ("K2", "comp returns only sign-normalised values"),
                     ("K3", "sign idiom operand is signed, <= int, not a narrowed wider difference"),
                     ("K4", "no self-dispatch recursion in comp"), ("K5", "length tie-break in length-bounded comparisons"), ("K7", "no EQUAL verdict from inside an element loop"),
                     ("K6", "comp does not dereference a field/element that may be NULL in a reachable state"),
                     ("D1", "dup returns a fresh object"), ("D2", "owned pointer fields of the copy are fresh"),
                     ("D3", "elements of the copy are duplicates"), ("D4", "dup is total on nullable states"), ("D5", "the copy satisfies the representation invariant (its recorded capacity is really allocated)"),
                     ("D6", "a field another field is computed from is stored in the copy before the last computation"),
                     ("T1", "type() returns the object's class name")):
        chk.rule(rid, txt)
    prog = facts.extract()
    summ = nullness.Summaries(prog, noreturn=NORETURN)
    nullable = classinfo.nullable_fields(prog)
    slot_comp = set(f.name for f in classinfo.functions_in_slot(prog, "comp"))
    fam = comp_family(prog)
    for f in fam:
        check_comp(chk, prog, summ, f, f.name in slot_comp, nullable)
    dups = [f for f in classinfo.functions_in_slot(prog, "dup") if f.unit.name in FILES]
    nd6 = 0
    for f in dups:
        check_dup(chk, prog, summ, f, nullable)
        nd6 += check_derived(chk, prog, f)
        check_extern_nullable_args(chk, prog, summ, f, nullable, "D4")
    chk.count("derived_field_stores_in_dup", nd6, floor=1)
    # D5: the copy's storage satisfies the class's representation invariant (CAP over the value-class dup functions)
    from ..capcheck import run_cap
    vdups = [f for f in dups if f.unit.name in ("str.c", "ustr.c", "mbuff.c", "array.c") and "iterator" not in f.name]
    nv, nund, _ = run_cap(chk, prog, vdups, rule="D5", noreturn=NORETURN, kinds={"inv", "nul", "upper", "lower", "null"})
    chk.count("value_class_dups_under_cap", nv, floor=5)
    types = [f for f in classinfo.functions_in_slot(prog, "type") if f.unit.name in FILES]
    for f in types:
        check_type(chk, prog, f)
    chk.count("comp_functions", len(fam), floor=17)
    chk.count("dup_functions", len(dups), floor=18)
    chk.count("type_functions", len(types), floor=14)
    chk.analysed = {"units": sorted(FILES), "comp": [f.name for f in fam], "dup": [f.name for f in dups]}
    chk.assume("libc comparison functions (strcmp, memcmp) are themselves consistent orders")
    chk.assume("nullable fields are those the class's init/done/new functions set to NULL; list elements and item data may be NULL placeholders")
    return chk.finish()
