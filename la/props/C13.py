"""C13 — bounded and in-place string helpers stay inside their buffers.

CAP over the helpers of strings.c with their calling conventions as entry contracts (la/capdrv.SPECS): every
write of safe_strncpy/safe_strncat lies in [dest, dest+size) and the destination is terminated inside it; substr's
copy lies inside the source; the in-place helpers never touch a byte before the start of the string or after its
terminator.  Exactness of the transformations is not decided."""
from .. import facts, expr as X
from ..report import Check
from ..capcheck import run_cap

FUNCS = ["spiftool_safe_strncpy", "spiftool_safe_strncat", "spiftool_substr", "spiftool_chomp", "spiftool_condense_whitespace",
         "spiftool_downcase_str", "spiftool_upcase_str", "spiftool_safe_str", "strrev"]
NORETURN = {"libast_fatal_error"}


def run(tier="quick"):
    chk = Check("C13", level="other", tier=tier,
                explanation="CAP over the bounded / in-place helpers with their calling conventions as entry contracts")
    chk.rule("B1", "every access of the helper stays inside the buffers its contract gives it (and the destination is terminated inside)")
    chk.rule("W1", "no narrow integer state wraps with the length of the input")
    configs = [None]
    if tier == "thorough":
        configs.append({"HAVE_STRNLEN": None, "HAVE_MEMMEM": None, "HAVE_STRCASESTR": None})
    nf = 0
    for cfg in configs:
        prog = facts.extract(only=["strings.c"], config_edits=cfg)
        fns = []
        for nm in FUNCS:
            f = prog.fn(nm)
            if f is None:
                chk.note("%s not present in this configuration" % nm)
                continue
            fns.append(f)
        if cfg:
            for nm in ("strnlen", "memmem", "strcasestr", "strcasechr", "strcasepbrk", "strsep"):
                f = prog.fn(nm)
                if f is not None and f.cfg is not None:
                    fns.append(f)
        n, nund, samples = run_cap(chk, prog, fns, rule="B1", noreturn=NORETURN, strict=True)
        nf += n
        if samples:
            chk.note("undecided: " + " | ".join(samples))
        chk.count("undecided_obligations", nund)
    chk.count("helpers_analysed", nf, floor=7)
    # X2 safe_str replaces exactly the control characters: the test that guards the store of '.' is, as a predicate over the 256
    # values of a byte, the C locale's control class (0..31 and DEL).  The domain is finite, so the truth table is exact
    # (la/bytepred.py); a test outside its little language is not decided.
    from .. import bytepred
    from ..facts import walk as _walk
    chk.rule("X2", "safe_str replaces exactly the control characters of the C locale")
    progx = facts.extract(only=["strings.c"])
    fs = progx.fn("spiftool_safe_str")
    nx2 = 0
    if fs is not None and fs.body is not None and fs.params:
        sd = fs.params[0]["d"]
        for x in _walk(fs.body):
            if x.get("k") != "if":
                continue
            dots = [y for y in _walk(x["then"]) if y.get("k") == "assign" and y.get("op") == "=" and X.const_val(y["ch"][1]) == 46
                    and (X.strip(y["ch"][0]) or {}).get("k") in ("index", "un")]
            if not dots:
                continue
            tgt = X.strip(dots[0]["ch"][0])

            def is_byte(n_, tgt=tgt):
                s_ = n_
                return s_.get("k") == tgt.get("k") and s_.get("k") in ("index", "un") and X.render(s_) == X.render(tgt) and not s_.get("tp")
            try:
                tab = bytepred.truth_table(x["cond"], is_byte)
            except bytepred.Undecided as e:
                chk.note("X2: the test guarding the replacement is not decided (%s)" % e)
                continue
            want = {b: (b < 32 or b == 127) for b in range(256)}
            diff = [b for b in range(256) if tab[b] != want[b]]
            nx2 += 1
            chk.ob("X2", fs.name, "replaces-control-characters", not diff, loc=fs.loc(x),
                   detail="%s replaces a byte by '.' exactly when `%s`; as a class of byte values that differs from the control characters "
                          "(0..31 and 127) at %s: %s" % (fs.name, X.render(x["cond"])[:50], ", ".join("0x%02x" % b for b in diff[:6]),
                                                        "these control bytes are left in the text" if diff and want[diff[0]] else "these ordinary bytes are replaced"),
                   proof="truth table over all 256 byte values equals the C-locale control class")
    chk.count("class_predicates_decided", nx2)
    # W1 state kept in a narrow integer does not wrap with the length of the input: a local of 8 or 16 bits that a loop over the
    # string steps (x++, x += k) without that loop's condition - or a test guarding the step - bounding it returns to 0 after 256
    # (65536) steps; used as a flag ("have I just written a blank?") it then flips in the middle of a long run
    from ..facts import walk
    prog = facts.extract(only=["strings.c"])
    nw = 0
    for nm in FUNCS:
        f = prog.fn(nm)
        if f is None or f.body is None:
            continue
        for lp in walk(f.body):
            if lp.get("k") not in ("for", "while", "do"):
                continue
            cond_refs = {y["d"] for y in walk(lp.get("cond") or {}) if y.get("k") == "ref"}
            for x in walk(lp.get("body") or {}):
                t = None
                if x.get("k") == "un" and x.get("op") in ("++", "--"):
                    t = X.strip(x["ch"][0])
                elif x.get("k") == "assign" and x.get("op") in ("+=", "-="):
                    t = X.strip(x["ch"][0])
                if t is None or t.get("k") != "ref" or t.get("rk") not in ("local", "param") or t.get("tp") or (t.get("tw") or 64) > 16:
                    continue
                # innermost loop only
                inner = [z for z in walk(lp.get("body") or {}) if z.get("k") in ("for", "while", "do") and any(y is x for y in walk(z))]
                if inner:
                    continue
                nw += 1
                guarded = t["d"] in cond_refs
                for anc in f.ancestors(x):
                    if anc is lp:
                        break
                    if anc.get("k") == "if" and any(y.get("k") == "bin" and y.get("op") in ("<", "<=", ">", ">=", "!=") and
                                                    any(z.get("k") == "ref" and z.get("d") == t["d"] for z in walk(y))
                                                    for y in walk(anc["cond"])) and not any(y is x for y in walk(anc["cond"])):
                        guarded = True
                chk.ob("W1", f.name, "narrow-step:" + (t.get("n") or "?"), guarded, loc=f.loc(x),
                       detail="%s steps the %d-bit local `%s` once per input character without bounding it: after %d steps it is 0 again, so "
                              "what it stands for (a flag, a count) is wrong for a long enough run of the input" % (
                                  f.name, t.get("tw"), t.get("n"), 1 << t.get("tw")),
                       proof="bounded by the loop condition or a guarding comparison")
    if not nw:
        chk.ob("W1", "*", "narrow-step", True, loc="src/strings.c", proof="no 8/16-bit local is stepped inside a loop of the helpers")
    chk.analysed = {"units": ["strings.c"], "functions": FUNCS}
    chk.assume("calling conventions: dest holds `size` bytes; source arguments are NUL-terminated strings; lengths fit their integer types")
    return chk.finish()
