"""C13 — bounded and in-place string helpers stay inside their buffers.

CAP over the helpers of strings.c with their calling conventions as entry contracts (la/capdrv.SPECS): every
write of safe_strncpy/safe_strncat lies in [dest, dest+size) and the destination is terminated inside it; substr's
copy lies inside the source; the in-place helpers never touch a byte before the start of the string or after its
terminator.  Exactness of the transformations is not decided."""
from .. import facts, expr as X
from ..report import Check
from ..capcheck import run_cap

FUNCS = ["spiftool_safe_strncpy", "spiftool_safe_strncat", "spiftool_substr", "spiftool_chomp", "spiftool_condense_whitespace",
         "spiftool_downcase_str", "spiftool_upcase_str", "spiftool_safe_str", "strrev"]
NORETURN = {"libast_fatal_error"}


def run(tier="quick"):
    chk = Check("C13", level="other", tier=tier,
                explanation="CAP over the bounded / in-place helpers with their calling conventions as entry contracts")
    chk.rule("B1", "every access of the helper stays inside the buffers its contract gives it (and the destination is terminated inside)")
    configs = [None]
    if tier == "thorough":
        configs.append({"HAVE_STRNLEN": None, "HAVE_MEMMEM": None, "HAVE_STRCASESTR": None})
    nf = 0
    for cfg in configs:
        prog = facts.extract(only=["strings.c"], config_edits=cfg)
        fns = []
        for nm in FUNCS:
            f = prog.fn(nm)
            if f is None:
                chk.note("%s not present in this configuration" % nm)
                continue
            fns.append(f)
        if cfg:
            for nm in ("strnlen", "memmem", "strcasestr", "strcasechr", "strcasepbrk", "strsep"):
                f = prog.fn(nm)
                if f is not None and f.cfg is not None:
                    fns.append(f)
        n, nund, samples = run_cap(chk, prog, fns, rule="B1", noreturn=NORETURN, strict=True)
        nf += n
        if samples:
            chk.note("undecided: " + " | ".join(samples))
        chk.count("undecided_obligations", nund)
    chk.count("helpers_analysed", nf, floor=7)
    chk.analysed = {"units": ["strings.c"], "functions": FUNCS}
    chk.assume("calling conventions: dest holds `size` bytes; source arguments are NUL-terminated strings; lengths fit their integer types")
    return chk.finish()
