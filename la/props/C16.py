"""C16 — NULL-argument contract (rule family GUARD).

For every (function, pointer parameter) in the domain the function is executed abstractly with that
parameter NULL and the other pointer parameters valid (nullness dataflow with infeasible-edge
pruning, interprocedural dereference summaries).  Obligations:
  G1  no dereference of the NULL argument is reachable (directly, through an alias, or through a callee
      that dereferences it unguarded);
  G2  every reachable return yields the failure value frozen in tables/c16_contract.json;
  G3  nothing is allocated and nothing outside the function's own locals is stored on that path;
  G4  the function still tests the parameter (the guard exists);
  G5  sibling agreement: if the parameter of a class-table slot is guarded by the other classes it is
      guarded by all (entries added to the table by hand from the survey);
  G6  the fatal path taken by ASSERT at runtime level >= 1 cannot return.
"""
import json
import os
import sys

import re

from .. import facts, nullness, expr as X
from ..report import Check, canon
from ..facts import VERIF, AnalysisBroken

TABLE = os.path.join(VERIF, "tables", "c16_contract.json")
NORETURN = {"libast_fatal_error"}


def domain(prog):
    slotf = prog.slot_functions()
    exported = set()
    for u in prog.units.values():
        for p in u.protos:
            f = u.files[p["f"]] if "f" in p else ""
            if "include/" in f and not p.get("static"):
                exported.add(p["n"])
    fns = [f for f in prog.all_functions() if (f.name in slotf or f.name in exported) and f.cfg is not None]
    fns.sort(key=lambda f: (f.unit.name, f.line or 0))
    return fns, slotf, exported


def classify(fn, i, r):
    vals = sorted(set(v for _, v in r.returns))
    if r.tests and not r.derefs and not r.effects and len(vals) <= 1 and not r.reassigned:
        return "GUARDED", (vals[0] if vals else "noreturn")
    if r.tests:
        return "TOLERANT", None
    return "UNTESTED", None


def fatal_cannot_return(prog, chk):
    """G6: every path through libast_fatal_error ends in a noreturn call."""
    fn = prog.fn("libast_fatal_error")
    if fn is None or fn.cfg is None:
        raise AnalysisBroken("libast_fatal_error not found")
    cfg = fn.cfg
    from .. import flow
    seed = frozenset(("nn", "d%d" % p["d"]) for p in fn.params if p.get("tp"))
    ins = flow.forward(cfg, seed, nullness.transfer, refine=nullness.refine)
    bad = []
    for p in cfg.blocks[cfg.exit].pred:
        if p in ins and not cfg.blocks[p].noret:
            bad.append(p)
    # a noret block must end in a call to a libc noreturn function
    from ..models import NORETURN_LIBC
    nore = 0
    for b in cfg.blocks.values():
        if b.noret:
            for e in b.el:
                n = fn.nodes.get(e)
                if n is not None and n.get("k") == "call" and (n.get("noret") or n.get("callee") in NORETURN_LIBC):
                    nore += 1
    chk.ob("G6", "libast_fatal_error", "all-paths-end-in-noreturn", not bad and nore > 0,
           detail="a path through libast_fatal_error reaches its normal exit (blocks %s): ASSERT at level>=1 would "
                  "carry on with the NULL object" % bad,
           loc=fn.loc(fn.body), proof="%d noreturn call(s); exit block has no fall-through predecessor" % nore)
    return not bad and nore > 0


n_undecided_g2 = [0]


def run(tier="quick", mktable=False):
    chk = Check("C16", level="other", tier=tier,
                explanation="GUARD: scenario dataflow per (entry point, pointer parameter) with the parameter NULL; "
                            "decides the structural whole of the NULL-argument contract for the configured build")
    chk.rule("G1", "no dereference of the NULL argument is reachable when it is NULL and the other arguments are valid")
    chk.rule("G2", "every return reachable with the argument NULL yields the frozen failure value")
    chk.rule("G3", "no allocation and no store outside the function's locals on the NULL-argument path")
    chk.rule("G4", "the guard (a branch on the nullness of the parameter) exists")
    chk.rule("G6", "libast_fatal_error cannot return")
    prog = facts.extract()
    ok6 = fatal_cannot_return(prog, chk)
    summ = nullness.Summaries(prog, noreturn=NORETURN)  # G6 reports the root cause if this assumption fails
    fns, slotf, exported = domain(prog)
    results = {}
    for f in fns:
        for i, p in enumerate(f.params):
            if p.get("tp"):
                results[(f.name, i)] = (f, nullness.scenario(f, i, summ))
    # parameters a function does not test itself but hands to a callee that does (contains(self, obj) -> find(self, obj)): the
    # NULL argument is safe by delegation today, so it must stay free of dereferences (class DELEGATED, G1 only)
    tested = {k for k, (f, r) in results.items() if r.tests}
    delegated = set()
    grew = True
    while grew:
        grew = False
        for (name, i), (f, r) in results.items():
            if (name, i) in tested or (name, i) in delegated or r.derefs or r.tests:
                continue
            d = f.params[i]["d"]
            for c in X.calls_in(f.body):
                g = prog.fn(X.callee_name(c) or "")
                if g is None:
                    continue
                for k, a in enumerate(c["ch"][1:]):
                    sa = X.strip(a)
                    if sa is not None and sa.get("k") == "ref" and sa.get("d") == d and ((g.name, k) in tested or (g.name, k) in delegated):
                        delegated.add((name, i))
                        grew = True
    if mktable:
        entries = []
        for (name, i), (f, r) in sorted(results.items()):
            c, v = classify(f, i, r)
            if c == "UNTESTED" and (name, i) in delegated:
                c, v = "DELEGATED", None
            if c == "UNTESTED":
                continue
            e = {"fn": name, "param": i, "pname": f.params[i]["n"], "class": c}
            if v is not None:
                e["fail"] = v
            entries.append(e)
        old = {}
        if os.path.exists(TABLE):
            for e in json.load(open(TABLE))["entries"]:
                if e.get("manual"):
                    old[(e["fn"], e["param"])] = e
        merged = {(e["fn"], e["param"]): e for e in entries}
        merged.update(old)
        with open(TABLE, "w") as fh:
            json.dump({"comment": "frozen NULL-argument contract: (function, parameter) -> class and failure value; "
                                  "generated once from the reviewed tree by `bin/check C16 --mktable`, entries with "
                                  "manual=true were added by hand (reason given)",
                       "entries": [merged[k] for k in sorted(merged)]}, fh, indent=0)
        print("wrote %d entries" % len(merged))
        return 0
    try:
        table = json.load(open(TABLE))["entries"]
    except (OSError, ValueError) as e:
        raise AnalysisBroken("cannot read %s: %s" % (TABLE, e))
    tidx = {(e["fn"], e["param"]): e for e in table}
    present = 0
    missing = []
    for (name, i), e in sorted(tidx.items()):
        if (name, i) not in results:
            missing.append("%s#%d" % (name, i))
            continue
        present += 1
        f, r = results[(name, i)]
        pn = "$P%d" % i
        loc = f.loc(f.body)
        # G1 for every class
        if r.derefs:
            n, kind, via = r.derefs[0]
            chk.ob("G1", name, "deref(%s)" % pn, False,
                   detail="%s(%s=NULL) dereferences the NULL argument: %s%s at %s" % (
                       name, f.params[i]["n"], X.render(n)[:80], (" via callee %s" % via) if via else "", f.loc(n)),
                   loc=f.loc(n))
        else:
            chk.ob("G1", name, "deref(%s)" % pn, True, loc=loc,
                   proof="scenario %s=NULL: no reachable dereference" % f.params[i]["n"])
        if e["class"] != "GUARDED":
            continue
        chk.ob("G4", name, "guard(%s)" % pn, r.tests, loc=loc,
               detail="%s no longer tests %s for NULL (contract table says it is guarded, failure value %s)" % (
                   name, f.params[i]["n"], e.get("fail")),
               proof="a branch on the nullness of %s exists" % f.params[i]["n"])
        vals = sorted(set(v for _, v in r.returns))
        want = e.get("fail")
        bad = [v for v in vals if v != want]
        if want == "noreturn":
            # the table was built from a body without a return statement (a void function falling off its end, or a path that
            # does not return at all): an explicit `return;` is the same outcome, only a returned value would differ
            bad = [v for v in vals if v != "void"]
        # a returned local whose value a helper computed (through an out-parameter) is not a known different value: only
        # constants (and NULL / a recognisable other expression) can contradict the table
        undec = [v for v in bad if re.fullmatch(r"\$L\d+", str(v))]
        bad = [v for v in bad if v not in undec]
        if undec and not bad:
            n_undecided_g2[0] += 1
        if bad:
            n = [n for n, v in r.returns if v in bad][0]
            chk.ob("G2", name, "fail-value(%s)" % pn, False, loc=f.loc(n),
                   detail="%s(%s=NULL) returns %s instead of the documented failure value %s" % (
                       name, f.params[i]["n"], bad[0], want))
        else:
            chk.ob("G2", name, "fail-value(%s)" % pn, True, loc=loc,
                   proof="all %d reachable return(s) yield %s" % (len(r.returns), want))
        if r.effects:
            n, d = r.effects[0]
            chk.ob("G3", name, "no-effect(%s)" % pn, False, loc=f.loc(n),
                   detail="%s(%s=NULL): %s before the failure return" % (name, f.params[i]["n"], d))
        else:
            chk.ob("G3", name, "no-effect(%s)" % pn, True, loc=loc, proof="no store/allocation reachable")
    # functions outside the table that test a parameter: contradiction rule (G1 only)
    extra = 0
    for (name, i), (f, r) in sorted(results.items()):
        if (name, i) in tidx or not r.tests:
            continue
        extra += 1
        pn = "$P%d" % i
        if r.derefs:
            n, kind, via = r.derefs[0]
            chk.ob("G1", name, "deref(%s)" % pn, False, loc=f.loc(n),
                   detail="%s tests %s for NULL but dereferences it when it is NULL: %s%s" % (
                       name, f.params[i]["n"], X.render(n)[:80], (" via callee %s" % via) if via else ""))
        else:
            chk.ob("G1", name, "deref(%s)" % pn, True, loc=f.loc(f.body), proof="untabled; tests and never dereferences NULL")
    # G7 the reporting path of a failed guard stays usable: a failed REQUIRE logs through libast_dprintf, which itself REQUIREs
    # the program name - so a function of the message module that releases the name (FREE stores NULL into it) gives it a new
    # value on every path before it returns; a name left NULL turns the next soft refusal into unbounded recursion
    chk.rule("G7", "the program name / version the guards' diagnostics need are never left NULL by their setters")
    from .. import flow
    from ..facts import walk
    mu = prog.units.get("msgs.c")
    nset = 0
    for f in (mu.functions.values() if mu is not None else ()):
        if f.body is None or f.cfg is None:
            continue
        gl = {}
        for x in walk(f.body):
            if x.get("k") == "assign" and x.get("op") == "=":
                l = X.strip(x["ch"][0])
                if l is not None and l.get("k") == "ref" and l.get("rk") == "global" and l.get("tp") and re.match(r"libast_program_(name|version)$", l.get("n", "")):
                    gl[l["n"]] = X.apath(l)
        if not gl:
            continue
        cfg7 = nullness.prepared_cfg(f, NORETURN)
        bad7 = []

        def t7(state, n, blk):
            if n.get("k") == "assign" and n.get("op") == "=":
                l = X.strip(n["ch"][0])
                if l is not None and l.get("k") == "ref" and l.get("n") in gl:
                    st = frozenset(x for x in state if x[1] != l["n"])
                    return st | {("null", l["n"])} if X.is_null_const(n["ch"][1]) else st
            return state

        def r7(state, cond, truth, blk):
            if isinstance(truth, tuple):
                return state
            for fct in X.implied(cond, truth):
                for nm, pth in gl.items():
                    if fct[0] == "nn" and fct[1] == pth and ("null", nm) in state:
                        return frozenset(x for x in state if x != ("null", nm))
            return state

        ins7 = flow.forward(cfg7, frozenset(), t7, refine=r7, join=lambda a, b: a | b)
        nset += 1
        end_state = ins7.get(cfg7.exit) or frozenset()
        if end_state:
            bad7.append((f.body, sorted(x[1] for x in end_state)))
        chk.ob("G7", f.name, "name-not-left-null", not bad7, loc=f.loc(bad7[0][0]) if bad7 else f.loc(f.body),
               detail="%s can return with %s released and set to NULL and no new value stored: every later failed REQUIRE logs through "
                      "libast_dprintf(), whose own guard on that name fails and logs again - unbounded recursion instead of the soft "
                      "refusal" % (f.name, ", ".join(bad7[0][1]) if bad7 else ""),
               proof="every path from a release of the name to a return stores a new value")
    chk.count("message_name_setters", nset, floor=1)
    chk.count("contract_table_entries", len(tidx))
    chk.count("contract_entries_present", present, floor=int(len(tidx) * 0.9))
    chk.count("class_tables", len(prog.class_tables()), floor=20)
    chk.count("domain_functions", len(fns), floor=400)
    chk.count("scenarios", len(results), floor=500)
    chk.count("untabled_tested_params", extra)
    if missing:
        chk.note("table entries whose function is not in the tree (renamed/removed, not an alarm): " + ", ".join(missing[:40]))
    chk.analysed = {"units": sorted(prog.units), "flags": prog.flags, "functions": len(fns)}
    chk.assume("distinct parameters do not alias; other pointer parameters are valid objects")
    chk.assume("facts about fields survive calls (callees do not reset the tested field)")
    chk.assume("configured build (config.h DEBUG value); runtime debug level left symbolic, both arms explored")
    return chk.finish()
