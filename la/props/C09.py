"""C09 — config parser: dispatch to the innermost context, state threading, balanced file/context stacks.

Decided (structure of conf.c):
  W1  the context-state and file-state tables: capacity, evaluated in its declared width through every doubling,
      stays above every 8-bit index (up to 255)
  P1  spifconf_parse_line pops the file stack / ends a context only for the <argv> push of the same call, on both
      the fp == NULL and fp != NULL scenarios (the parameter is what SPIFCONF_PARSE_RET tests), and never returns
      with that push outstanding
  P2  the begin / end / ordinary-line handler calls: right state argument (enclosing for begin, innermost for end
      and lines), result stored back to the stack, begin after push, end before pop and guarded by the depth
  P3  the push functions write into their table only after advancing the index (never over a live entry)
  P4  spifconf_parse closes a stream before popping it and pushes only streams it has opened
  I1  no use of an uninitialised local in conf.c (clang's CFG-based analyses)
  P5  no call passes a NULL constant to a parameter its callee ASSERT-guards (the <argv> push must be accepted)
  P6  a function that takes a new table entry into use stores every field of it (no stale flags from the slot's previous user)
  P10 after spiftool_chomp() of the line every CFG path to a handler call has tested the first byte against '#' and NUL
      (indented comments and blank-only lines are delivered to nobody); undecided when a unit-local classifier is used
Not decided: exactly-once in-order delivery, trimming, include ordering."""
from .. import facts, expr as X, confrules as R
from ..report import Check


def run(tier="quick"):
    chk = Check("C09", level="other", tier=tier,
                explanation="width/wrap evaluation of the stack growth, typestate of the file/context stacks, handler-call protocol shapes")
    chk.rule("W1", "capacity > index through every doubling up to the index type's maximum")
    chk.rule("P1", "parse_line pops only its own <argv> push and always pops it")
    chk.rule("P3", "push functions write only above the old top of the stack")
    chk.rule("P2", "handler calls receive the right state and their result is stored back")
    chk.rule("P6", "a function that takes a new table entry into use stores every field of it")
    chk.rule("P5", "no NULL constant is passed to an ASSERT-guarded parameter")
    chk.rule("P7", "only a line that did not fit into the line buffer is discarded (not the last line of a file without a final newline)")
    chk.rule("P4", "parse: fclose before pop, push after successful open")
    chk.rule("I1", "no uninitialised local is used")
    prog = facts.extract(only=["conf.c"])
    u = prog.units.get("conf.c")
    if u is None:
        raise facts.AnalysisBroken("conf.c not analysed")
    nw = R.check_wrap(chk, u, tables={"ctx_state_cnt", "fstate_cnt", "ctx_cnt"})
    chk.rule("W2", "a counter compared `<=` with an 8/16-bit index is wider than that index (the search terminates when the table is full)")
    chk.count("inclusive_narrow_bound_loops", R.check_counter_width(chk, [u], "W2"), floor=1)
    np3 = R.check_push_writes(chk, u, ["spifconf_register_context_state", "spifconf_register_fstate"])
    chk.count("push_write_sites", np3, floor=5)
    npop = R.check_parse_line_stack(chk, u)
    nh = R.check_handler_protocol(chk, u)
    np4 = R.check_parse_close_before_pop(chk, u)
    R.check_null_literal_args(chk, prog, u, "P5")
    chk.count("line_discard_sites", R.check_discarded_lines(chk, u, "P7"), floor=1)
    chk.rule("P9", "a stream the parser opens itself is closed, returned or handed to the file stack on every path")
    chk.count("streams_opened_into_locals", R.check_stream_leaks(chk, prog, u, "P9"), floor=1)
    chk.rule("P10", "after the white-space normalisation every path to a handler call has excluded a first byte of '#' and NUL (comments and empty lines are delivered to nobody)")
    chk.count("handler_calls_after_normalisation", R.check_comment_filter(chk, u, "P10"), floor=0)
    np6 = R.check_push_initialises(chk, prog, u, "P6")
    chk.count("entry_taking_functions", np6, floor=3)
    diags = facts.clang_diagnostics(warn_flags=["-Wuninitialized", "-Wsometimes-uninitialized"], units=["conf.c"])
    for unit, fpath, line, col, flag, msg in diags:
        chk.ob("I1", "conf.c", "uninit:%s" % msg.split("'")[1] if "'" in msg else msg[:30], False, loc="src/%s:%d" % (fpath, line),
               detail="conf.c:%d: %s [%s]" % (line, msg, flag))
    if not diags:
        chk.ob("I1", "conf.c", "uninit", True, loc="src/conf.c", proof="clang -Wuninitialized -Wsometimes-uninitialized: no report")
    chk.count("growth_sites", nw, floor=3)
    chk.count("pop_sites_in_parse_line", npop, floor=2)
    chk.count("handler_call_sites", nh, floor=3)
    chk.count("pop_sites_in_parse", np4, floor=1)
    chk.analysed = {"units": ["conf.c"]}
    return chk.finish()
