"""Shared driver: run CAP over a list of functions and turn its obligations into Check obligations."""
from . import expr as X, capdrv
from .cap import Cap
from .report import canon

def prog_fn(fns, name):
    for f in fns:
        if f.name == name:
            return f
    return None


KIND_TEXT = {
    "lower": "access starts before the beginning of the object",
    "upper": "access runs past the end of the object",
    "null": "dereference of a NULL buffer",
    "freed": "use of released memory",
    "inv": "representation invariant broken on return",
    "nul": "text not terminated exactly at its length on return",
    "cursor": "string cursor beyond the terminator",
    "count": "negative byte count",
    "badfree": "free of a non-heap or interior pointer",
    "unterminated": "string function on a buffer without a known terminator",
    "unbounded": "unbounded formatted write",
}


def internal_helpers(prog, fns, max_depth=Cap.MAX_INLINE):
    """Functions of `fns` that are not entry points of anything: static, never installed in a table or otherwise used as a
    value, and called from functions of `fns` (directly, or through another such helper within CAP's inlining depth).
    Such a helper may rely on what its callers established (a position already validated, a pointer already tested); it is
    analysed where it is inlined into each caller - with the caller's state - and not a second time from an arbitrary one."""
    from .facts import walk
    by_unit = {}
    for f in fns:
        by_unit.setdefault(f.unit.name, []).append(f)
    inset = {id(f) for f in fns}
    cand = {}
    for uname, fs in by_unit.items():
        u = fs[0].unit
        used_as_value = set()
        callers = {}
        bodies = [(g, g.body) for g in u.functions.values() if g.body is not None]
        for g, body in bodies:
            callee_nodes = set()
            for c in X.calls_in(body):
                s0 = X.strip(c["ch"][0])
                if s0 is not None and s0.get("k") == "ref" and s0.get("rk") == "func":
                    callee_nodes.add(s0["i"])
                    callers.setdefault(s0["n"], set()).add(g.name)
            for n in walk(body):
                if n.get("k") == "ref" and n.get("rk") == "func" and n["i"] not in callee_nodes:
                    used_as_value.add(n["n"])
        for gl in u.all_globals:
            if gl.get("init") is not None:
                for n in walk(gl["init"]):
                    if n.get("k") == "ref" and n.get("rk") == "func":
                        used_as_value.add(n["n"])
        for f in fs:
            if f.static and f.name not in used_as_value and callers.get(f.name) and f.name not in callers[f.name]:
                cand[f.name, uname] = (f, callers[f.name], u)
    # a static function of `fns` none of whose callers is analysed here (its callers are outside the scope: the constructors in
    # front of a parser that this check analyses from every legal state) is an entry point of the analysed set, not a helper
    changed = True
    while changed:
        changed = False
        for (name, uname), (f, cs, u) in list(cand.items()):
            if not any((c, uname) in cand or (u.functions.get(c) is not None and id(u.functions.get(c)) in inset) for c in cs):
                del cand[name, uname]
                changed = True
    # depth: a helper is internal when every caller is an analysed non-helper (depth 1) or a helper of smaller depth
    depth = {}
    changed = True
    while changed:
        changed = False
        for (name, uname), (f, cs, u) in cand.items():
            if (name, uname) in depth:
                continue
            d = 0
            ok = True
            for c in cs:
                g = u.functions.get(c)
                if (c, uname) in cand:
                    if (c, uname) not in depth:
                        ok = False
                        break
                    d = max(d, depth[c, uname] + 1)
                elif g is not None and id(g) in inset:
                    d = max(d, 1)
                # a caller outside `fns` is outside the scope this check analyses (as is that caller's own code)
            if ok and 1 <= d <= max_depth:
                depth[name, uname] = d
                changed = True
    return {cand[k][0].name for k in depth}


_FEEDS = {}


def _feeds_from_helpers(prog, fn, cp):
    """Does fn hand part of its scanning to inlined helpers that loop or write through the address of one of fn's locals?  Then
    the values fn's own bounds depend on (an index a helper returns, a mode a helper stores) cross a call boundary, where the
    loop invariants are weaker: an undecided bound of such a function stays undecided instead of being reported by the strict
    scope (which is meant for the self-contained scanners of the reviewed tree)."""
    key = (fn.unit.name, fn.name)
    if key not in _FEEDS:
        res = False
        from .facts import walk
        for c in X.calls_in(fn.body):
            g = prog.fn(X.callee_name(c) or "")
            if g is None or g.body is None or g is fn or cp.no_inline(g) or not cp.inline:
                continue
            loops = any(x.get("k") in ("for", "while", "do") for x in walk(g.body))
            outp = False
            for a in c["ch"][1:]:
                sa = X.strip(a)
                if sa is not None and sa.get("k") == "un" and sa.get("op") == "&":
                    t = X.strip(sa["ch"][0])
                    if t is not None and t.get("k") == "ref" and t.get("rk") == "local":
                        outp = True
            if loops or outp:
                res = True
        _FEEDS[key] = res
    return _FEEDS[key]


def run_cap(chk, prog, fns, rule="B1", noreturn=("libast_fatal_error",), kinds=None, cap_factory=None, entry=None, strict=False):
    """Analyse each function; BAD obligations become violations, undecided ones are counted."""
    n_und = 0
    n_fn = 0
    und_samples = []
    probe = None
    helpers = set()
    if entry is None and any(f_.static for f_ in fns):
        probe = cap_factory(prog) if cap_factory else Cap(prog, noreturn=noreturn)
        if probe.inline:
            for h in internal_helpers(prog, fns):
                hf = prog_fn(fns, h)
                probe.cur_fn = hf
                try:
                    if not probe.no_inline(hf):
                        helpers.add(h)
                except AttributeError:
                    pass
            probe.cur_fn = None
        if helpers:
            chk.note("CAP: analysed only where inlined into their callers (static, never used as a value): " + ", ".join(sorted(helpers)))
    for fn in fns:
        if fn.name in helpers:
            continue
        if probe is not None:
            cp, probe = probe, None        # the instance made for the helper question serves the first function
        else:
            cp = cap_factory(prog) if cap_factory else Cap(prog, noreturn=noreturn)
        try:
            if entry is not None:
                rets = cp.run_function(fn, entry(fn))
                _finish = None
            else:
                capdrv.analyse(prog, fn, cp)
        except RecursionError:
            chk.note("%s: recursion limit while interpreting; function skipped" % fn.name)
            continue
        n_fn += 1
        for note in cp.notes:
            chk.note(note)
        for o in cp.obls:
            if kinds is not None and o.kind not in kinds:
                continue
            site = "%s:%s" % (o.kind, canon(o.fn, o.node)[:48])
            loc = o.fn.loc(o.node)
            if o.ok:
                chk.ob(rule, fn.name, site, True, loc=loc, proof="entailed by the path condition on every explored path (Fourier-Motzkin)")
            elif o.undecided and strict and o.kind in ("lower", "upper", "count", "null", "slice") and fn.nodes.get(o.node.get("i")) is o.node \
                    and not _feeds_from_helpers(prog, fn, cp):
                # strict scope: every bound of these functions is proven on the reviewed tree, so a bound that can no
                # longer be established is reported.  Obligations inside an inlined helper (o.fn is not the analysed function)
                # stay undecided: the invariants across a call boundary are weaker, and a helper extracted by a refactoring
                # must not turn into an alarm.
                chk.ob(rule, fn.name, site, False, loc=loc,
                       detail="%s: no bound can be established any more: %s (the loop invariants that proved this on the reviewed tree "
                              "no longer hold)" % (fn.name, o.detail))
            elif o.undecided:
                n_und += 1
                if len(und_samples) < 12:
                    und_samples.append("%s %s: %s" % (fn.name, loc, o.detail[:100]))
            else:
                chk.ob(rule, fn.name, site, False, loc=loc,
                       detail="%s: %s; witness %s" % (fn.name, o.detail, o.witness))
    return n_fn, n_und, und_samples
