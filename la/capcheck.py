"""Shared driver: run CAP over a list of functions and turn its obligations into Check obligations."""
from . import expr as X, capdrv
from .cap import Cap
from .report import canon

KIND_TEXT = {
    "lower": "access starts before the beginning of the object",
    "upper": "access runs past the end of the object",
    "null": "dereference of a NULL buffer",
    "freed": "use of released memory",
    "inv": "representation invariant broken on return",
    "nul": "text not terminated exactly at its length on return",
    "cursor": "string cursor beyond the terminator",
    "count": "negative byte count",
    "badfree": "free of a non-heap or interior pointer",
    "unterminated": "string function on a buffer without a known terminator",
    "unbounded": "unbounded formatted write",
}


def run_cap(chk, prog, fns, rule="B1", noreturn=("libast_fatal_error",), kinds=None, cap_factory=None, entry=None, strict=False):
    """Analyse each function; BAD obligations become violations, undecided ones are counted."""
    n_und = 0
    n_fn = 0
    und_samples = []
    for fn in fns:
        cp = cap_factory(prog) if cap_factory else Cap(prog, noreturn=noreturn)
        try:
            if entry is not None:
                rets = cp.run_function(fn, entry(fn))
                _finish = None
            else:
                capdrv.analyse(prog, fn, cp)
        except RecursionError:
            chk.note("%s: recursion limit while interpreting; function skipped" % fn.name)
            continue
        n_fn += 1
        for note in cp.notes:
            chk.note(note)
        for o in cp.obls:
            if kinds is not None and o.kind not in kinds:
                continue
            site = "%s:%s" % (o.kind, canon(o.fn, o.node)[:48])
            loc = o.fn.loc(o.node)
            if o.ok:
                chk.ob(rule, fn.name, site, True, loc=loc, proof="entailed by the path condition on every explored path (Fourier-Motzkin)")
            elif o.undecided and strict and o.kind in ("lower", "upper", "count", "null", "slice") and fn.nodes.get(o.node.get("i")) is o.node:
                # strict scope: every bound of these functions is proven on the reviewed tree, so a bound that can no
                # longer be established is reported.  Obligations inside an inlined helper (o.fn is not the analysed function)
                # stay undecided: the invariants across a call boundary are weaker, and a helper extracted by a refactoring
                # must not turn into an alarm.
                chk.ob(rule, fn.name, site, False, loc=loc,
                       detail="%s: no bound can be established any more: %s (the loop invariants that proved this on the reviewed tree "
                              "no longer hold)" % (fn.name, o.detail))
            elif o.undecided:
                n_und += 1
                if len(und_samples) < 12:
                    und_samples.append("%s %s: %s" % (fn.name, loc, o.detail[:100]))
            else:
                chk.ob(rule, fn.name, site, False, loc=loc,
                       detail="%s: %s; witness %s" % (fn.name, o.detail, o.witness))
    return n_fn, n_und, und_samples
