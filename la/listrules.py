"""Structural rules for the container classes (array.c, linked_list.c, dlinked_list.c)."""
import re

from . import expr as X, flow, nullness, own, classinfo
from .facts import walk, AnalysisBroken
from .report import canon

NORETURN = {"libast_fatal_error"}
UNITS = ("array.c", "linked_list.c", "dlinked_list.c")


def self_field_store(n, field):
    """assignment (possibly chained) whose target is <param0>-><field>"""
    if n.get("k") != "assign":
        return False
    l = X.strip(n["ch"][0])
    if l.get("k") == "member" and l.get("n") == field and l.get("arrow"):
        b = X.strip(l["ch"][0])
        return b.get("k") == "ref" and b.get("rk") == "param" and b.get("pi") == 0
    return False


def store_targets(n):
    """all lvalues of a (chained) assignment  a = b = c"""
    out = []
    cur = n
    while cur is not None and cur.get("k") == "assign" and cur.get("op") == "=":
        out.append(X.strip(cur["ch"][0]))
        nxt = X.strip(cur["ch"][1])
        cur = nxt if nxt.get("k") == "assign" else None
    return out


def final_rhs(n):
    cur = n
    while True:
        r = X.strip(cur["ch"][1])
        if r.get("k") == "assign" and r.get("op") == "=":
            cur = r
        else:
            return cur["ch"][1]


# --------------------------------------------------------------------------- L1 realloc pairing
def check_realloc_pairing(chk, prog, units, only=None):
    n = 0
    for u in units:
        for f in prog.units[u].functions.values():
            if only is not None and f.name not in only:
                continue
            seen = set()
            for x in walk(f.body):
                if x.get("k") == "call" and X.callee_name(x) in ("realloc", "spifmem_realloc"):
                    # climb to the outermost expression of the REALLOC expansion / the call
                    top = x
                    p = f.parent.get(top["i"])
                    while p is not None and p.get("k") in ("paren", "icast", "cast", "cond"):
                        top = p
                        p = f.parent.get(p["i"])
                    if top["i"] in seen:
                        continue
                    seen.add(top["i"])
                    n += 1
                    memarg = x["ch"][1 if X.callee_name(x) == "realloc" else 4]
                    ok = p is not None and p.get("k") == "assign" and p.get("op") == "=" and canon(f, p["ch"][0]) == canon(f, memarg)
                    tgt = X.render(p["ch"][0])[:30] if p is not None and p.get("k") == "assign" else "nothing"
                    chk.ob("L1", f.name, "realloc-pairing:" + canon(f, memarg)[:36], ok, loc=f.loc(x),
                           detail="%s: the result of REALLOC(%s, ..) is stored into %s, not back into %s: when the block moves or the size is 0 "
                                  "(REALLOC frees and yields NULL) %s keeps pointing at released memory" % (
                                      f.name, X.render(memarg)[:30], tgt, X.render(memarg)[:30], X.render(memarg)[:30]),
                           proof="x = REALLOC(x, ..)")
    return n


# --------------------------------------------------------------------------- L2 unlink effects (doubly linked)
def _if_chain_arms(f, node):
    """list of (if-node, arm) for the if statements enclosing node: arm 'then' | 'else'"""
    res = []
    child = node
    for anc in f.ancestors(node):
        if anc.get("k") == "if":
            inthen = any(y is child for y in walk(anc["then"])) if anc["then"] is not child else True
            if anc["then"] is child or any(y is node for y in walk(anc["then"])):
                res.append((anc, "then"))
            else:
                res.append((anc, "else"))
        child = anc
    return res


def check_unlink_effects(chk, prog, unit, doubly, only=None):
    u = prog.units[unit]
    done = {f.name for f in classinfo.functions_in_slot(prog, "done")} | {f.name for f in classinfo.functions_in_slot(prog, "del")}
    n = 0
    for f in u.functions.values():
        if f.name in done or f.name.endswith(("_done", "_del")) or (only is not None and f.name not in only):
            continue
        dels = [c for c in X.calls_in(f.body) if own.release_kind(c) == "del" and "item" in (X.callee_name(c) or "")]
        if not dels:
            continue
        n += 1
        stores = {"pred-next": [], "succ-prev": [], "head": [], "tail": []}
        for x in walk(f.body):
            if x.get("k") != "assign" or x.get("op") != "=":
                continue
            for l in store_targets(x):
                if l.get("k") != "member":
                    continue
                b = X.strip(l["ch"][0])
                if l["n"] == "next" and not (b.get("k") == "ref" and b.get("rk") == "param"):
                    stores["pred-next"].append(x)
                if l["n"] == "prev":
                    stores["succ-prev"].append(x)
                if l["n"] in ("head", "tail") and b.get("k") == "ref" and b.get("rk") == "param" and b.get("pi") == 0:
                    stores[l["n"]].append(x)
        need = ["pred-next", "head"] + (["succ-prev", "tail"] if doubly else [])
        for kind in need:
            chk.ob("L2", f.name, "unlink-updates:" + kind, bool(stores[kind]), loc=f.loc(dels[0]),
                   detail="%s unlinks and deletes a node but never updates the %s: %s" % (f.name, {
                       "pred-next": "predecessor's next link", "succ-prev": "successor's prev link", "head": "list head", "tail": "list tail"}[kind], {
                       "pred-next": "the chain still reaches the deleted node", "succ-prev": "walking backwards reaches the deleted node",
                       "head": "removing the first element leaves head dangling", "tail": "removing the last element leaves tail dangling"}[kind]),
                   proof="a store to the %s exists" % kind)
        if doubly and stores["head"] and stores["tail"]:
            # first and last are independent: a single element is both, so neither update may sit in the else-arm of the other's test
            bad = False
            for hs in stores["head"]:
                for ts in stores["tail"]:
                    ha = dict((a["i"], arm) for a, arm in _if_chain_arms(f, hs))
                    ta = dict((a["i"], arm) for a, arm in _if_chain_arms(f, ts))
                    for i_ in set(ha) & set(ta):
                        if ha[i_] != ta[i_]:
                            bad = True
            chk.ob("L2", f.name, "head-tail-independent", not bad, loc=f.loc(stores["tail"][0]),
                   detail="%s updates the tail only in the else-arm of the test that updates the head (or vice versa): when the removed node is "
                          "both first and last (a one-element list) one of the two keeps pointing at the deleted node" % f.name,
                   proof="head and tail updates are not in opposite arms of one if")
    return n


# --------------------------------------------------------------------------- L3 insertion effects
def check_insert_effects(chk, prog, unit, doubly, only=None):
    """every node created by the function is, on every path to a success return, linked forwards (someone's next / head)
    and - doubly linked - backwards (someone's prev / tail); len is incremented when a node is linked in"""
    u = prog.units[unit]
    n = 0
    for f in u.functions.values():
        news = {}
        for x in walk(f.body):
            if x.get("k") == "assign" and x.get("op") == "=":
                r = X.strip(x["ch"][1])
                l = X.strip(x["ch"][0])
                if r.get("k") == "call" and re.search(r"_item_new$", X.callee_name(r) or "") and l.get("k") == "ref" and l.get("rk") == "local":
                    news[l["d"]] = x
        if not news or re.search(r"_dup$|_item_dup$", f.name) or (only is not None and f.name not in only):
            continue
        cfg = nullness.prepared_cfg(f, NORETURN)
        n += 1
        results = []

        def rhs_is(e, d):
            s = X.strip(e)
            return s.get("k") == "ref" and s.get("d") == d

        def transfer(state, x, blk):
            if x.get("k") == "assign" and x.get("op") == "=":
                st = set(state)
                r = final_rhs(x)
                l0 = X.strip(x["ch"][0])
                rr = X.strip(x["ch"][1])
                if l0.get("k") == "ref" and l0.get("d") in news and rr.get("k") == "call":
                    st.add(("new", l0["d"]))
                    st.discard(("fwd", l0["d"]))
                    st.discard(("bwd", l0["d"]))
                for d in news:
                    if rhs_is(r, d):
                        for l in store_targets(x):
                            if l.get("k") == "member":
                                if l["n"] in ("next", "head"):
                                    st.add(("fwd", d))
                                if l["n"] in ("prev", "tail"):
                                    st.add(("bwd", d))
                                if l["n"] == "head" and not doubly:
                                    st.add(("fwd", d))
                return frozenset(st)
            if x.get("k") == "un" and x.get("op") == "++" or (x.get("k") == "assign" and x.get("op") == "+="):
                t = X.strip(x["ch"][0])
                if t.get("k") == "member" and t.get("n") == "len":
                    return state | {("len++",)}
            return state

        def visit(state, x, blk):
            if x.get("k") == "return" and x.get("val") is not None:
                cv = X.const_val(x["val"])
                if cv is not None and cv != 0 or (cv is None and X.strip(x["val"]).get("k") != "call"):
                    for d in news:
                        if ("new", d) in state:
                            results.append((x, d, ("fwd", d) in state, ("bwd", d) in state, ("len++",) in state))
        flow.forward(cfg, frozenset(), transfer, visit=visit)
        okf = all(r[2] for r in results)
        okb = all(r[3] for r in results) if doubly else True
        okl = all(r[4] for r in results)
        loc = f.loc(results[0][0]) if results else f.loc(f.body)
        badf = [r for r in results if not r[2]]
        badb = [r for r in results if not r[3]]
        chk.ob("L3", f.name, "new-node-forward-linked", okf, loc=f.loc(badf[0][0]) if badf else loc,
               detail="%s returns success on a path on which the node it created is neither stored as some node's next nor as the head: "
                      "the element is not in the chain" % f.name, proof="on every success path the new node becomes someone's next / the head")
        if doubly:
            chk.ob("L3", f.name, "new-node-backward-linked", okb, loc=f.loc(badb[0][0]) if badb else loc,
                   detail="%s returns success on a path on which the node it created is neither stored as some node's prev nor as the tail: "
                          "backward walks and the tail pointer miss the new last/only element" % f.name,
                   proof="on every success path the new node becomes someone's prev / the tail")
        chk.ob("L5", f.name, "len-incremented", okl, loc=loc,
               detail="%s links a new node in without incrementing len on some path: count and chain length disagree" % f.name,
               proof="len++ on every success path that created a node")
    return n


def check_len_on_remove(chk, prog, unit, only=None):
    u = prog.units[unit]
    n = 0
    for slot in ("remove", "remove_at"):
        for f in classinfo.functions_in_slot(prog, slot):
            if f.unit.name != unit or (only is not None and f.name not in only):
                continue
            cfg = nullness.prepared_cfg(f, NORETURN)
            dels = [c for c in X.calls_in(f.body) if own.release_kind(c) == "del" and "item" in (X.callee_name(c) or "")]
            if not dels:
                continue
            n += 1
            decs = [x for x in walk(f.body) if (x.get("k") == "un" and x.get("op") == "--" or (x.get("k") == "assign" and x.get("op") == "-="))
                    and X.strip(x["ch"][0]).get("n") == "len"]
            ok = all(any(cfg.node_dominates(d["i"], x["i"]) or cfg.node_dominates(x["i"], d["i"]) for x in decs) for d in dels) and bool(decs)
            chk.ob("L5", f.name, "len-decremented", ok, loc=f.loc(dels[0]),
                   detail="%s deletes a node without decrementing len on that path" % f.name, proof="len-- on the path of every node deletion")
    return n


# --------------------------------------------------------------------------- L4 reverse
def check_reverse(chk, prog, unit, doubly):
    n = 0
    for f in classinfo.functions_in_slot(prog, "reverse"):
        if f.unit.name != unit:
            continue
        n += 1
        for fld in (["head", "tail"] if doubly else ["head"]):
            ok = any(any(l.get("k") == "member" and l.get("n") == fld for l in store_targets(x)) for x in walk(f.body)
                     if x.get("k") == "assign" and x.get("op") == "=")
            chk.ob("L4", f.name, "reverse-updates:" + fld, ok, loc=f.loc(f.body),
                   detail="%s reverses the chain but never updates self->%s" % (f.name, fld), proof="self->%s is stored" % fld)
    return n


# --------------------------------------------------------------------------- L6 ordering direction
def _cmp_pred(cond):
    """('GREATER'|'LESS'|'EQUAL', negated, comp-call or local) for conditions built from SPIF_CMP_IS_*"""
    c = X.strip(cond)
    neg = False
    while c.get("k") == "un" and c.get("op") == "!":
        c = X.strip(c["ch"][0])
        neg = not neg
    if c.get("k") == "bin" and c.get("op") in ("==", "!="):
        v = X.const_val(c["ch"][1])
        if v in (-1, 0, 1):
            kind = {1: "GREATER", -1: "LESS", 0: "EQUAL"}[v]
            if c["op"] == "!=":
                neg = not neg
            return kind, neg, c["ch"][0]
    return None


def _comp_args(f, e):
    """(arg0, arg1) of the comparison whose result e is (call, dispatch, or local assigned from one)"""
    s = X.strip(e)
    if s.get("k") == "call":
        cn = X.callee_name(s) or X.dispatch_slot(s) or ""
        if "comp" in cn or "cmp" in cn:
            a = s["ch"][1:]
            if len(a) >= 2:
                return a[0], a[1]
    if s.get("k") == "ref" and s.get("rk") == "local":
        for x in walk(f.body):
            if x.get("k") == "assign" and x.get("op") == "=" and X.strip(x["ch"][0]).get("d") == s["d"]:
                r = _comp_args(f, x["ch"][1])
                if r:
                    return r
            if x.get("k") == "decl":
                for d in x.get("decls", ()):
                    if d["d"] == s["d"] and d.get("init") is not None:
                        r = _comp_args(f, d["init"])
                        if r:
                            return r
    return None


def _is_probe(f, e, probes):
    s = X.strip(e)
    while s is not None and s.get("k") in ("member",) and False:
        s = X.strip(s["ch"][0])
    return s is not None and s.get("k") == "ref" and s.get("d") in probes


def ordering_sites(f):
    """[(node, 'asc'|'desc')] normalised direction of every order-dependent decision in f"""
    probes = set()
    for i, p in enumerate(f.params):
        if i >= 1:
            probes.add(p["d"])
    for x in walk(f.body):
        if x.get("k") == "assign" and x.get("op") == "=":
            r = X.strip(x["ch"][1])
            l = X.strip(x["ch"][0])
            if r.get("k") == "call" and re.search(r"_item_new$", X.callee_name(r) or "") and l.get("k") == "ref":
                probes.add(l["d"])
    out = []

    def consider(cond, action, node):
        """action: 'advance' (keep walking right) | 'stop' (give up / go left)"""
        pr = _cmp_pred(cond)
        if pr is None:
            return
        kind, neg, e = pr
        if kind == "EQUAL":
            return
        args = _comp_args(f, e)
        if args is None:
            return
        a0p, a1p = _is_probe(f, args[0], probes), _is_probe(f, args[1], probes)
        if a0p == a1p:
            return
        # relation between element and probe when the condition holds
        rel = kind            # relation of arg0 to arg1
        if neg:
            rel = {"GREATER": "LESS", "LESS": "GREATER"}[kind]     # !LESS = GREATER-or-equal: the same direction, non-strict
        if a0p:               # comp(probe, elem): GREATER means probe > elem, i.e. elem < probe
            elem_rel = {"GREATER": "elem<probe", "LESS": "elem>probe"}[rel]
        else:
            elem_rel = {"GREATER": "elem>probe", "LESS": "elem<probe"}[rel]
        if (elem_rel == "elem<probe" and action == "advance") or (elem_rel == "elem>probe" and action == "stop"):
            out.append((node, "asc"))
        else:
            out.append((node, "desc"))
    for x in walk(f.body):
        if x.get("k") in ("for", "while") and x.get("cond") is not None:
            for cj in _conjuncts(x["cond"]):
                consider(cj, "advance", x)
        if x.get("k") == "if":
            then = x["then"]
            acts = [y.get("k") for y in walk(then)]
            stores = [y for y in walk(then) if y.get("k") == "assign"]
            ends = set()
            for y in stores:
                if y.get("op") == "=" and _is_probe(f, final_rhs(y), probes):
                    for l in store_targets(y):
                        if l.get("k") == "member" and l.get("n") in ("head", "tail") and X.strip(l["ch"][0]).get("rk") == "param":
                            ends.add(l["n"])
            if "break" in acts or ("return" in acts and not stores):
                for cj in _conjuncts(x["cond"]):
                    consider(cj, "stop", x)
            elif ends == {"head"}:
                # the new node goes in front of the first element: taken when that element is greater than the probe
                for cj in _conjuncts(x["cond"]):
                    consider(cj, "stop", x)
            elif ends == {"tail"}:
                for cj in _conjuncts(x["cond"]):
                    consider(cj, "advance", x)
            else:
                # binary search: start = mid + 1 (right) / end = mid - 1 (left)
                for y in stores:
                    r = X.strip(y["ch"][1])
                    if r.get("k") == "bin" and r.get("op") in ("+", "-") and X.const_val(r["ch"][1]) == 1:
                        for cj in _conjuncts(x["cond"]):
                            consider(cj, "advance" if r["op"] == "+" else "stop", x)
    return out


def _conjuncts(c):
    c0 = X.strip(c)
    if c0.get("k") == "bin" and c0.get("op") == "&&":
        return _conjuncts(c0["ch"][0]) + _conjuncts(c0["ch"][1])
    return [c]


def short_slot(prog, f):
    """interface slot name the function is installed in (first non-parent slot), or None"""
    for t in prog.class_tables():
        for s_, v in t["slots"].items():
            if v == f.name and not s_.startswith("parent."):
                return s_.split(".")[-1]
    return None


def check_ordering(chk, prog, fns):
    """all order-dependent decisions of the given functions agree on ascending order"""
    n = 0
    for f in fns:
        if True:
            for node, d in ordering_sites(f):
                n += 1
                chk.ob("L6", f.name, "order-direction:" + canon(f, node.get("cond") or node)[:36], d == "asc", loc=f.loc(node),
                       detail="%s decides on the comparison in the opposite direction from the ordered insertion (ascending): with this test a "
                              "search gives up before / walks past the place where the insertion put the element" % f.name,
                       proof="normalises to: keep going while element < probe, stop when element > probe")
    return n


# --------------------------------------------------------------------------- map rules
def check_map_copies(chk, prog, fns):
    """C03: set() stores copies: the key/value parameters (or the fields of a pair parameter) are only ever passed to
    DUP / the copying pair constructor, never stored or deleted"""
    n = 0
    for f in fns:
        n += 1
        pds = {p["d"]: p["n"] for p in f.params[1:]}
        bad = None
        for x in walk(f.body):
            if x.get("k") == "call":
                cn = X.callee_name(x) or X.dispatch_slot(x) or ""
                args = x["ch"][1:]
                for j, a in enumerate(args):
                    s = X.strip(a)
                    if s.get("k") == "ref" and s.get("d") in pds:
                        copying = cn in ("dup",) or "new_from_both" in cn or cn.endswith("_dup") or cn in ("comp", "spif_obj_comp") or "comp" in cn
                        releasing = own.release_kind(x) in ("free", "del")
                        storing = re.search(r"_set_(key|value|data)$|_insert$|_append$|_prepend$", cn) is not None
                        if releasing or (storing and not copying):
                            bad = (x, "passes the caller's %s to %s()" % (pds[s["d"]], cn))
            if x.get("k") == "assign" and x.get("op") == "=":
                r = X.strip(final_rhs(x))
                if r.get("k") == "ref" and r.get("d") in pds:
                    for l in store_targets(x):
                        if l.get("k") in ("member", "index"):
                            bad = (x, "stores the caller's %s pointer" % pds[r["d"]])
        chk.ob("M1", f.name, "stores-copies", bad is None, loc=f.loc(bad[0]) if bad else f.loc(f.body),
               detail="%s %s: the map does not hold its own copy, so changing or deleting the caller's object afterwards changes or "
                      "invalidates what the map returns" % (f.name, bad[1] if bad else ""),
               proof="key/value parameters only reach DUP / the copying pair constructor / comparisons")
    return n


def check_remove_by_equality(chk, prog, fns):
    """C03/C04: in remove functions the node that is unlinked is one that compared EQUAL to the probe"""
    n = 0
    for f in fns:
        if True:
            n += 1
            # every comparison predicate in the function is an (in)equality test: a strict-order exit would pick a neighbour
            bad = None
            for x in walk(f.body):
                cond = None
                if x.get("k") in ("for", "while", "if"):
                    cond = x.get("cond")
                if cond is None:
                    continue
                for cj in _conjuncts(cond):
                    pr = _cmp_pred(cj)
                    if pr is not None and pr[0] != "EQUAL" and _comp_args(f, pr[2]) is not None:
                        bad = x
            chk.ob("M2", f.name, "unlink-on-equality", bad is None, loc=f.loc(bad) if bad else f.loc(f.body),
                   detail="%s selects the node to unlink with an ordering test (%s) rather than equality: a probe that is absent removes its "
                          "neighbour" % (f.name, X.render(bad.get("cond"))[:60] if bad else ""),
                   proof="the search for the node to remove is decided by SPIF_CMP_IS_EQUAL only")
    return n


def check_nullable_data(chk, prog, summ, fns, rule):
    """comparisons dispatched through an element that may be a NULL placeholder (list-interface functions only: vectors and
    maps never hold placeholders)"""
    from .props import C05
    nullable = classinfo.nullable_fields(prog)
    n = 0
    for f in fns:
        if not any(re.search(r"comp$", X.callee_name(c) or X.dispatch_slot(c) or "") for c in X.calls_in(f.body)):
            continue
        n += 1
        before = len(chk.obls)
        C05.check_nullflow(chk, prog, summ, f, nullable, rule)
        # keep only the element-data sites; chain pointers are D1's
        keep = []
        for o in chk.obls[before:]:
            if re.search(r"->data|\[", o.site):
                keep.append(o)
        chk.obls[before:] = keep
        if len(chk.obls) == before:
            chk.ob(rule, f.name, "nullable", True, loc=f.loc(f.body), proof="no dispatch through a possibly-NULL element")
    return n


# --------------------------------------------------------------------------- POS: index arithmetic through ghost positions
def slotfn(prog, unit, ttype, slot):
    """the function installed in `slot` of the class table of type spif_<ttype>class_t in `unit`"""
    for t in prog.class_tables():
        if ttype in t["type"]:
            for s, v in t["slots"].items():
                if isinstance(v, str) and s.split(".")[-1] == slot:
                    f = prog.fn(v)
                    if f is not None and f.unit.name == unit:
                        return f
    return None


def unit_effects(prog, unit):
    """(mutators: name -> len delta or None, pure: names) for calls that pass self on"""
    u = prog.units[unit]
    known = {}
    for slot, d in (("append", 1), ("prepend", 1), ("insert", 1)):
        f = slotfn(prog, unit, "list", slot)
        if f is not None:
            known[f.name] = d
    impure = set(known)
    for f in u.functions.values():
        for x in walk(f.body):
            if x.get("k") == "assign" or (x.get("k") == "un" and x.get("op") in ("++", "--")):
                l = X.strip(x["ch"][0])
                while l is not None and l.get("k") in ("member", "index") or (l is not None and l.get("k") == "un" and l.get("op") == "*"):
                    l = X.strip(l["ch"][0])
                    if l is not None and l.get("k") == "ref" and l.get("rk") == "param":
                        impure.add(f.name)
            if x.get("k") == "call" and (X.callee_name(x) or "") in ("realloc", "spifmem_realloc", "free", "spifmem_free", "memmove", "memset", "memcpy"):
                impure.add(f.name)
    changed = True
    while changed:
        changed = False
        for f in u.functions.values():
            if f.name in impure:
                continue
            for c in X.calls_in(f.body):
                if (X.callee_name(c) or "") in impure:
                    impure.add(f.name)
                    changed = True
                    break
    mut = {n: known.get(n) for n in impure}
    pure = set(u.functions) - impure
    return mut, pure


def _norm_rule(chk, f, idxd):
    """N: negative positions count from the end: `if (idx < 0) idx += self->len` before idx is used"""
    found = None
    for x in f.body.get("ch", []):
        if x.get("k") != "if" or x.get("else") is not None:
            continue
        c = X.strip(x["cond"])
        if not (c.get("k") == "bin" and c.get("op") == "<" and X.strip(c["ch"][0]).get("d") == idxd and X.const_val(c["ch"][1]) == 0):
            continue
        for y in walk(x["then"]):
            if y.get("k") == "assign" and X.strip(y["ch"][0]).get("d") == idxd:
                r = X.strip(y["ch"][1])
                txt = X.render(y)
                if y.get("op") == "+=" and r.get("k") == "member" and r.get("n") == "len":
                    found = x
                elif y.get("op") == "=" and r.get("k") == "bin" and r.get("op") == "+":
                    a, b = X.strip(r["ch"][0]), X.strip(r["ch"][1])
                    if {a.get("d"), b.get("n")} == {idxd, "len"} or {b.get("d"), a.get("n")} == {idxd, "len"}:
                        found = x
    chk.ob("N1", f.name, "negative-index-normalised", found is not None, loc=f.loc(f.body),
           detail="%s does not add self->len to a negative position before using it: positions counted from the end are misplaced "
                  "or refused" % f.name, proof="`if (idx < 0) idx += self->len` at the top of the function")
    return found


def check_positions(chk, prog, unit):
    from .ghostpos import GhostPos, show
    from .lin import Lin
    mut, pure = unit_effects(prog, unit)
    linked = unit != "array.c"
    n_ob = [0]

    def engine(f, no_havoc=False):
        g = GhostPos(f, prog, mutators=mut, pure=pure)
        if no_havoc:
            g.havoc_ptrs = lambda cons, keep=None: cons
        g.run()
        return g

    def ob(rule, f, site, ok, node, detail, proof):
        n_ob[0] += 1
        chk.ob(rule, f.name, site, ok, loc=f.loc(node), detail=detail, proof=proof)

    def null_arm_sites(f):
        """node id -> representative node for every place a NULL/FALSE/-1 refusal value is produced for return"""
        sites = {}
        for x in walk(f.body):
            if x.get("k") == "return" and x.get("val") is not None:
                v = X.strip(x["val"])
                if v.get("k") == "cond":
                    for arm in (v["ch"][1], v["ch"][2]):
                        cv = X.const_val(arm)
                        if X.is_null_const(arm) or cv in (0, -1):
                            for y in walk(arm):
                                sites[y["i"]] = (arm, cv)
                else:
                    cv = X.const_val(x["val"])
                    if X.is_null_const(x["val"]) or cv in (0, -1):
                        sites[x["i"]] = (x, cv)
        return sites

    def idx_sym(f, pi):
        return Lin.sym("v%d" % f.params[pi]["d"])

    L = Lin.sym("len")

    # ---- insert_at
    f = slotfn(prog, unit, "list", "insert_at")
    if f is not None:
        idx = idx_sym(f, 2)
        _norm_rule(chk, f, f.params[2]["d"])
        objd = f.params[1]["d"]
        g = engine(f)
        payload = set()
        for x in walk(f.body):
            if x.get("k") == "call" and re.search(r"_item_set_data$", X.callee_name(x) or ""):
                a = x["ch"][1:]
                if len(a) == 2 and X.strip(a[1]).get("d") == objd and X.strip(a[0]).get("k") == "ref":
                    payload.add(X.strip(a[0])["d"])
            if x.get("k") == "assign" and x.get("op") == "=":
                l, r = X.strip(x["ch"][0]), X.strip(x["ch"][1])
                if l.get("k") == "member" and l.get("n") == "data" and r.get("d") == objd and X.strip(l["ch"][0]).get("k") == "ref":
                    payload.add(X.strip(l["ch"][0])["d"])
        app = slotfn(prog, unit, "list", "append")
        pre = slotfn(prog, unit, "list", "prepend")
        refusals = null_arm_sites(f)
        done = set()

        def v_ins(st, n, blk):
            if n.get("k") == "call":
                cn = X.callee_name(n) or ""
                a = n["ch"][1:]
                if len(a) >= 2 and X.strip(a[1]).get("d") == objd and g.is_self(a[0]):
                    if app is not None and cn == app.name:
                        ok = g.proves_eq(st, idx, L)
                        ob("P1", f, "append-delegation-at-end", ok, n,
                           "%s hands the element to %s() on a path where the normalised position is not known to equal the length "
                           "(state: %s): the element lands at the end instead of at idx" % (f.name, cn, show(st)[:160]),
                           "idx == len entailed at the call")
                    if pre is not None and cn == pre.name:
                        ok = g.proves_eq(st, idx, Lin.const(0))
                        ob("P1", f, "prepend-delegation-at-zero", ok, n,
                           "%s hands the element to %s() on a path where the normalised position is not known to be 0 (state: %s): "
                           "the element lands in front (and no NULL placeholders are created) instead of at idx" % (f.name, cn, show(st)[:160]),
                           "idx == 0 entailed at the call")
            if n.get("k") == "assign" and n.get("op") == "=":
                r = X.strip(final_rhs(n))
                if r.get("k") == "ref" and r.get("d") in payload:
                    for l in store_targets(n):
                        if l.get("k") == "member" and l.get("n") == "next":
                            p = g.pos(l["ch"][0])
                            ok = p is not None and g.proves_eq(st, p + 1, idx)
                            ob("P1", f, "splice-position:" + canon(f, l)[:30], ok, n,
                               "%s links the new node after %s, whose position is not provably idx-1 (state: %s): the element is "
                               "inserted at the wrong place" % (f.name, X.render(l["ch"][0])[:30], show(st)[:200]),
                               "position(%s) + 1 == idx entailed" % X.render(l["ch"][0])[:30])
                        if g.self_field(l) == "head":
                            ok = g.proves_eq(st, idx, Lin.const(0))
                            ob("P1", f, "head-splice-at-zero", ok, n, "%s makes the new node the head although idx is not known to be 0" % f.name, "idx == 0")
                if linked is False:
                    l0 = X.strip(n["ch"][0])
                    if l0.get("k") == "index" and g.self_field(l0["ch"][0]) == "items" and X.strip(n["ch"][1]).get("d") == objd:
                        e = g.lin(l0["ch"][1])
                        ok = e is not None and g.proves_eq(st, e, idx)
                        ob("P1", f, "store-position", ok, n, "%s stores the element at %s, not provably idx" % (f.name, X.render(l0)[:30]), "slot index == idx")
            if n["i"] in refusals and refusals[n["i"]][0]["i"] not in done:
                arm, cv = refusals[n["i"]]
                done.add(arm["i"])
                ok = all(not g.compatible(s_, [idx]) for s_ in g.states_before(n["i"]))
                ob("P4", f, "refuses-only-negative", ok, arm,
                   "%s can return FALSE although the normalised position is >= 0 (state: %s): an insertion the ideal sequence "
                   "accepts is refused" % (f.name, show(st)[:200]), "the refusing return is unreachable with idx >= 0")
        g.visit(v_ins)

    # ---- get / remove_at
    for slot in ("get", "remove_at"):
        f = slotfn(prog, unit, "list", slot)
        if f is None:
            continue
        idx = idx_sym(f, 1)
        _norm_rule(chk, f, f.params[1]["d"])
        g = engine(f, no_havoc=(slot == "remove_at"))
        refusals = null_arm_sites(f)
        done = set()

        def v_get(st, n, blk, f=f, g=g, idx=idx, slot=slot, refusals=refusals, done=done):
            tgt = None
            if slot == "get":
                if n.get("k") == "member" and n.get("n") == "data" and n.get("arrow"):
                    par = f.parent.get(n["i"])
                    if not (par is not None and par.get("k") == "assign" and par["ch"][0] is n):
                        tgt = g.pos(n["ch"][0])
                        what = X.render(n["ch"][0])
                if n.get("k") == "call" and re.search(r"_item_get_data$", X.callee_name(n) or ""):
                    tgt = g.pos(n["ch"][1])
                    what = X.render(n["ch"][1])
                if n.get("k") == "index" and g.self_field(n["ch"][0]) == "items":
                    tgt = g.lin(n["ch"][1])
                    what = X.render(n)
                if tgt is not None or (n.get("k") == "index" and g.self_field(n["ch"][0]) == "items"):
                    ok = tgt is not None and g.proves_eq(st, tgt, idx)
                    ob("P2", f, "returns-element-at-idx", ok, n,
                       "%s reads the element through %s, whose position is not provably idx (state: %s): a neighbour is returned" % (
                           f.name, what[:30], show(st)[:200]), "position == idx entailed")
            else:
                if n.get("k") == "call" and re.search(r"_item_del$", X.callee_name(n) or ""):
                    tgt = g.pos(n["ch"][1])
                    ok = tgt is not None and g.proves_eq(st, tgt, idx)
                    ob("P3", f, "removes-node-at-idx", ok, n,
                       "%s deletes %s, whose position before the unlink is not provably idx (state: %s)" % (f.name, X.render(n["ch"][1])[:30], show(st)[:200]),
                       "position == idx entailed")
                if n.get("k") == "assign" and n.get("op") == "=" and not linked:
                    r = X.strip(n["ch"][1])
                    if r.get("k") == "index" and g.self_field(r["ch"][0]) == "items":
                        e = g.lin(r["ch"][1])
                        ok = e is not None and g.proves_eq(st, e, idx)
                        ob("P3", f, "removes-slot-at-idx", ok, n, "%s takes out %s, not provably slot idx" % (f.name, X.render(r)[:30]), "slot == idx")
            if n["i"] in refusals and refusals[n["i"]][0]["i"] not in done:
                arm, cv = refusals[n["i"]]
                done.add(arm["i"])
                ok = all(not g.compatible(s_, [idx, L - 1 - idx]) for s_ in g.states_before(n["i"]))
                ob("P4", f, "refuses-only-out-of-range", ok, arm,
                   "%s can return NULL although 0 <= idx < len (state: %s): a position the ideal sequence has is refused" % (f.name, show(st)[:200]),
                   "the NULL result is unreachable with idx in range")
        g.visit(v_get)

    # ---- index: the reported position is the position of the matching node
    f = slotfn(prog, unit, "list", "index")
    if f is not None and linked:
        g = engine(f)

        def v_idx(st, n, blk):
            if n.get("k") == "return" and n.get("val") is not None:
                return
            par = f.parent.get(n["i"])
            while par is not None and par.get("k") in ("paren", "icast", "cast"):
                par = f.parent.get(par["i"])
            if n.get("k") == "ref" and n.get("d") in g.intvars and par is not None and par.get("k") == "cond" and X.strip(par["ch"][1]) is n:
                c = X.strip(par["ch"][0])
                p = g.pos(c)
                ok = p is not None and g.proves_eq(st, Lin.sym("v%d" % n["d"]), p)
                ob("P5", f, "index-is-position", ok, n, "%s reports a counter that is not provably the position of the matching node (state: %s)" % (
                    f.name, show(st)[:200]), "counter == position(node)")
        g.visit(v_idx)

    # ---- to_array: slot i receives node i
    f = slotfn(prog, unit, "list", "to_array")
    if f is not None and linked:
        g = engine(f)

        def v_arr(st, n, blk):
            if n.get("k") == "assign" and n.get("op") == "=":
                l = X.strip(n["ch"][0])
                if l.get("k") == "index":
                    e = g.lin(l["ch"][1])
                    src = None
                    for y in walk(n["ch"][1]):
                        if y.get("k") == "call" and re.search(r"_item_get_data$", X.callee_name(y) or ""):
                            src = g.pos(y["ch"][1])
                        if y.get("k") == "member" and y.get("n") == "data":
                            src = g.pos(y["ch"][0])
                    ok = e is not None and src is not None and g.proves_eq(st, e, src)
                    ob("P5", f, "to-array-slot-is-position", ok, n, "%s fills a slot whose index is not provably the node's position (state: %s)" % (
                        f.name, show(st)[:200]), "slot == position(node)")
        g.visit(v_arr)
    return n_ob[0]


def check_chain_derefs(chk, prog, unit, only=None):
    """D1: every dereference of a node pointer reached through the chain (X->next->f, self->tail->f, a walked local) is
    provably inside the chain: 0 <= ghost position <= len-1 (or the local was tested / freshly created)"""
    from .ghostpos import GhostPos, show
    from .lin import Lin
    mut, pure = unit_effects(prog, unit)
    u = prog.units[unit]
    L = Lin.sym("len")
    nsites = 0
    nfn = 0
    for f in u.functions.values():
        rec = classinfo.rec_of_param(f, 0) or ""
        if not re.search(r"list_t_struct$", rec) or "iterator" in rec or "item" in rec or (only is not None and f.name not in only):
            continue
        g = GhostPos(f, prog, mutators=mut, pure=pure)
        if not g.ptrvars and not any(x.get("k") == "member" and x.get("n") in ("head", "tail") for x in walk(f.body)):
            continue
        g.run()
        nfn += 1
        seen = {}

        def v(st, n, blk, f=f, g=g, seen=seen):
            if n.get("k") != "member" or not n.get("arrow"):
                return
            base = X.strip(n["ch"][0])
            if base is None or g.is_self(base):
                return
            isnode = (base.get("k") == "ref" and (base.get("d") in g.ptrvars or base.get("d") in g.foreign)) or g.self_field(base) in ("head", "tail") or \
                     (base.get("k") == "member" and base.get("n") in ("next", "prev"))
            if not isnode:
                return
            if base.get("k") == "ref" and (base.get("d") in g.fresh_nodes or base.get("d") in g.foreign):
                return
            if base.get("k") == "member" and X.strip(base["ch"][0]).get("d") in g.foreign:
                return
            ok = g.known_nonnull(st, base)
            key = canon(f, n)
            prev = seen.get(key)
            if prev is None or (prev[0] and not ok):
                seen[key] = (ok, n, show(st)[:200])
        g.visit(v)
        for key, (ok, n, stxt) in sorted(seen.items()):
            nsites += 1
            chk.ob("D1", f.name, "in-chain:" + key[:40], ok, loc=f.loc(n),
                   detail="%s dereferences %s where it is not provably a node of the chain (state: %s): with the list in a state the "
                          "interface can produce this is a NULL dereference" % (f.name, X.render(n["ch"][0])[:40], stxt),
                   proof="0 <= position <= len-1 entailed, or the pointer was tested non-NULL")
    return nfn, nsites


# --------------------------------------------------------------------------- scope helpers and iterator rules
IFACE = {"list": "spif_listclass_t", "vector": "spif_vectorclass_t", "map": "spif_mapclass_t", "iterator": "spif_iteratorclass_t"}
PARENT_SLOTS = {"noo", "init", "done", "del", "show", "comp", "dup", "type", "classname"}


def iface_functions(prog, iface, units=UNITS, with_parent=False):
    """functions installed in interface slots of tables of this interface, plus their unit-local callees"""
    out = []
    for t in prog.class_tables():
        if IFACE[iface] not in t["type"] or t.get("unit") not in units:
            continue
        for s, v in t["slots"].items():
            if not isinstance(v, str):
                continue
            short = s.split(".")[-1]
            if s.startswith("parent.") and not with_parent:
                continue
            f = prog.fn(v)
            if f is not None and f not in out:
                out.append(f)
    # unit-local helpers reached from them (contains -> find, has_key -> map_get)
    changed = True
    while changed:
        changed = False
        for f in list(out):
            for c in X.calls_in(f.body):
                g = f.unit.functions.get(X.callee_name(c) or "")
                if g is not None and g not in out and g.unit is f.unit and not re.search(r"_item_|_iterator", g.name) and \
                        not re.search(r"_(new|init|done|del|show|comp|dup|type)$", g.name):
                    out.append(g)
                    changed = True
    return out


def check_iterators(chk, prog, units=UNITS):
    """I1 the cursor starts at the first element; I2 next() returns the element under the cursor and advances exactly one step
    on every successful path, reading before advancing; I3 has_next() is TRUE exactly while the cursor is inside the sequence"""
    n = 0
    for t in prog.class_tables():
        if IFACE["iterator"] not in t["type"] or t.get("unit") not in units:
            continue
        slots = {s.split(".")[-1]: prog.fn(v) for s, v in t["slots"].items() if isinstance(v, str)}
        init, nxt, has = slots.get("init"), slots.get("next"), slots.get("has_next")
        if init is None or nxt is None or has is None:
            raise AnalysisBroken("iterator table %s lacks init/next/has_next" % t.get("var"))
        n += 1
        # the cursor field: the field of self that next() stores to
        cur = None
        for x in walk(nxt.body):
            if x.get("k") in ("assign", "un"):
                l = X.strip(x["ch"][0])
                if l.get("k") == "member" and l.get("arrow") and X.strip(l["ch"][0]).get("pi") == 0 and X.strip(l["ch"][0]).get("rk") == "param":
                    cur = l["n"]
        chk.ob("I2", nxt.name, "advances-cursor", cur is not None, loc=nxt.loc(nxt.body),
               detail="%s never moves the iterator's cursor: iteration yields the first element forever" % nxt.name, proof="a store to the cursor field exists")
        if cur is None:
            continue
        index_cursor = cur.endswith("index")
        # I1
        ok = False
        for x in walk(init.body):
            if x.get("k") == "assign" and x.get("op") == "=":
                l = X.strip(x["ch"][0])
                if l.get("k") == "member" and l.get("n") == cur:
                    r = X.strip(x["ch"][1])
                    if index_cursor and X.const_val(r) == 0:
                        ok = True
                    if not index_cursor and r.get("k") == "member" and r.get("n") == "head":
                        ok = True
        chk.ob("I1", init.name, "starts-at-first", ok, loc=init.loc(init.body),
               detail="%s does not set the cursor (%s) to the first element (%s)" % (init.name, cur, "index 0" if index_cursor else "subject->head"),
               proof="cursor := first element")
        # I2: on every path to a return of a non-constant value there is exactly one advance, and the element read precedes it
        cfg = nullness.prepared_cfg(nxt, NORETURN)

        def is_cur(e):
            s = X.strip(e)
            return s is not None and s.get("k") == "member" and s.get("n") == cur and X.strip(s["ch"][0]).get("rk") == "param"

        def tr(state, x, blk):
            adv, rd = state
            if x.get("k") == "assign" and is_cur(x["ch"][0]):
                r = X.strip(x["ch"][1])
                step = False
                if x.get("op") == "=" and r.get("k") == "member" and r.get("n") == "next" and is_cur(r["ch"][0]):
                    step = True
                if x.get("op") == "+=" and X.const_val(r) == 1:
                    step = True
                if x.get("op") == "=" and r.get("k") == "bin" and r.get("op") == "+" and is_cur(r["ch"][0]) and X.const_val(r["ch"][1]) == 1:
                    step = True
                return (adv + 1 if step else 99, rd)
            if x.get("k") == "un" and x.get("op") in ("++", "--") and is_cur(x["ch"][0]):
                return (adv + 1 if x["op"] == "++" else 99, rd)
            # the element read: self->current->data, or get(subject, self->current_index)
            if x.get("k") == "member" and x.get("n") == "data" and is_cur(x["ch"][0]):
                return (adv, rd if adv else rd + 1)
            if x.get("k") == "call" and any(is_cur(a) for a in x["ch"][1:]) and re.search(r"_get$|_get_data$", X.callee_name(x) or ""):
                return (adv, rd if adv else rd + 1)
            return state
        res = []

        def vis(state, x, blk):
            if x.get("k") == "return" and x.get("val") is not None and X.const_val(x["val"]) is None and not X.is_null_const(x["val"]):
                res.append((x, state))
        flow.forward(cfg, (0, 0), tr, join=lambda a, b: a if a == b else (98, min(a[1], b[1])), visit=vis)
        okadv = bool(res) and all(s[0] == 1 for _, s in res)
        okrd = bool(res) and all(s[1] >= 1 for _, s in res)
        chk.ob("I2", nxt.name, "one-step-per-call", okadv, loc=nxt.loc(res[0][0]) if res else nxt.loc(nxt.body),
               detail="%s does not advance the cursor by exactly one element on every successful path: elements are skipped or repeated" % nxt.name,
               proof="exactly one `cursor = cursor->next` / `cursor++` before the return")
        chk.ob("I2", nxt.name, "reads-before-advancing", okrd, loc=nxt.loc(res[0][0]) if res else nxt.loc(nxt.body),
               detail="%s does not read the element under the cursor before moving it: the first element is skipped" % nxt.name,
               proof="the element is read through the un-advanced cursor")
        # I3
        cfg = nullness.prepared_cfg(has, NORETURN)
        rets = []
        if index_cursor:
            from .ghostpos import GhostPos
            from .lin import Lin

            class IterPos(GhostPos):
                def lin(self, e):
                    s = X.strip(e)
                    if s is not None and s.get("k") == "member" and s.get("n") == cur:
                        return Lin.sym("cur")
                    if s is not None and s.get("k") == "member" and s.get("n") == "len":
                        return Lin.sym("len")
                    return GhostPos.lin(self, e)

                def ptr_fact(self, cons, e, isnull):
                    return None if isnull else []
            g = IterPos(has, prog)
            g.run()
            C, Ln = Lin.sym("cur"), Lin.sym("len")

            def v3(st, x, blk):
                if x.get("k") == "return" and x.get("val") is not None:
                    cv = X.const_val(x["val"])
                    if cv == 1:
                        rets.append((x, entails_(st, Ln - 1 - C), "TRUE although the cursor is not known to be below len"))
                    elif cv == 0:
                        rets.append((x, all(not g.compatible(s_, [Ln - 1 - C]) for s_ in g.states_before(x["i"])), "FALSE although cursor < len is possible"))

            def entails_(st, goal):
                from .lin import entails
                return entails(list(st), goal)
            g.visit(v3)
        else:
            def v3(state, x, blk):
                if x.get("k") == "return" and x.get("val") is not None:
                    cv = X.const_val(x["val"])
                    curfacts = [f_ for f_ in state if f_[0] in ("nn", "null") and f_[1].endswith("->" + cur)]
                    otherf = [f_ for f_ in state if f_[0] == "null" and not f_[1].endswith("->" + cur)]
                    if otherf:
                        return              # refusal for a NULL iterator / subject
                    if cv == 1:
                        rets.append((x, any(f_[0] == "nn" for f_ in curfacts), "TRUE although the cursor was not tested non-NULL"))
                    elif cv == 0:
                        rets.append((x, any(f_[0] == "null" for f_ in curfacts), "FALSE although the cursor was not found NULL"))
            flow.forward(cfg, frozenset(), nullness.transfer, refine=nullness.refine, visit=v3)
        chk.ob("I3", has.name, "has-both-answers", len({X.const_val(r[0]["val"]) for r in rets}) == 2, loc=has.loc(has.body),
               detail="%s cannot answer both TRUE and FALSE about the cursor" % has.name, proof="a TRUE and a FALSE return decided by the cursor")
        for x, ok, why in rets:
            chk.ob("I3", has.name, "exhaustion-exact:%s" % ("TRUE" if X.const_val(x["val"]) == 1 else "FALSE"), ok, loc=has.loc(x),
                   detail="%s returns %s: exhaustion is reported at the wrong time (after count elements exactly is required)" % (has.name, why),
                   proof="the answer follows from the cursor test")
    return n
